"""Shared machinery for C09 (lazy-loading order independence) and C10 (private-table isolation).

Everything is observed in FRESH interpreters: the parent (a task of c09/c10) builds a *program*
(list of steps), pipes it as JSON to a child `sys.executable -c "import runner.lazy_common as L;
L.child_main()"`, and the child

    1. imports `periodictable` (nothing else of the package),
    2. executes the steps strictly in order (events, class-state snapshots, canonical finisher,
       digests),
    3. prints one marked JSON line.

This module imports only the standard library at top level and never imports a `periodictable`
submodule on its own: values are summarised by *class name*, so the harness does not perturb the
history under test.

Vocabulary
  group      one of the seven lazily loaded property groups registered in periodictable/__init__.py
             (emission = K_alpha,K_beta1 and their units) plus the eager groups mass, density.
  event      a named snippet (EVENTS / the `T.` events for private tables) returning a JSON-able value
             or {"exc": <type name>}.
  finisher   the canonical tail: first-touch every lazy group still pending on the public table by an
             attribute read through an element (`pt.Fe.<name>`; `pt.Fe[58].neutron_activation` for
             the isotope-only group).
  digest     per group: {"<atom>.<attr>": token} over ALL elements, all isotopes (for the groups
             with isotope data) and a fixed sample of isotopes / ions / isotope ions, AttributeError
             rendered as the token "<AttributeError>".
"""
import hashlib
import json
import os
import sys

HERE = os.path.dirname(os.path.abspath(__file__))
VERIF = os.path.dirname(HERE)
MARK = "@@LAZY-RESULT@@"

# --------------------------------------------------------------------------------------------
# groups
# --------------------------------------------------------------------------------------------
GROUPS = {
    "covalent_radius": dict(
        names=["covalent_radius", "covalent_radius_units", "covalent_radius_uncertainty"],
        classes=["Element"], module="covalent_radius", init="init", prop="covalent_radius",
        touch="pt.Fe.covalent_radius"),
    "crystal_structure": dict(
        names=["crystal_structure"], classes=["Element"], module="crystal_structure",
        init="init", prop="crystal_structure", touch="pt.Fe.crystal_structure"),
    "neutron": dict(
        names=["neutron"], classes=["Element", "Isotope"], module="nsf", init="init",
        prop="neutron", touch="pt.Fe.neutron"),
    "neutron_activation": dict(
        names=["neutron_activation"], classes=["Isotope"], module="activation", init="init",
        prop="neutron_activation", touch="pt.Fe[58].neutron_activation"),
    "xray": dict(
        names=["xray"], classes=["Element", "Ion"], module="xsf", init="init", prop="xray",
        touch="pt.Fe.xray"),
    "emission": dict(
        names=["K_alpha", "K_beta1", "K_alpha_units", "K_beta1_units"], classes=["Element"],
        module="xsf", init="init_spectral_lines", prop=None, touch="pt.Fe.K_alpha"),
    "magnetic_ff": dict(
        names=["magnetic_ff"], classes=["Element"], module="magnetic_ff", init="init",
        prop="magnetic_ff", touch="pt.Fe.magnetic_ff"),
}
LAZY_GROUPS = list(GROUPS)
EAGER_GROUPS = ["mass", "density"]
ALL_GROUPS = EAGER_GROUPS + LAZY_GROUPS
NAME_GROUP = dict((n, g) for g, spec in GROUPS.items() for n in spec["names"])
CLASSES = ["Element", "Isotope", "Ion"]

RECEIVERS = {
    "element": "pt.Fe",
    "isotope": "pt.Fe[58]",
    "ion": "pt.Fe.ion[2]",
    "isotope_ion": "pt.Fe[58].ion[2]",
    # an isotope that exists (mass table) but has no row of its own in the isotope-level data (neutron, activation):
    # the first touch through it must not be answered from its element
    "isotope_norow": "pt.C[14]",
}
# an atom for which the canonical order has no table entry for the group
NODATA = {
    "covalent_radius": "pt.Og", "crystal_structure": "pt.Og", "neutron": "pt.Og",
    "neutron_activation": "pt.H[1]", "xray": "pt.Og", "emission": "pt.H", "magnetic_ff": "pt.H",
}

SAMPLE_ISOTOPES = [("Fe", 56), ("Fe", 58), ("H", 2), ("Cu", 63), ("U", 238)]
SAMPLE_IONS = [("Fe", 2), ("Fe", 3), ("O", -2), ("Na", 1), ("Cl", -1), ("Cu", 2)]
SAMPLE_ISO_IONS = [("Fe", 56, 2), ("Fe", 58, 2), ("Cu", 63, 2)]

# --------------------------------------------------------------------------------------------
# C09 event alphabet (public table)
# --------------------------------------------------------------------------------------------
_MOD = "importlib.import_module('periodictable.%s')"

_ACTIVATION_CALC = """\
act = importlib.import_module('periodictable.activation')
env = act.ActivationEnvironment(fluence=1e8, Cd_ratio=70., fast_ratio=50., location='BT-2')
smp = act.Sample('Co', 1.0)
smp.calculate_activation(env, exposure=1, rest_times=(0, 1, 24))
_r = sorted(('%s>%s:%s' % (k.isotope, k.daughter, k.reaction), S(v)) for k, v in smp.activity.items())
"""


def _build_events():
    ev = {}

    def add(name, code, touches, kind):
        ev[name] = {"code": code, "touches": list(touches), "kind": kind}

    for g, spec in GROUPS.items():
        for n in spec["names"]:
            recv = dict(RECEIVERS)
            recv["nodata"] = NODATA[g]
            for rname, rexpr in recv.items():
                add("read:%s:%s" % (n, rname), "S(%s.%s)" % (rexpr, n), [g], "read")
                add("hasattr:%s:%s" % (n, rname), "hasattr(%s, %r)" % (rexpr, n), [g], "hasattr")
                add("getattr_default:%s:%s" % (n, rname),
                    "S(getattr(%s, %r, None))" % (rexpr, n), [g], "getattr_default")
        add("list:%s" % spec["names"][0],
            "capture(lambda: pt.elements.list('symbol', %r))" % spec["names"][0], [g], "list")
    for m, touches in [("nsf", ["neutron"]), ("xsf", ["xray", "emission"]),
                       ("covalent_radius", ["covalent_radius"]),
                       ("crystal_structure", ["crystal_structure"]),
                       ("magnetic_ff", ["magnetic_ff"]), ("activation", ["neutron_activation"]),
                       ("fasta", ["neutron", "xray", "emission"])]:
        add("import:%s" % m, "(%s, 'imported')[1]" % (_MOD % m), touches, "import")
    for g, spec in GROUPS.items():
        label = spec["module"] if spec["init"] == "init" else "%s.%s" % (spec["module"], spec["init"])
        add("init:%s" % label,
            "(%s.%s(pt.elements), 'done')[1]" % (_MOD % spec["module"], spec["init"]), [g], "init")
        if spec["init"] == "init":
            add("init_reload:%s" % label,
                "(%s.init(pt.elements, reload=True), 'done')[1]" % (_MOD % spec["module"]),
                [g], "init")
    add("calc:neutron_sld", "S(pt.neutron_sld('H2O', density=1))", ["neutron"], "calc")
    add("calc:neutron_scattering", "S(pt.neutron_scattering('H2O', density=1))", ["neutron"], "calc")
    add("calc:element_neutron_sld", "S(pt.Ni.neutron.sld())", ["neutron"], "calc")
    add("calc:neutron_sld_norow_isotope", "S(pt.neutron_sld('C[14]O2', density=1.5))", ["neutron"], "calc")
    add("calc:fasta", "str(pt.formula('aa:A'))", ["neutron"], "calc")
    # atoms that own an energy-dependent table, asked BEFORE any other neutron datum (some carry the table's 'E' flag, some do not)
    add("calc:energy_dependent_first",
        "S([a.neutron.scattering_by_wavelength(0.5)[0] for a in (pt.Er, pt.Yb, pt.Lu, pt.Dy[164], pt.Er[167], pt.Yb[174], pt.Lu[176], pt.Gd[157], pt.Sm)])",
        ["neutron"], "calc")
    add("calc:energy_dependent_sld", "S(pt.neutron_sld('Er2O3', density=8.6, wavelength=0.5))", ["neutron"], "calc")
    add("calc:xray_sld", "S(pt.xray_sld('H2O', density=1, energy=8.0))", ["xray"], "calc")
    add("calc:xray_sld_K_alpha", "S(pt.xray_sld('SiO2', density=2.2, wavelength=pt.Cu.K_alpha))",
        ["xray", "emission"], "calc")
    add("calc:f0", "S(pt.Fe.ion[2].xray.f0(0.1))", ["xray"], "calc")
    add("calc:activation", _ACTIVATION_CALC, ["neutron_activation"], "calc")
    add("calc:iso_abundance",
        "S(%s.IAEA1987_isotopic_abundance(pt.Co[59]))" % (_MOD % "activation"),
        ["neutron_activation"], "calc")
    add("calc:volume", "S(pt.formula('Fe').volume())", ["covalent_radius"], "calc")
    add("calc:volume_mixed", "S(pt.formula('NaCl').volume('cubic'))", ["covalent_radius"], "calc")
    add("calc:magnetic", "S(pt.Fe.ion[2].magnetic_ff[2].M_Q([0, 0.1, 0.2]))", ["magnetic_ff"], "calc")
    return ev


EVENTS = _build_events()

# --------------------------------------------------------------------------------------------
# C10 vocabulary (private tables)
# --------------------------------------------------------------------------------------------
# module label -> (python module, init function, group digested)
PRIVATE_MODULES = {
    "mass": ("mass", "init", "mass"),
    "density": ("density", "init", "density"),
    "nsf": ("nsf", "init", "neutron"),
    "xsf": ("xsf", "init", "xray"),
    "xsf_lines": ("xsf", "init_spectral_lines", "emission"),
    "covalent_radius": ("covalent_radius", "init", "covalent_radius"),
    "crystal_structure": ("crystal_structure", "init", "crystal_structure"),
    "magnetic_ff": ("magnetic_ff", "init", "magnetic_ff"),
    "activation": ("activation", "init", "neutron_activation"),
}
GROUP_PRIVATE_MODULE = dict((v[2], k) for k, v in PRIVATE_MODULES.items())
# modules whose init needs mass/density on the same table (nsf asserts it; activation indexes the
# isotopes created by mass.init)
NEEDS_PREREQ = ("nsf", "activation")

# mutation id -> (module label, code on T)
MUTATIONS = {
    "assign/_mass": ("mass", "T.Fe._mass = 1.0"),
    "assign/iso_mass": ("mass", "T.Fe[56]._mass = 1.0"),
    "assign/iso_abundance": ("mass", "T.Fe[56]._abundance = 1.0"),
    "assign/mass": ("mass", "T.Fe.mass = 1.0"),
    "assign/_density": ("density", "T.Fe._density = 1.0"),
    "assign/density": ("density", "T.Fe.density = 1.0"),
    "assign/neutron": ("nsf", "T.Fe.neutron = None"),
    "mutate/neutron.b_c": ("nsf", "T.Fe.neutron.b_c = 99.0"),
    "mutate/iso_neutron.b_c": ("nsf", "T.Fe[56].neutron.b_c = 99.0"),
    "mutate/neutron_default.b_c": ("nsf", "T.Og.neutron.b_c = 99.0"),
    "mutate/neutron.nsf_table": ("nsf", "T.Gd.neutron.nsf_table[1][:] = 0.0"),
    "assign/xray": ("xsf", "T.Fe.xray = None"),
    "mutate/xray.sftable": ("xsf", "T.Fe.xray.sftable[1][:] = 0.0"),
    "assign/K_alpha": ("xsf_lines", "T.Fe.K_alpha = 9.0"),
    "assign/K_alpha_units": ("xsf_lines", "T.Fe.K_alpha_units = 'nm'"),
    "assign/covalent_radius": ("covalent_radius", "T.Fe.covalent_radius = 9.0"),
    "assign/covalent_radius_uncertainty":
        ("covalent_radius", "T.Fe.covalent_radius_uncertainty = 9.0"),
    "assign/crystal_structure": ("crystal_structure", "T.C.crystal_structure = {'symmetry': 'x'}"),
    "mutate/crystal_structure[a]": ("crystal_structure", "T.C.crystal_structure['a'] = 99.0"),
    "assign/magnetic_ff": ("magnetic_ff", "T.Fe.magnetic_ff = {}"),
    "mutate/magnetic_ff[2].j0": ("magnetic_ff", "T.Fe.magnetic_ff[2].j0 = (0.0,)*7"),
    "mutate/magnetic_ff.pop": ("magnetic_ff", "T.Fe.magnetic_ff.pop(3)"),
    "assign/neutron_activation": ("activation", "T.Fe[58].neutron_activation = []"),
    "mutate/neutron_activation.append":
        ("activation", "T.Fe[58].neutron_activation.append(T.Fe[58].neutron_activation[0])"),
    "mutate/neutron_activation[0].abundance":
        ("activation", "T.Fe[58].neutron_activation[0].abundance = 99.0"),
}


def private_event(name):
    """`T.create:<T>`, `T.prereq:<T>`, `T.init:<module>:<T>`, `T.read:<group>:<T>`,
    `T.mut:<mutation id>:<T>` -> (table name, code).  Events on a table that does not exist yet
    create it first; T.init of nsf/activation runs mass.init/density.init on T first (the documented
    precondition)."""
    parts = name.split(":")
    op, tname = parts[0], parts[-1]
    if op == "T.create":
        return tname, "_r = 'created'"
    if op == "T.prereq":
        return tname, ("%s.init(T); %s.init(T); _r = 'done'" % (_MOD % "mass", _MOD % "density"))
    if op == "T.init":
        mod, fn, _g = PRIVATE_MODULES[parts[1]]
        code = ""
        if parts[1] in NEEDS_PREREQ:
            code += "%s.init(T); %s.init(T)\n" % (_MOD % "mass", _MOD % "density")
        return tname, code + "%s.%s(T); _r = 'done'" % (_MOD % mod, fn)
    if op == "T.read":
        g = parts[1]
        if g in GROUPS:
            expr = GROUPS[g]["touch"].replace("pt.", "T.", 1)
        else:
            expr = {"mass": "T.Fe.mass", "density": "T.Fe.density"}[g]
        return tname, "_r = S(%s)" % expr
    if op == "T.mut":
        return tname, MUTATIONS[parts[1]][1] + "\n_r = 'done'"
    raise KeyError(name)


def event_code(name):
    if name.startswith("T."):
        return private_event(name)[1]
    return EVENTS[name]["code"]


# --------------------------------------------------------------------------------------------
# value summaries (by class name only: no periodictable submodule is imported here)
# --------------------------------------------------------------------------------------------
NEUTRON_FIELDS = ["b_c", "b_c_i", "b_c_complex", "bp", "bp_i", "bm", "bm_i", "coherent",
                  "incoherent", "total", "absorption", "abundance", "is_energy_dependent",
                  "nsf_table", "_number_density"]


def _sha(b):
    return hashlib.sha1(b).hexdigest()


def _guard(fn):
    try:
        return summ(fn())
    except AttributeError:
        return "<AttributeError>"
    except Exception as exc:  # noqa
        return "<%s>" % type(exc).__name__


def atom_key(a):
    """Fe, Fe[56], Fe{2}, Fe[56]{2} (the table is not part of the key)."""
    cls = type(a).__name__
    charge = ""
    if cls == "Ion":
        charge = "{%d}" % a.charge
        a = a.element
        cls = type(a).__name__
    if cls == "Isotope":
        return "%s[%d]%s" % (a.element.symbol, a.isotope, charge)
    return "%s%s" % (a.symbol, charge)


def summ(v):
    if v is None or isinstance(v, (bool, int, str)):
        return v
    if isinstance(v, float):
        return repr(float(v))          # numpy float64 is a float: same text as a python float
    if isinstance(v, complex):
        return repr(complex(v))
    t = type(v)
    mod = t.__module__ or ""
    name = t.__name__
    if mod == "numpy" or mod.startswith("numpy."):
        if getattr(v, "shape", ()) != ():
            return "nd:%s:%s:%s" % (list(v.shape), v.dtype, _sha(v.tobytes())[:16])
        return summ(v.item())
    if isinstance(v, (list, tuple)):
        return [summ(x) for x in v]
    if isinstance(v, dict):
        return dict((str(k), summ(x)) for k, x in sorted(v.items(), key=lambda kv: str(kv[0])))
    if isinstance(v, (set, frozenset)):
        return sorted(str(summ(x)) for x in v)
    if mod.startswith("periodictable"):
        if name == "Neutron":
            d = dict((f, _guard(lambda f=f: getattr(v, f))) for f in NEUTRON_FIELDS)
            d["has_sld()"] = _guard(v.has_sld)
            d["sld()"] = _guard(v.sld)
            return d
        if name == "Xray":
            return {"sftable": _guard(lambda: v.sftable),
                    "scattering_factors(8keV)": _guard(lambda: v.scattering_factors(energy=8.0)),
                    "sld(8keV)": _guard(lambda: v.sld(energy=8.0)),
                    "f0(0.1)": _guard(lambda: v.f0(0.1))}
        if name in ("Element", "Isotope", "Ion"):
            return "atom:%s:%s" % (_guard(lambda: v.table), atom_key(v))
        if name == "Formula":
            return "formula:%s" % v
        d = {"__class__": name}
        d.update(summ(dict(vars(v))))
        return d
    return "<%s>" % name


def token(fn):
    """JSON text of the summary of fn(), or "<AttributeError>" / "<ExcType>"."""
    try:
        return json.dumps(summ(fn()), sort_keys=True)
    except AttributeError:
        return "<AttributeError>"
    except Exception as exc:  # noqa
        return "<%s>" % type(exc).__name__


# --------------------------------------------------------------------------------------------
# digests (child side)
# --------------------------------------------------------------------------------------------
def _sample_atoms(table):
    out = []
    for sym, n in SAMPLE_ISOTOPES:
        try:
            out.append(getattr(table, sym)[n])
        except Exception:  # noqa  (table without mass.init has no isotopes)
            pass
    for sym, c in SAMPLE_IONS:
        out.append(getattr(table, sym).ion[c])
    for sym, n, c in SAMPLE_ISO_IONS:
        try:
            out.append(getattr(table, sym)[n].ion[c])
        except Exception:  # noqa
            pass
    return out


def digest_group(table, group):
    d = {}
    elements = list(table)
    if group == "mass":
        for el in elements:
            d[el.symbol + ".mass"] = token(lambda: el.mass)
            for iso in el:
                k = atom_key(iso)
                d[k + ".mass"] = token(lambda: iso.mass)
                d[k + ".abundance"] = token(lambda: iso.abundance)
        for a in _sample_atoms(table):
            if type(a).__name__ == "Ion":
                d[atom_key(a) + ".mass"] = token(lambda: a.mass)
    elif group == "density":
        for el in elements:
            for n in ("density", "number_density", "interatomic_distance", "density_caveat"):
                d["%s.%s" % (el.symbol, n)] = token(lambda: getattr(el, n))
            for iso in el:
                d[atom_key(iso) + ".density"] = token(lambda: iso.density)
        for a in _sample_atoms(table):
            if type(a).__name__ == "Ion":
                d[atom_key(a) + ".density"] = token(lambda: a.density)
                d[atom_key(a) + ".number_density"] = token(lambda: a.number_density)
    elif group == "neutron":
        cache = {}

        def rec(a):
            try:
                r = a.neutron
            except AttributeError:
                return "<AttributeError>"
            except Exception as exc:  # noqa
                return "<%s>" % type(exc).__name__
            if id(r) not in cache:
                cache[id(r)] = (r, token(lambda: r))   # keep r alive: ids stay unique
            return cache[id(r)][1]
        for el in elements:
            d[el.symbol + ".neutron"] = rec(el)
            for iso in el:
                k = atom_key(iso)
                d[k + ".neutron"] = rec(iso)
                d[k + ".nuclear_spin"] = token(lambda: iso.nuclear_spin)
        for a in _sample_atoms(table):
            if type(a).__name__ == "Ion":
                d[atom_key(a) + ".neutron"] = rec(a)
    elif group == "neutron_activation":
        for el in elements:
            d[el.symbol + ".neutron_activation"] = token(lambda: el.neutron_activation)
            for iso in el:
                d[atom_key(iso) + ".neutron_activation"] = token(lambda: iso.neutron_activation)
        for a in _sample_atoms(table):
            if type(a).__name__ == "Ion":
                d[atom_key(a) + ".neutron_activation"] = token(lambda: a.neutron_activation)
    else:
        names = GROUPS[group]["names"]
        for a in elements + _sample_atoms(table):
            k = atom_key(a)
            for n in names:
                d["%s.%s" % (k, n)] = token(lambda: getattr(a, n))
    return d


def hash_detail(d):
    return _sha(json.dumps(sorted(d.items())).encode("utf8"))


def class_state(pt, core):
    """Which lazy names are still `delayed_load` properties on which class (read from the class
    __dict__: does not trigger anything)."""
    st = {}
    for g, spec in GROUPS.items():
        cells = {}
        for n in spec["names"]:
            for c in CLASSES:
                v = getattr(core, c).__dict__.get(n, _ABSENT)
                if v is _ABSENT:
                    s = "absent"
                elif isinstance(v, property) and getattr(v.fget, "__name__", "") == "getfn" \
                        and v.fset is not None:
                    s = "pending"
                elif isinstance(v, property):
                    s = "property"
                else:
                    s = "value:%s" % type(v).__name__
                cells["%s.%s" % (c, n)] = s
        registered = [cells["%s.%s" % (c, n)] for n in spec["names"] for c in spec["classes"]]
        if all(s == "pending" for s in registered):
            summary = "pending"
        elif any(s == "pending" for s in registered):
            summary = "mixed"
        else:
            summary = "not-pending"
        st[g] = {"summary": summary, "cells": cells}
    return {"groups": st, "properties": list(pt.elements.properties),
            "modules": sorted(m.split(".", 1)[1] for m in sys.modules
                              if m.startswith("periodictable.") and sys.modules[m] is not None)}


_ABSENT = object()


def diff_detail(expected, got, limit=3):
    """Explain a digest mismatch: number of differing values, first differing atom/attribute,
    breakdown by attribute."""
    keys = sorted(set(expected) | set(got))
    bad = [k for k in keys if expected.get(k, "<no such atom>") != got.get(k, "<no such atom>")]
    by_attr = {}
    for k in bad:
        a = k.split(".", 1)[1] if "." in k else k
        by_attr[a] = by_attr.get(a, 0) + 1

    def short(s):
        s = str(s)
        return s if len(s) <= 160 else s[:157] + "..."
    return {"differing": len(bad), "of": len(keys), "by_attribute": by_attr,
            "first": [{"key": k, "expected": short(expected.get(k, "<no such atom>")),
                       "observed": short(got.get(k, "<no such atom>"))} for k in bad[:limit]]}


# --------------------------------------------------------------------------------------------
# child
# --------------------------------------------------------------------------------------------
def _capture(fn):
    import io
    old = sys.stdout
    sys.stdout = buf = io.StringIO()
    try:
        fn()
    finally:
        sys.stdout = old
    import re
    text = re.sub(r"0x[0-9a-fA-F]+", "0x?", buf.getvalue())   # object addresses are not values
    lines = text.splitlines()
    return {"lines": len(lines), "sha": _sha(text.encode("utf8"))[:16], "head": lines[:2]}


def _run_code(code, ns):
    """Evaluate an expression, or exec statements and return `_r`."""
    try:
        try:
            compiled = compile(code, "<event>", "eval")
        except SyntaxError:
            compiled = None
        if compiled is not None:
            return eval(compiled, ns)
        ns.pop("_r", None)
        exec(compile(code, "<event>", "exec"), ns)
        return ns.get("_r")
    except Exception as exc:  # noqa
        return {"exc": type(exc).__name__, "msg": str(exc)[:200]}


def child_main():
    import importlib
    import io
    spec = json.loads(sys.stdin.read())
    real_stdout = sys.stdout
    sys.stdout = io.StringIO()          # events must not write into the result channel
    import periodictable as pt
    core = sys.modules["periodictable.core"]
    tables = {}
    ns = {"pt": pt, "core": core, "importlib": importlib, "S": summ, "capture": _capture,
          "tables": tables}
    expect = spec.get("expect") or {}
    full = bool(spec.get("full"))
    out = {"results": [], "states": {}, "digests": {}, "finish": {}, "same": {}, "walk": None}
    details = {}
    for step in spec["steps"]:
        op = step["op"]
        if op == "ev":
            name = step["name"]
            if name.startswith("T."):
                tname, code = private_event(name)
                if tname not in tables:
                    try:
                        tables[tname] = core.PeriodicTable(tname)
                    except Exception as exc:  # noqa
                        out["results"].append({"exc": type(exc).__name__, "msg": str(exc)[:200]})
                        continue
                ns["T"] = tables[tname]
                val = _run_code(code, ns)
            else:
                val = _run_code(EVENTS[name]["code"], ns)
            try:
                json.dumps(val)
            except Exception:  # noqa
                val = summ(val)
            out["results"].append(val)
        elif op == "code":                   # free-form code (formula routing, walkers)
            ns["OUT"] = out
            val = _run_code(step["code"], ns)
            out["results"].append(val)
        elif op == "state":
            out["states"][step["label"]] = class_state(pt, core)
        elif op == "finish":
            for g in LAZY_GROUPS:
                r = _run_code("S(%s)" % GROUPS[g]["touch"], ns)
                out["finish"][g] = r
        elif op == "digest":
            tname = step.get("table", "public")
            table = pt.elements if tname == "public" else tables[tname]
            if step.get("prereq") and tname != "public":
                importlib.import_module("periodictable.mass").init(table)
                importlib.import_module("periodictable.density").init(table)
            label = step["label"]
            groups = step.get("groups") or ALL_GROUPS
            det = dict((g, digest_group(table, g)) for g in groups)
            details[label] = det
            hashes = dict((g, hash_detail(det[g])) for g in groups)
            exp = expect.get(label) or {}
            keep = {}
            for g in groups:
                if full or (g in exp and exp[g] != hashes[g]):
                    keep[g] = det[g]
            out["digests"][label] = {"hash": hashes, "detail": keep}
        elif op == "same":
            a, b = details[step["a"]], details[step["b"]]
            res = {}
            for g in a:
                if g in b and a[g] != b[g]:
                    res[g] = diff_detail(a[g], b[g])
            out["same"]["%s=%s" % (step["a"], step["b"])] = res
        else:
            raise ValueError("unknown op %r" % op)
    sys.stdout = real_stdout
    sys.stdout.write(MARK + json.dumps(out) + "\n")
    sys.stdout.flush()


# --------------------------------------------------------------------------------------------
# parent side: driver
# --------------------------------------------------------------------------------------------
def ev(name):
    return {"op": "ev", "name": name}


def child_env():
    env = dict(os.environ)
    repo = os.environ.get("VERIF_REPO", "/repo")
    paths = [repo, VERIF] + [p for p in env.get("PYTHONPATH", "").split(os.pathsep) if p]
    seen, uniq = set(), []
    for p in paths:
        if p not in seen:
            seen.add(p)
            uniq.append(p)
    env["PYTHONPATH"] = os.pathsep.join(uniq)
    env["PYTHONDONTWRITEBYTECODE"] = "1"
    env.pop("PERIODICTABLE_DATA", None)
    return env


def run_program(steps, expect=None, full=False, timeout=300):
    """Run one program in a fresh interpreter; returns the child's dict (or {"crash": ...})."""
    import subprocess
    spec = json.dumps({"steps": steps, "expect": expect or {}, "full": full})
    try:
        p = subprocess.run(
            [sys.executable, "-c", "import runner.lazy_common as L; L.child_main()"],
            input=spec, capture_output=True, text=True, timeout=timeout, env=child_env(),
            cwd="/var/tmp")
    except subprocess.TimeoutExpired:
        return {"crash": "timeout after %ss" % timeout}
    for line in p.stdout.splitlines():
        if line.startswith(MARK):
            return json.loads(line[len(MARK):])
    return {"crash": "exit %s: %s" % (p.returncode, p.stderr[-1500:])}


def run_many(programs, workers=None, expect=None, full=False):
    """programs: list of step lists -> list of child results, same order, run in parallel."""
    from concurrent.futures import ThreadPoolExecutor
    if workers is None:
        workers = min(16, os.cpu_count() or 4)
    if not programs:
        return []
    with ThreadPoolExecutor(max_workers=workers) as pool:
        return list(pool.map(lambda st: run_program(st, expect=expect, full=full), programs))


FINISH = [{"op": "finish"}, {"op": "digest", "table": "public", "label": "public"}]

_CANON = {}


def canonical():
    """Canonical order = first touch of every group by an attribute read through an element, in a
    fresh interpreter.  Returns {"hash": {group: h}, "detail": {group: {...}}, "values": {event:
    value}, "finish": {...}} (cached per process)."""
    if _CANON:
        return _CANON
    names = sorted(EVENTS, key=lambda n: (EVENTS[n]["kind"] == "init", n))
    progs = [
        [{"op": "finish"}, {"op": "state", "label": "after"},
         {"op": "digest", "table": "public", "label": "public"}],
        # the digest itself reads every atom of every group: taking it twice shows values that depend on what was read before
        [{"op": "finish"}] + [ev(n) for n in names]
        + [{"op": "digest", "table": "public", "label": "public"}, {"op": "digest", "table": "public", "label": "public_again"}],
    ]
    a, b = run_many(progs, full=True)
    if "crash" in a or "crash" in b:
        raise RuntimeError("canonical run crashed: %r %r" % (a.get("crash"), b.get("crash")))
    _CANON["hash"] = a["digests"]["public"]["hash"]
    _CANON["detail"] = a["digests"]["public"]["detail"]
    _CANON["finish"] = a["finish"]
    _CANON["state"] = a["states"]["after"]
    _CANON["values"] = dict(zip(names, b["results"]))
    # evaluating every event after the canonical load must itself leave the digest unchanged
    _CANON["values_digest_ok"] = (b["digests"]["public"]["hash"] == _CANON["hash"]
                                   and b["digests"]["public_again"]["hash"] == _CANON["hash"])
    return _CANON


def stability_note():
    """Re-run the canonical order at the end of a task: [] if it still gives the digest used as
    reference, else a warning (the source tree was modified while the task was running)."""
    c = canonical()
    r = run_program([{"op": "finish"}, {"op": "digest", "table": "public", "label": "public"}])
    if "crash" not in r and r["digests"]["public"]["hash"] == c["hash"]:
        return []
    return ["WARNING: the canonical digest changed while this task was running (source tree "
            "modified concurrently?): differences reported by this run are unreliable, rerun"]


def same_value(a, b):
    """Event values are equal; exceptions compare by type."""
    if isinstance(a, dict) and "exc" in a and isinstance(b, dict) and "exc" in b:
        return a["exc"] == b["exc"]
    return a == b


def short(v, n=200):
    s = v if isinstance(v, str) else json.dumps(v, sort_keys=True, default=str)
    return s if len(s) <= n else s[:n - 3] + "..."


def compare_public(res, canon=None, label="public"):
    """-> {group: diff summary} for every group whose digest differs from the canonical one."""
    canon = canon or canonical()
    dg = res["digests"][label]
    out = {}
    for g, h in dg["hash"].items():
        if h != canon["hash"][g]:
            det = dg["detail"].get(g)
            out[g] = diff_detail(canon["detail"][g], det) if det is not None else {"differing": "?"}
    return out


def diff_signature(diffs):
    """Stable, compact signature of a {group: diff} mapping (used to cluster failures by cause)."""
    return json.dumps(sorted((g, d.get("differing"), sorted(d.get("by_attribute", {}).items()),
                              [(f["key"], f["observed"]) for f in d.get("first", [])[:1]])
                             for g, d in diffs.items()), sort_keys=True)


def shrink_all(reps, run_batch, has_component):
    """Delta-debug many representatives at once.  reps: {component key: history};
    run_batch(histories) -> results; has_component(key, history, result) -> bool.  Single events are
    deleted while the component is still observed; all candidates of a round run in one batch."""
    active, done = dict(reps), {}
    while active:
        cands, owner = [], []
        for ck, h in list(active.items()):
            if len(h) <= 1:
                done[ck] = active.pop(ck)
                continue
            for i in range(len(h)):
                cands.append(h[:i] + h[i + 1:])
                owner.append(ck)
        if not cands:
            break
        results = run_batch(cands)
        nxt = {}
        for ck in active:
            found = None
            for c, k, r in zip(cands, owner, results):
                if k == ck and has_component(ck, c, r):
                    found = c
                    break
            if found is None:
                done[ck] = active[ck]
            else:
                nxt[ck] = found
        active = nxt
    return done


def diff_text(diffs):
    parts = []
    for g in sorted(diffs):
        d = diffs[g]
        first = d.get("first") or [{}]
        f = first[0]
        parts.append("%s: %s of %s values differ; first %s expected %s observed %s"
                     % (g, d.get("differing"), d.get("of"), f.get("key"), f.get("expected"),
                        f.get("observed")))
    return "; ".join(parts)


def registered_from_source():
    """Independent reading of the delayed_load registrations in periodictable/__init__.py (ast):
    -> [(names, {"Element": bool, "Isotope": bool, "Ion": bool})]."""
    import ast
    repo = os.environ.get("VERIF_REPO", "/repo")
    src = open(os.path.join(repo, "periodictable", "__init__.py")).read()
    out = []
    for node in ast.walk(ast.parse(src)):
        if isinstance(node, ast.Call) and isinstance(node.func, ast.Attribute) \
                and node.func.attr == "delayed_load":
            names = [e.value for e in node.args[0].elts]
            flags = {"Element": True, "Isotope": False, "Ion": False}
            for kw in node.keywords:
                flags[{"element": "Element", "isotope": "Isotope", "ion": "Ion"}[kw.arg]] = \
                    bool(kw.value.value)
            out.append((names, flags))
    return out
