"""C01 (native, BOUNDED): whole-string recognition by the real parser against the reference reading.

Tasks
  recognition  strings derived from the documented grammar (all derivation shapes up to a bound, leaves
               from boundary classes, plus random derivations) must be accepted with the atoms, charge
               and density of the reference reading; single malformations of the fixed list must raise.
               Public table and one fresh private table.  This is sampling of an unbounded language.
  replay       re-run one string: arg = {"input": {"string": s, "table": "public"|"private"}, "key": k}
"""
import os
import re
import sys
import time
import random
import multiprocessing

from runner import ref_formula as R

REL = 1e-12
_STATE = {}

NOTES_AMBIGUITY = [
    "documented ambiguity (1): the count of `group :: count element+` / `'(' formula ')' count` is read "
    "as optional (every example of the guide omits it) - not a violation",
    "documented ambiguity (2): `density :: '@' count` is read with the optional 'n'/'i' suffix of the "
    "prose (\"D2O@1n\") - not a violation",
    "documented ambiguity (3): a density tag or a mixture inside a parenthesised group of a compound "
    "(\"(Fe@7.8)2\") is outside the quantifier; such strings are never generated and are skipped on replay",
]


def tables():
    """{'public': default table, 'private': a fresh private table with mass and density}"""
    if "tables" not in _STATE:
        import periodictable
        from periodictable import core, mass, density
        name = "verif_private_%d" % os.getpid()
        T = core.PRIVATE_TABLES.get(name)
        if T is None:
            T = core.PeriodicTable(name)
            mass.init(T)
            density.init(T)
        _STATE["tables"] = {"public": periodictable.elements, "private": T}
    return _STATE["tables"]


def info():
    if "info" not in _STATE:
        _STATE["info"] = R.TableInfo(tables()["public"])
    return _STATE["info"]


def real_formula(s, table):
    import periodictable
    return periodictable.formula(s, table=table)


# ---------------------------------------------------------------------------------------------
# case plan: case i of the run is a pure function of (tier, seed, i)
# ---------------------------------------------------------------------------------------------
CANONICAL = ["Fe", "Fe2O3", "CaCO3(H2O)6", "Fe[56]{2+}2O{2-}3", "HO ((CH2)2O)6 H", "CaCO3+6H2O",
             "D2O", "Na{+}Cl{1-}", "CaCO3+(3HO1.5)2", "2D2O + H2O"]


class Plan(object):
    def __init__(self, tier, seed):
        self.tier, self.seed = tier, seed
        thorough = tier == "thorough"
        self.depth, self.max_groups = (4, 6) if thorough else (3, 4)
        self.classes = info().atom_classes(full=thorough)
        self.shapes = R.enumerate_shapes(self.depth, self.max_groups)
        self.n_canon = len(CANONICAL) * len(R.STYLES)
        self.n_single = len(self.classes) * (2 if thorough else 1)
        self.n_shapes = len(self.shapes)
        self.n_random = 100000 if thorough else 300
        self.total = self.n_canon + self.n_single + self.n_shapes + self.n_random
        self.mal_stride = 4 if thorough else 3
        self.mal_pick = 15

    def case(self, i):
        """(family, ast, style, malformation selector)"""
        if i < self.n_canon:
            ast = R.parse(CANONICAL[i // len(R.STYLES)])
            st = dict(R.STYLES[i % len(R.STYLES)])
            if i % len(R.STYLES) == 0:
                ast_style = "all"
            else:
                ast_style = None
            # the canonical strings keep their own separators in the first style
            if i % len(R.STYLES) != 0:
                _clear_seps(ast)
            return "canonical", ast, st, ast_style
        i -= self.n_canon
        if i < self.n_single:
            tmpl = self.classes[i % len(self.classes)]
            variant = (i // len(self.classes) * 2 + i) % 4
            c = R.COUNT_POOL[1 + i % (len(R.COUNT_POOL) - 1)]
            if variant == 0:
                g = R.Group(False, None, [R.copy_element(tmpl)])
            elif variant == 1:
                g = R.Group(False, None, [R.copy_element(tmpl, c)])
            elif variant == 2:
                g = R.Group(False, c, [R.copy_element(tmpl)])
            else:
                g = R.Group(True, c, [R.Group(False, None, [R.copy_element(tmpl)])])
            return "single_atom", R.Compound([g]), R.STYLES[i % len(R.STYLES)], i
        i -= self.n_single
        if i < self.n_shapes:
            ast = R.fill_shape(self.shapes[i], i + self.seed * 7919, self.classes)
            return "shape", ast, R.STYLES[(i + self.seed) % len(R.STYLES)], i
        i -= self.n_shapes
        rng = random.Random(self.seed * 1000003 + i)
        ast = R.random_derivation(rng, self.depth, info())
        st = dict(R.STYLES[rng.randrange(len(R.STYLES))])
        return "random", ast, st, i


def _clear_seps(node):
    if isinstance(node, R.Compound):
        node.seps = None
        for g in node.groups:
            _clear_seps(g)
    elif isinstance(node, R.Group) and node.explicit:
        node.seps = None
        for g in node.items:
            _clear_seps(g)


# ---------------------------------------------------------------------------------------------
# checking one string
# ---------------------------------------------------------------------------------------------
def _norm_msg(exc):
    msg = "%s:%s" % (type(exc).__name__, str(exc))
    msg = re.sub(r"\(at char.*", "", msg)
    msg = re.sub(r"found '.*?'", "found ...", msg)
    msg = re.sub(r"[0-9]+", "N", msg)
    return msg.strip()[:90]


def check_valid_string(s, m, table):
    """None or (clause, observed, expected, detail) for one derivable string with reference meaning m"""
    try:
        f = real_formula(s, table)
    except Exception as exc:  # the property forbids any exception here
        return ("exception", "%s: %s" % (type(exc).__name__, str(exc)[:200]), R.atoms_json(m.atoms),
                _norm_msg(exc))
    diffs = R.compare_compound(f, m, REL)
    if not diffs:
        return None
    clause = diffs[0][0]
    return (clause, {d[0]: d[1] for d in diffs}, {d[0]: d[2] for d in diffs}, None)


def _counted_then_space(ast, style):
    """an implicit group with a leading count, then white space only, then an uncounted element run"""
    toks = R.tokens(ast, style)
    for i, t in enumerate(toks):
        if t[0] == "sep" and t[1] != "" and t[1].strip() == "" and i + 1 < len(toks) \
                and toks[i + 1][0] == "sym":
            j = i - 1
            while j >= 0 and toks[j][0] in ("sym", "iso", "ion", "ecount"):
                j -= 1
            if j >= 0 and toks[j][0] == "lcount":
                return True
    return False


def classify(clause, detail, ast, s, style):
    has_ion = any(t[0] == "ion" for t in R.tokens(ast))
    if clause == "exception":
        return "exception:" + detail
    if clause in ("atoms", "charge"):
        if _counted_then_space(ast, style):
            return clause + ":leading_count_extends_over_space_separated_group"
        return clause + ":other"
    if clause == "density":
        tag = ast.density
        if tag is None:
            return "density:single_atom_default"
        if tag[1] == "n":
            return "density:natural_density_tag" + ("_with_ion" if has_ion else "")
        return "density:isotopic_density_tag"
    return clause


def neutralise(ast):
    """copy of a compound in which every white-space-only separator between an UNCOUNTED parenthesised
    group and a following implicit group with a leading count is written ' + '.  "(A) 2B" is derivable
    only because the count of a parenthesised group is read as optional (documented ambiguity 1), so
    whether the 2 belongs to "(A)" or to "B" is not decided by the guide."""
    changed = [False]

    def fix(groups, seps):
        n = len(groups)
        seps = list(seps) if seps else [None] * (n - 1)
        new = []
        for i, g in enumerate(groups):
            if i > 0 and groups[i - 1].explicit and groups[i - 1].count is None \
                    and not g.explicit and g.count is not None:
                seps[i - 1] = " + "
                changed[0] = True
            if g.explicit:
                items, sp = fix(g.items, g.seps)
                new.append(R.Group(True, g.count, items, sp))
            else:
                new.append(g)
        return new, seps

    groups, seps = fix(ast.groups, ast.seps)
    return R.Compound(groups, seps, ast.density), changed[0]


def _sub_compounds(c):
    groups = c.groups
    seps = c.seps or [None] * (len(groups) - 1)
    if len(groups) > 1:
        for i in range(len(groups)):
            yield R.Compound([groups[i]], None, c.density)
        for i in range(len(groups) - 1):
            yield R.Compound(groups[i:i + 2], [seps[i]], c.density)
    for g in groups:
        if g.explicit:
            yield R.Compound(g.items, g.seps, c.density)
        elif len(g.items) > 1 and len(groups) == 1:
            for e in g.items:
                yield R.Compound([R.Group(False, g.count, [e])], None, c.density)
    if c.density is not None:
        yield R.Compound(groups, c.seps, None)


def minimise(ast, style, table, cause, table_name):
    """smallest sub-derivation (same style) that still fails with the same cause"""
    best, best_s = ast, R.render(ast, style)
    improved = True
    rounds = 0
    while improved and rounds < 6:
        improved = False
        rounds += 1
        for cand in _sub_compounds(best):
            s = R.render(cand, style)
            if len(s) >= len(best_s):
                continue
            try:
                m = R.meaning(cand, table)
            except R.RefError:
                continue
            res = check_valid_string(s, m, table)
            if res and classify(res[0], res[3], cand, s, style) == cause:
                best, best_s, improved = cand, s, True
    return best, best_s


def _ex_key(e):
    # examples from the canonical strings of the guide first (stable keys across tiers), then shortest
    return (e.get("canon", 1), len(e["string"]), e["string"], e["table"])


def _run_range(args):
    tier, seed, start, stop = args
    plan = _STATE.get(("plan", tier, seed))
    if plan is None:
        plan = _STATE[("plan", tier, seed)] = Plan(tier, seed)
    tabs = tables()
    inf = info()
    out = dict(evals=0, strings=0, valid=0, malformed=0, groups={}, samples=[], ref_inconsistent=[],
               mal_discarded=[], inner_space_only=0, families={}, kinds={}, amb1=0, amb1_examples=[])

    def record(side, cause, s, tname, observed, expected, orig=None):
        g = out["groups"].setdefault((side, cause), dict(count=0, tables={}, examples=[]))
        g["count"] += 1
        g["tables"][tname] = g["tables"].get(tname, 0) + 1
        ex = g["examples"]
        e = dict(string=s, table=tname, observed=observed, expected=expected, original=orig,
                 canon=0 if family == "canonical" else 1)
        if len(ex) < 8 or _ex_key(e) < _ex_key(ex[-1]):
            ex.append(e)
            ex.sort(key=_ex_key)
            del ex[8:]

    for i in range(start, stop):
        family, ast, style, sel = plan.case(i)
        s = R.render(ast, style)
        out["families"][family] = out["families"].get(family, 0) + 1
        # reference self-consistency: the rendered string must read back to the same meaning
        try:
            m_pub = R.meaning(ast, tabs["public"])
            m_back = R.meaning(R.parse(s), tabs["public"])
            ok = set(m_pub.atoms) == set(m_back.atoms) and all(
                R.close(m_pub.atoms[a], m_back.atoms[a], 1e-14) for a in m_pub.atoms) \
                and R.close(m_pub.density, m_back.density, 1e-14)
        except R.RefError as exc:
            ok = False
        if not ok:
            if len(out["ref_inconsistent"]) < 5:
                out["ref_inconsistent"].append(s)
            continue
        out["strings"] += 1
        out["valid"] += 1
        for tname, T in tabs.items():
            m = m_pub if tname == "public" else R.meaning(ast, T)
            res = check_valid_string(s, m, T)
            out["evals"] += 1
            if res is None:
                continue
            if style.get("paren") == "inner":
                st2 = dict(style)
                st2["paren"] = ""
                s2 = R.render(ast, st2)
                if check_valid_string(s2, m, T) is None:
                    out["inner_space_only"] += 1
                    continue
            ast_n, changed = neutralise(ast)
            if changed:
                s_n = R.render(ast_n, style)
                res_n = check_valid_string(s_n, m, T)
                if res_n is None:
                    out["amb1"] += 1
                    if len(out["amb1_examples"]) < 3:
                        out["amb1_examples"].append(s)
                    continue
                ast, s, res = ast_n, s_n, res_n
            cause = classify(res[0], res[3], ast, s, style)
            g = out["groups"].get(("accept", cause))
            if g is None or g["count"] < 12:
                _, s_min = minimise(ast, style, T, cause, tname)
            else:
                s_min = s
            if s_min != s:
                m2 = R.meaning(R.parse(s_min), T)
                r2 = check_valid_string(s_min, m2, T)
                record("accept", cause, s_min, tname, r2[1], r2[2], orig=s)
            else:
                record("accept", cause, s, tname, res[1], res[2])
        if len(out["samples"]) < 2 and i % 97 == 0:
            out["samples"].append(dict(kind="valid:" + family, string=s, atoms=R.atoms_json(m_pub.atoms),
                                       charge=m_pub.charge, density=m_pub.density))
        # malformations
        if sel == "all":
            chosen = None
        elif isinstance(sel, int) and sel % plan.mal_stride == 0:
            chosen = sel // plan.mal_stride
        else:
            continue
        mal = R.malformations(ast, inf, style, random.Random(seed * 7 + i))
        for j, (kind, cause, bad) in enumerate(mal):
            if chosen is not None and (j + chosen) % plan.mal_pick != 0:
                continue
            rej = R.reference_rejects(bad, tabs["public"])
            if rej is not True:
                if len(out["mal_discarded"]) < 5:
                    out["mal_discarded"].append([kind, cause, bad])
                continue
            out["strings"] += 1
            out["malformed"] += 1
            out["kinds"][kind] = out["kinds"].get(kind, 0) + 1
            for tname, T in tabs.items():
                out["evals"] += 1
                try:
                    f = real_formula(bad, T)
                except Exception:
                    continue
                record("reject", kind + ":" + cause, bad, tname,
                       dict(returned=str(f), atoms=R.atoms_json(f.atoms), density=f.density),
                       "an exception")
            if len(out["samples"]) < 4 and j % 11 == 0 and i % 5 == 0:
                out["samples"].append(dict(kind="malformed:" + kind + ":" + cause, string=bad,
                                           expected="exception"))
    return out


def _merge(parts):
    tot = dict(evals=0, strings=0, valid=0, malformed=0, groups={}, samples=[], ref_inconsistent=[],
               mal_discarded=[], inner_space_only=0, families={}, kinds={}, amb1=0, amb1_examples=[])
    for p in parts:
        for k in ("evals", "strings", "valid", "malformed", "inner_space_only", "amb1"):
            tot[k] += p[k]
        for k in ("families", "kinds"):
            for a, b in p[k].items():
                tot[k][a] = tot[k].get(a, 0) + b
        for k in ("samples", "ref_inconsistent", "mal_discarded", "amb1_examples"):
            tot[k].extend(p[k])
        for key, g in p["groups"].items():
            t = tot["groups"].setdefault(key, dict(count=0, tables={}, examples=[]))
            t["count"] += g["count"]
            for a, b in g["tables"].items():
                t["tables"][a] = t["tables"].get(a, 0) + b
            t["examples"].extend(g["examples"])
    for g in tot["groups"].values():
        seen, ex = set(), []
        for e in sorted(g["examples"], key=_ex_key):
            if e["string"] not in seen:
                seen.add(e["string"])
                ex.append(e)
        g["examples"] = ex
    return tot


WHAT = {
    "reject": "a string with a single malformation of the fixed list (%s) is accepted and yields a "
              "formula; the property requires an exception",
    "accept:exception": "a string derivable from the documented grammar is rejected with an exception "
                        "(%s); the property requires the formula of the reference reading",
    "accept:atoms": "the atom counts of the parsed formula differ from the documented reading (a count "
                    "multiplies everything in its own group, groups are separated by space or '+'): %s",
    "accept:charge": "the net charge differs from the documented reading (%s)",
    "accept:density": "the density differs from the documented reading of the '@' tag / the single-atom "
                      "default (%s)",
}
EXPLAIN = {
    "leading_count_extends_over_space_separated_group":
        "guide: 'multiple groups separated by space or plus', `group :: count element+`; the leading "
        "count of a group is applied to the following space-separated group as well, e.g. "
        "'6H2O CaCO3' is read as 6(H2O CaCO3) while 'CaCO3 6H2O' and '6H2O+CaCO3' are read as documented",
    "natural_density_tag_with_ion":
        "'@dn' gives the density with isotopes replaced by the natural element; for an ion the natural "
        "mass must keep the charge (electron-mass correction) and for an ion of an isotope the natural "
        "element must be used - natural_mass_ratio does neither (same root cause as C12)",
    "two_points": "'1.2.3' is not a `count`; the code reads '1.2' and then starts a new group with the "
                  "leading count '.3', which it allows to be separated from its element / to follow a "
                  "')' after white space - the EBNF has no white space inside `count element+` or "
                  "between ')' and its count",
    "NoneType' and 'float'": "a single isotope of an element whose density is unknown (At, Rn, Fr, ...): "
                  "the single-atom density default raises instead of leaving the density None "
                  "(same root cause as C06 density(isotope))",
    "missing_number": "`density :: '@' count` - the count is mandatory, '@' alone (or '@n', '@i') is "
                      "read as density 1",
}


def _violations(tot):
    out = []
    for (side, cause), g in sorted(tot["groups"].items()):
        ex = g["examples"]
        first = ex[0]
        if side == "reject":
            what = WHAT["reject"] % cause
        else:
            what = WHAT.get("accept:" + cause.split(":")[0], "%s") % cause
        for k, v in EXPLAIN.items():
            if cause.endswith(k):
                what += " [" + v + "]"
        out.append(dict(
            key="recognition:%s:%s:%s" % (side, cause, first["string"]),
            what=what,
            input=dict(string=first["string"], table=first["table"]),
            observed=first["observed"], expected=first["expected"],
            count=g["count"], tables=g["tables"],
            examples=[dict(string=e["string"], table=e["table"], original=e.get("original"))
                      for e in ex[:3]]))
    return out[:60]


def task_recognition(tier, seed, arg):
    t0 = time.time()
    plan = Plan(tier, seed)
    _STATE[("plan", tier, seed)] = plan
    n = plan.total
    if arg and arg.get("limit"):
        n = min(n, int(arg["limit"]))
    workers = 1
    if tier == "thorough":
        workers = max(1, min(14, (os.cpu_count() or 2) - 1))
    if arg and "workers" in arg:
        workers = int(arg["workers"])
    if workers > 1:
        chunk = 2000
        jobs = [(tier, seed, a, min(n, a + chunk)) for a in range(0, n, chunk)]
        ctx = multiprocessing.get_context("fork")
        with ctx.Pool(workers) as pool:
            parts = pool.map(_run_range, jobs, chunksize=1)
    else:
        parts = [_run_range((tier, seed, 0, n))]
    tot = _merge(parts)
    notes = list(NOTES_AMBIGUITY)
    notes.append("BOUNDED: %d derivation shapes (all shapes with <= %d groups, parentheses nested <= %d), "
                 "%d single-atom formulas (%s atom classes), %d random derivations, %d canonical strings "
                 "x %d styles; %d malformed strings %s; two tables (public, fresh private)"
                 % (plan.n_shapes, plan.max_groups, plan.depth, plan.n_single,
                    "all symbols/isotopes/ions" if tier == "thorough" else "boundary",
                    plan.n_random, len(CANONICAL), len(R.STYLES), tot["malformed"],
                    dict(sorted(tot["kinds"].items()))))
    if tot["ref_inconsistent"]:
        notes.append("HARNESS: %d generated strings did not read back to their own derivation and were "
                     "skipped, e.g. %r" % (len(tot["ref_inconsistent"]), tot["ref_inconsistent"][:3]))
    if tot["mal_discarded"]:
        notes.append("HARNESS: malformations accepted by the reference reading were discarded, e.g. %r"
                     % (tot["mal_discarded"][:3],))
    if tot["inner_space_only"]:
        notes.append("white space just inside parentheses (not in the EBNF) was not accepted in %d cases; "
                     "not counted as a violation" % tot["inner_space_only"])
    if tot["amb1"]:
        notes.append("observation (depends on documented ambiguity 1, not a violation): %d evaluations of "
                     "strings with an UNCOUNTED parenthesised group followed by white space and a counted "
                     "group, e.g. %r, are read by the code with the count attached to the parenthesis "
                     "(\"(A) 2B\" as \"(A)2 B\"); with ' + ' in place of the space they agree with the "
                     "reference" % (tot["amb1"], tot["amb1_examples"][:3]))
    notes.append("runtime %.1f s, %d worker(s)" % (time.time() - t0, workers))
    return dict(
        evaluations=tot["evals"], distinct=tot["strings"],
        rule="strings rendered from reference derivations: every compound shape up to the bound, leaves "
             "cycling through count spellings {absent,1,2,10,0.5,.5,1.,1.25,12.5}, every symbol, isotopes, "
             "ions (|q|=1 with/without the 1, |q|>1), D/T, isotope+ion, density tags; %d separator/"
             "spelling styles; plus seeded random derivations and single malformations; each string x "
             "{public, private} table is one evaluation; distinct = strings; counts rel %g"
             % (len(R.STYLES), REL),
        exhaustive=False, samples=tot["samples"][:5], violations=_violations(tot), notes=notes,
        valid_strings=tot["valid"], malformed_strings=tot["malformed"])


def task_replay(tier, seed, arg):
    inp = (arg or {}).get("input") or {}
    s = inp.get("string", "")
    tname = inp.get("table", "public")
    T = tables()[tname]
    key = (arg or {}).get("key", "")
    res = dict(evaluations=1, distinct=1, rule="replay of one string", exhaustive=False,
               samples=[dict(string=s, table=tname)], violations=[], notes=[])
    try:
        ast = R.parse(s)
        m = R.meaning(ast, T)
        expect = "accept"
    except R.RefOutside as exc:
        res["notes"].append("outside the quantifier (documented ambiguity): %s" % exc)
        return res
    except R.RefError as exc:
        expect = "reject"
        reason = str(exc)
    if expect == "reject":
        try:
            f = real_formula(s, T)
        except Exception as exc:
            res["notes"].append("rejected as required: %s: %s" % (type(exc).__name__, str(exc)[:100]))
            return res
        res["violations"].append(dict(
            key=key or "recognition:reject:replay:" + s,
            what="the reference reading rejects the string (%s) but formula() returns a formula" % reason,
            input=dict(string=s, table=tname),
            observed=dict(returned=str(f), atoms=R.atoms_json(f.atoms), density=f.density),
            expected="an exception"))
        return res
    r = check_valid_string(s, m, T)
    if r is None:
        res["notes"].append("accepted with the reference meaning")
        return res
    ast_n, changed = neutralise(ast)
    if changed and check_valid_string(R.render(ast_n), m, T) is None:
        res["notes"].append("differs from the reference only in how \"(A) 2B\" is read (uncounted "
                            "parenthesis, white space, count): depends on documented ambiguity (1), not a "
                            "violation; observed %r" % (r[1],))
        return res
    cause = classify(r[0], r[3], ast, s, {'sep': None})
    res["violations"].append(dict(
        key=key or "recognition:accept:%s:%s" % (cause, s),
        what="derivable string: clause '%s' of the reference reading fails (%s)" % (r[0], cause),
        input=dict(string=s, table=tname), observed=r[1], expected=r[2]))
    return res
