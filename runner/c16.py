"""C16 native side: D2O contrast (nsf.D2O_sld, nsf.D2O_match) and the biomolecule classes of fasta.py against a
direct calculation: labile hydrogens H[1] replaced by d*n deuterium and (1-d)*n natural hydrogen at unchanged cell
volume, evaluated with the documented neutron equations (oracle of c03)."""
import random

from . import nat
from .nat import Result, atom_from_name
from . import c03
from .c03 import Grouped, doc_scattering, formula_string, compound_id

RTOL = 1e-10
RTOL_MATCH = 1e-9
WATER_DENSITY = 0.9982          # documented: solvent SLD is calculated at 20 C, "H2O@0.9982n" / "D2O@0.9982n"
D_GRID = [0.0, 0.1, 0.25, 0.5, 0.8, 1.0]
VF_GRID = [0.0, 0.3, 0.5, 1.0]
RULE_TOL = ("real/imaginary SLD compared at rtol 1e-10 plus 1e-12 of the operand scale 10*N*mean|n_k Re b_k| (the real "
            "SLD of hydrogenous material is a difference of positive and negative scattering lengths); match point and "
            "equal-SLD-at-every-volume-fraction at rel 1e-9 of max(|SLD|, (1+|d*|)*largest component SLD); the match "
            "check is skipped when |SLD_D - SLD_H + SLD_H2O - SLD_D2O| < 1e-6*largest term")

HAND = [
    ([["Si", 1], ["O", 2]], 2.2),
    ([["C", 27], ["H", 45], ["O", 1], ["H[1]", 1]], 1.05),
    ([["C", 3], ["H", 4], ["H[1]", 3], ["N", 1], ["O", 2]], 1.42),
    ([["D", 2], ["O", 1]], 1.107),
    ([["H[1]", 2], ["O", 1]], 1.0),
    ([["H", 2], ["O", 1]], 1.0),
    ([["C", 2], ["H", 5], ["O", 1], ["H[1]", 1]], 0.789),
    ([["C", 1], ["H", 3], ["O", 1], ["H[1]", 1]], 0.792),
    ([["C", 6], ["H", 7], ["H[1]", 5], ["O", 6]], 1.54),
    ([["C", 3], ["H", 4], ["H[1]", 1], ["N", 1], ["O", 1]], 1.29),
    ([["C", 6], ["H", 9], ["H[1]", 4], ["N", 2], ["O", 1]], 1.2),
    ([["C", 1], ["D", 3], ["O", 1], ["H[1]", 1]], 0.89),
    ([["C", 2], ["D", 5], ["O", 1], ["H[1]", 1]], 0.9),
    ([["C", 10], ["H", 8], ["H[1]", 3], ["N", 5], ["O", 6], ["P", 1], ["Na", 1]], 1.8),
    ([["Na", 1], ["Cl", 1]], 2.165),
    ([["Au", 1]], 19.3),
    ([["C", 8], ["H", 8]], 1.05),
    ([["C", 8], ["D", 8]], 1.13),
    ([["C", 1], ["H", 2]], 0.95),
    ([["C", 1], ["D", 2]], 1.06),
    ([["H[1]", 2], ["S", 1], ["O", 4]], 1.83),
    ([["N", 1], ["H[1]", 3]], 0.73),
    ([["N", 1], ["H[1]", 4], ["Cl", 1]], 1.53),
    ([["Ca", 1], ["C", 1], ["O", 3]], 2.71),
    ([["Gd", 2], ["O", 3]], 7.41),
    ([["H[1]", 3], ["P", 1], ["O", 4]], 1.88),
    ([["C", 36], ["H", 72], ["N", 1], ["O", 8], ["P", 1]], 1.0),
    ([["C", 12], ["H", 14], ["H[1]", 8], ["O", 11]], 1.59),
    ([["H[1]", 1]], 0.07),
    ([["H[1]", 1], ["D", 1], ["O", 1]], 1.05),
    ([["Fe{3+}", 1], ["O{2-}", 3], ["H[1]", 3]], 3.4),
    ([["C", 2], ["H", 4.5], ["H[1]", 1.5], ["O", 1]], 1.1),
    ([["Gd", 1], ["O", 3], ["H[1]", 3]], 5.0),
    ([["C", 4], ["H", 2], ["D", 3], ["H[1]", 2], ["N", 1], ["O", 2]], 1.3),
]


def _table():
    import periodictable
    return periodictable.elements


def atom_dict(atoms):
    d = {}
    for nm, c in atoms:
        a = atom_from_name(nm)
        d[a] = d.get(a, 0) + c
    return d


def mass_of(d):
    return sum(n * c03.atom_mass(a) for a, n in d.items())


def substituted(d, rho, frac):
    """atoms and density with a fraction `frac` of the labile H[1] replaced by D and the rest by natural H, the cell
    volume (mass/density) unchanged"""
    t = _table()
    H1, H, D = t.H[1], t.H, t.D
    out = {a: n for a, n in d.items() if a is not H1}
    n1 = d.get(H1, 0)
    if n1:
        if frac != 0:
            out[D] = out.get(D, 0) + frac * n1
        if frac != 1:
            out[H] = out.get(H, 0) + (1 - frac) * n1
    m0, m1 = mass_of(d), mass_of(out)
    return out, (rho * m1 / m0 if m0 else rho)


def sld2(d, rho, lam):
    """(real, imag, operand scale) from the documented equations; vacuum for an empty/zero-density material"""
    if not d or rho == 0 or mass_of(d) == 0:
        return 0.0, 0.0, 0.0
    r = doc_scattering(d, rho, lam)
    return r["real_sld"], r["imag_sld"], r["re_scale"]


def solvent(dfrac, lam):
    t = _table()
    h2o = {t.H: 2, t.O: 1}
    d2o = {t.D: 2, t.O: 1}
    rho_d = WATER_DENSITY * mass_of(d2o) / mass_of(h2o)      # "n": same cell volume as natural water
    a = sld2(h2o, WATER_DENSITY, lam)
    b = sld2(d2o, rho_d, lam)
    return (dfrac * b[0] + (1 - dfrac) * a[0], dfrac * b[1] + (1 - dfrac) * a[1], max(a[2], b[2])), a, b


def differs(obs, exp, scale, rtol=RTOL):
    return not abs(obs - exp) <= rtol * max(abs(obs), abs(exp)) + 1e-12 * scale


def _lib_compound(case):
    from periodictable.formulas import formula
    if case.get("as", "string") == "string":
        return formula_string(case["atoms"]) + "@%r" % float(case["density"])
    return formula(atom_dict(case["atoms"]), density=case["density"])


def check_compound(G, R, case):
    from periodictable import nsf
    d = atom_dict(case["atoms"])
    rho = case["density"]
    lam = case.get("wavelength") or c03.LAMBDA0
    kw = {"wavelength": case["wavelength"]} if case.get("wavelength") else {}
    cid = compound_id(case["atoms"], rho) + (":%.6g" % lam if kw else "")

    def lib(vf, df):
        return nsf.D2O_sld(_lib_compound(case), volume_fraction=vf, D2O_fraction=df, **kw)

    sH = sld2(*substituted(d, rho, 0.0), lam)
    sD = sld2(*substituted(d, rho, 1.0), lam)
    for df in D_GRID:
        try:
            solute = lib(1.0, df)
            solv = lib(0.0, df)
        except Exception as e:
            G.violation(("exception",), "sample:exception:%s:%g" % (cid, df), "D2O_sld raised", case,
                        "%s: %s" % (type(e).__name__, e))
            return
        atoms_d, rho_d = substituted(d, rho, df)
        want = sld2(atoms_d, rho_d, lam)
        want_solv, sw_h, sw_d = solvent(df, lam)
        for j, part in enumerate(("real", "imag")):
            R.ok(2)
            if differs(float(solute[j]), want[j], max(want[2], sH[2], sD[2])):
                G.violation(("solute", part), "sample:solute_%s:%s:%g:1" % (part, cid, df),
                            "%s SLD at volume fraction 1 and D2O fraction %g is not that of the compound with %g of its "
                            "labile H replaced by D and the rest by natural H at unchanged cell volume" % (part, df, df),
                            dict(case, d=df), float(solute[j]), want[j])
            if differs(float(solv[j]), want_solv[j], want_solv[2]):
                G.violation(("solvent", part), "sample:solvent_%s:%s:%g:0" % (part, cid, df),
                            "%s SLD at volume fraction 0 is not the H2O/D2O mixture (0.9982 g/cm^3 natural density, "
                            "mixed linearly in the D2O fraction)" % part, dict(case, d=df), float(solv[j]), want_solv[j])
        for vf in VF_GRID[1:-1] + [0.77]:
            mid = lib(vf, df)
            for j, part in enumerate(("real", "imag")):
                R.ok(2)
                lin = vf * float(solute[j]) + (1 - vf) * float(solv[j])
                scale = max(want[2], want_solv[2])
                if differs(float(mid[j]), lin, scale):
                    G.violation(("linear", part), "sample:linear_%s:%s:%g:%g" % (part, cid, df, vf),
                                "%s SLD is not linear in the volume fraction between its values at 0 and 1" % part,
                                dict(case, d=df, vf=vf), float(mid[j]), lin)
                direct = vf * want[j] + (1 - vf) * want_solv[j]
                if differs(float(mid[j]), direct, scale):
                    G.violation(("mixture", part), "sample:mixture_%s:%s:%g:%g" % (part, cid, df, vf),
                                "%s SLD of the solution is not vf*solute + (1-vf)*solvent of the direct calculation"
                                % part, dict(case, d=df, vf=vf), float(mid[j]), direct)
    # match point
    _, sw_h, sw_d = solvent(0.0, lam)
    den = sD[0] - sH[0] + sw_h[0] - sw_d[0]
    big = max(abs(sD[0]), abs(sH[0]), abs(sw_h[0]), abs(sw_d[0]))
    if abs(den) < 1e-6 * big:
        R.notes.append("match point of %s skipped: denominator %g" % (cid, den))
        return
    try:
        dstar, sld_star = nsf.D2O_match(_lib_compound(case), **kw)
        vals = [float(nsf.D2O_sld(_lib_compound(case), volume_fraction=vf, D2O_fraction=dstar, **kw)[0])
                for vf in (0.0, 0.3, 1.0)]
    except Exception as e:
        G.violation(("match_exception",), "sample:match_exception:%s" % cid, "D2O_match raised", case,
                    "%s: %s" % (type(e).__name__, e))
        return
    dstar = float(dstar)
    want_d = (sw_h[0] - sH[0]) / den
    R.ok(3)
    tol = RTOL_MATCH * max(max(abs(v) for v in vals), (1 + abs(dstar)) * big)
    if max(vals) - min(vals) > tol:
        G.violation(("match_equal",), "sample:match_equal:%s" % cid,
                    "at the reported match point the real SLD of the solution is not the same at volume fractions "
                    "0, 0.3 and 1", case, {"D2O_fraction": dstar, "sld": vals}, "equal")
    if abs(float(sld_star) - vals[2]) > tol:
        G.violation(("match_sld",), "sample:match_sld:%s" % cid,
                    "the SLD reported with the match point is not the real SLD of the solution at that D2O fraction",
                    case, float(sld_star), vals[2])
    if abs(dstar - want_d) > RTOL_MATCH * max(abs(want_d), big / abs(den)):
        G.violation(("match_value",), "sample:match_value:%s" % cid,
                    "reported match point is not the D2O fraction at which the directly calculated solute and solvent "
                    "real SLDs coincide", case, dstar, want_d)


def fasta_molecules():
    """(table name, key, molecule) for every Molecule table of fasta.py"""
    from periodictable import fasta
    out = []
    for tn in sorted(n for n in dir(fasta) if n.isupper()):
        tab = getattr(fasta, tn)
        if isinstance(tab, dict) and tn != "CODE_TABLES":
            for k in sorted(tab):
                if isinstance(tab[k], fasta.Molecule):
                    out.append((tn, k, tab[k]))
    return out


SEQUENCES = [("aa", "ACDEFGHIKLMNPQRSTVWY"), ("aa", "GGGG"), ("aa", "BJZX-A"), ("dna", "ACGTRYKMSWBDHVNX-"),
             ("rna", "ACGU"), ("rna", "AUGN"), ("aa", "beta_casein"), ("dna", "A"), ("aa", "P")]


def check_molecule(G, R, case):
    from periodictable import fasta, nsf
    if case["kind"] == "fasta":
        m = getattr(fasta, case["table"])[case["code"]]
        mid = "%s[%s]" % (case["table"], case["code"])
    else:
        seq = fasta.beta_casein if case["seq"] == "beta_casein" else case["seq"]
        m = fasta.Sequence("replay", seq, type=case["type"])
        mid = "Sequence(%s:%s)" % (case["type"], case["seq"])
    f = m.labile_formula
    lam = c03.LAMBDA0
    d, rho = dict(f.atoms), f.density
    sH = sld2(*substituted(d, rho, 0.0), lam)
    sD = sld2(*substituted(d, rho, 1.0), lam)
    scale = max(sH[2], sD[2], 1e-300)
    R.ok(2)
    if differs(float(m.sld), sH[0], scale):
        G.violation(("fasta_sld",), "sample:fasta_sld:%s" % mid,
                    "Molecule.sld is not the real SLD of the molecule with labile H as natural hydrogen", case,
                    float(m.sld), sH[0])
    if differs(float(m.Dsld), sD[0], scale):
        G.violation(("fasta_Dsld",), "sample:fasta_Dsld:%s" % mid,
                    "Molecule.Dsld is not the real SLD of the molecule with labile H as deuterium at unchanged cell "
                    "volume", case, float(m.Dsld), sD[0])
    try:
        lib_match = nsf.D2O_match(f)
        l0 = nsf.D2O_sld(f, volume_fraction=1.0, D2O_fraction=0.0)[0]
        l1 = nsf.D2O_sld(f, volume_fraction=1.0, D2O_fraction=1.0)[0]
    except Exception as e:
        G.violation(("fasta_exception",), "sample:fasta_exception:%s" % mid,
                    "nsf.D2O_match/D2O_sld raised for the labile formula of a biomolecule", case,
                    "%s: %s" % (type(e).__name__, e))
        return
    R.ok(3)
    a, b = float(m.D2Omatch), 100 * float(lib_match[0])
    if not abs(a - b) <= RTOL_MATCH * max(abs(a), abs(b)):
        G.violation(("fasta_match",), "sample:fasta_match:%s" % mid,
                    "Molecule.D2Omatch (percent) is not 100*nsf.D2O_match(labile_formula)", case, a, b)
    if differs(float(m.sld), float(l0), scale, RTOL_MATCH) or differs(float(m.Dsld), float(l1), scale, RTOL_MATCH):
        G.violation(("fasta_solute",), "sample:fasta_solute:%s" % mid,
                    "Molecule.sld/.Dsld are not nsf.D2O_sld(labile_formula, volume_fraction=1, D2O_fraction=0/1)",
                    case, [float(m.sld), float(m.Dsld)], [float(l0), float(l1)])
    _, sw_h, sw_d = solvent(0.0, lam)
    for df in D_GRID:
        for vf in VF_GRID:
            R.ok(1)
            a = float(m.D2Osld(volume_fraction=vf, D2O_fraction=df))
            b = float(nsf.D2O_sld(f, volume_fraction=vf, D2O_fraction=df)[0])
            if differs(a, b, max(scale, sw_h[2], sw_d[2]), RTOL_MATCH):
                G.violation(("fasta_D2Osld",), "sample:fasta_D2Osld:%s:%g:%g" % (mid, df, vf),
                            "Molecule.D2Osld(vf, d) is not nsf.D2O_sld(labile_formula, vf, d)[0]",
                            dict(case, d=df, vf=vf), a, b)


def random_compound(rng):
    pool = ["C", "H", "N", "O", "P", "S", "Na", "Cl", "D", "Si", "Fe", "Ca", "K", "Mg", "Fe{3+}", "O{2-}", "Na{1+}",
            "Cl{1-}", "Gd", "C[13]", "N[15]", "O[18]", "T"]
    k = rng.randint(1, 6)
    atoms = []
    for nm in rng.sample(pool, k):
        atoms.append([nm, rng.choice([1, 2, 3, 4, 6, 10, 27, 0.5, 1.5])])
    r = rng.random()
    if r < 0.75:
        atoms.insert(rng.randint(0, len(atoms)), ["H[1]", rng.choice([1, 2, 3, 4, 8, 0.5, 2.5, 20])])
    case = {"kind": "compound", "atoms": atoms, "density": round(rng.uniform(0.3, 4.0), 4),
            "as": rng.choice(["string", "formula"])}
    if rng.random() < 0.3:
        case["wavelength"] = round(c03.log_uniform(rng, 0.3, 20.0), 5)
    return case


def run_case(G, R, case):
    try:
        if case["kind"] == "compound":
            check_compound(G, R, case)
        else:
            check_molecule(G, R, case)
    except Exception as e:
        G.violation(("harness_exception", type(e).__name__), "sample:exception:%s" % (
            compound_id(case["atoms"], case["density"]) if "atoms" in case else
            "%s:%s" % (case.get("table", case.get("type")), case.get("code", case.get("seq")))),
            "the code under test raised %s" % type(e).__name__, case, "%s: %s" % (type(e).__name__, e))


def task_sample(tier, seed, arg):
    n = 100 if tier == "quick" else 3000
    rng = random.Random(seed)
    R = Result("%d hand-written compounds with 0..n labile hydrogens (H[1]), some containing D, ions or Gd, with known "
               "density (passed as 'formula@density' strings) + %d seeded random ones (string or Formula object, 30%% "
               "with an explicit wavelength=); per compound D2O fractions %s: volume fraction 1 vs the direct "
               "calculation (H[1] -> d*n D + (1-d)*n H at unchanged cell volume, documented equations), volume fraction "
               "0 vs the H2O/D2O mixture, volume fractions %s vs linearity and vs the direct mixture; match point: equal "
               "real SLD at volume fractions 0, 0.3, 1, reported SLD, and value vs the direct solution; every Molecule "
               "of every fasta table and %d Sequences: D2Omatch vs 100*D2O_match(labile_formula), D2Osld on the grid vs "
               "D2O_sld, sld/Dsld vs D2O_sld at d=0/1 and vs the direct calculation.  %s.  Bounded sample; distinct = "
               "compounds and molecules" % (len(HAND), n, D_GRID, VF_GRID[1:-1] + [0.77], len(SEQUENCES), RULE_TOL))
    G = Grouped(R, per=3)
    for atoms, rho in HAND:
        case = {"kind": "compound", "atoms": atoms, "density": rho, "as": "string"}
        run_case(G, R, case)
        R.distinct.add(compound_id(atoms, rho))
        if len(R.samples) < 2:
            R.sample(case)
    for i in range(n):
        case = random_compound(rng)
        run_case(G, R, case)
        R.distinct.add(compound_id(case["atoms"], case["density"]))
        if i < 2:
            R.sample(case)
    for tn, k, m in fasta_molecules():
        case = {"kind": "fasta", "table": tn, "code": k}
        run_case(G, R, case)
        R.distinct.add((tn, k))
    for tp, seq in SEQUENCES:
        case = {"kind": "sequence", "type": tp, "seq": seq}
        run_case(G, R, case)
        R.distinct.add((tp, seq))
    R.sample({"fasta_tables": sorted(set(t for t, _, _ in fasta_molecules())),
              "molecules": len(fasta_molecules()), "sequences": len(SEQUENCES)})
    return G.done()


def task_replay(tier, seed, arg):
    arg = arg or {}
    case = arg.get("input")
    if isinstance(case, dict) and "kind" in case:
        R = Result("replay of one recorded compound/molecule (all checks of that case); " + RULE_TOL)
        G = Grouped(R, per=60)
        run_case(G, R, {k: v for k, v in case.items() if k not in ("d", "vf")})
        return G.done()
    return task_sample("quick", seed, None)
