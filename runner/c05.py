"""C05 native checks: x-ray scattering factors (Henke tables), x-ray SLD, index of refraction,
mirror reflectivity and the Waasmaier-Kirfel analytic form factor f0.

Oracles are independent of the code under test:

* the .nff tables are re-read here (skip header line, three float columns E(eV) f1 f2, f1 == -9999
  means "no value" -> NaN), node energies in keV are E_eV/1000 (correctly rounded);
* linear interpolation is f_i + (f_{i+1}-f_i)*(E-E_i)/(E_{i+1}-E_i), written here;
* constants are read from the source text of periodictable/constants.py with ``ast``;
* the DABAX file f0_WaasKirf.dat is parsed here (#S blocks, 11 floats a1..a5 c b1..b5);
* atomic numbers come from the symbol list embedded below.

Every check is a function ``CHECKS[kind](acc, inp)`` over a JSON-able ``inp``; tasks only enumerate
inputs, and ``task_replay`` re-runs one input through the same function.
"""
import ast
import bisect
import math
import os
import random
import re
import sys
import time

import numpy as np

REPO = os.environ.get("VERIF_REPO", "/repo")
XSF_DIR = os.path.join(REPO, "periodictable", "xsf")
F0_FILE = os.path.join(XSF_DIR, "f0_WaasKirf.dat")
CONSTANTS_PY = os.path.join(REPO, "periodictable", "constants.py")

SYMBOLS = ("n H He Li Be B C N O F Ne Na Mg Al Si P S Cl Ar K Ca Sc Ti V Cr Mn Fe Co Ni Cu Zn Ga Ge "
           "As Se Br Kr Rb Sr Y Zr Nb Mo Tc Ru Rh Pd Ag Cd In Sn Sb Te I Xe Cs Ba La Ce Pr Nd Pm Sm "
           "Eu Gd Tb Dy Ho Er Tm Yb Lu Hf Ta W Re Os Ir Pt Au Hg Tl Pb Bi Po At Rn Fr Ra Ac Th Pa U "
           "Np Pu Am Cm Bk Cf Es Fm Md No Lr Rf Db Sg Bh Hs Mt Ds Rg Cn Nh Fl Mc Lv Ts Og").split()
Z_OF = {s: z for z, s in enumerate(SYMBOLS)}

REL = 1e-12          # table / f0 comparisons
REL_SLD = 1e-10      # SLD-level comparisons
MAX_VIOL = 60
FAMILY_CAP = 10


# ----------------------------------------------------------------------------------------------
# independent readers
# ----------------------------------------------------------------------------------------------
_CONST = None


def constants():
    """Literal constants from the source text of constants.py."""
    global _CONST
    if _CONST is None:
        out = {}
        with open(CONSTANTS_PY) as f:
            tree = ast.parse(f.read())
        for node in tree.body:
            if isinstance(node, ast.Assign) and len(node.targets) == 1 \
                    and isinstance(node.targets[0], ast.Name):
                try:
                    out[node.targets[0].id] = ast.literal_eval(node.value)
                except Exception:
                    pass
        _CONST = out
    return _CONST


def hc_keV_ang():
    """h[eV s]*c[m/s] = hc in eV m;  lambda[Ang] = hc*1e10/(E[keV]*1e3) = hc*1e7/E."""
    c = constants()
    return c["plancks_constant"] * c["speed_of_light"] * 1e7


class Table(object):
    __slots__ = ("sym", "ev", "kev", "f1", "f2", "nrows")

    def __init__(self, sym, ev, f1, f2):
        self.sym = sym
        self.ev = ev
        self.kev = [e / 1000 for e in ev]
        self.f1 = f1
        self.f2 = f2
        self.nrows = len(ev)


_TABLES = None


def read_nff(path):
    ev, f1, f2 = [], [], []
    with open(path) as f:
        f.readline()  # header "E(eV) f1 f2"
        for line in f:
            w = line.split()
            if not w:
                continue
            if len(w) != 3:
                raise ValueError("%s: expected three columns, got %r" % (path, line))
            e, a, b = float(w[0]), float(w[1]), float(w[2])
            ev.append(e)
            f1.append(float("nan") if a == -9999.0 else a)
            f2.append(b)
    return ev, f1, f2


def tables():
    """{file stem (lower-case symbol): Table}, for every .nff file."""
    global _TABLES
    if _TABLES is None:
        out = {}
        for fn in sorted(os.listdir(XSF_DIR)):
            if fn.endswith(".nff"):
                stem = fn[:-4]
                out[stem] = Table(stem, *read_nff(os.path.join(XSF_DIR, fn)))
        _TABLES = out
    return _TABLES


def file_symbol(stem):
    """Proper-case element symbol of a file stem ('fe' -> 'Fe'); never the neutron 'n'."""
    s = stem[0].upper() + stem[1:]
    if s not in Z_OF or s == "n":
        raise ValueError("file stem %r is not an element symbol" % stem)
    return s


def ulp(x):
    return math.ulp(abs(x)) if x == x and not math.isinf(x) else 0.0


def expected_sf(tab, E):
    """Independent linear interpolation in ENERGY (keV).

    Returns (f1, f2, s1, s2): values (NaN outside [first, last] node, f1 NaN where a bracketing node
    has no f1) and the largest |df/dE| of the intervals adjacent to E (conditioning of the value
    with respect to a rounding error in E)."""
    nan = float("nan")
    k = tab.kev
    n = tab.nrows
    if not (E == E) or E < k[0] or E > k[n - 1]:
        return nan, nan, 0.0, 0.0
    j = bisect.bisect_right(k, E) - 1
    if j < 0:
        j = 0

    def slope(a, i):
        if i < 0 or i + 1 >= n:
            return 0.0
        de = k[i + 1] - k[i]
        d = a[i + 1] - a[i]
        if de == 0 or d != d:
            return 0.0
        return abs(d / de)
    if E == k[j]:
        s1 = max(slope(tab.f1, j - 1), slope(tab.f1, j))
        s2 = max(slope(tab.f2, j - 1), slope(tab.f2, j))
        return tab.f1[j], tab.f2[j], s1, s2
    if j >= n - 1:
        return tab.f1[n - 1], tab.f2[n - 1], slope(tab.f1, n - 2), slope(tab.f2, n - 2)
    t = (E - k[j]) / (k[j + 1] - k[j])
    v1 = tab.f1[j] + (tab.f1[j + 1] - tab.f1[j]) * t
    v2 = tab.f2[j] + (tab.f2[j + 1] - tab.f2[j]) * t
    s1 = max(slope(tab.f1, j - 1), slope(tab.f1, j), slope(tab.f1, j + 1))
    s2 = max(slope(tab.f2, j - 1), slope(tab.f2, j), slope(tab.f2, j + 1))
    return v1, v2, s1, s2


def bracket_scale(tab, col, E):
    """max |value| of the nodes bracketing E (scale of the relative tolerance)."""
    k = tab.kev
    j = min(max(bisect.bisect_right(k, E) - 1, 0), tab.nrows - 1)
    a = col[j]
    b = col[min(j + 1, tab.nrows - 1)]
    vals = [abs(x) for x in (a, b) if x == x]
    return max(vals) if vals else 0.0


def first_valid_f1_kev(tab):
    """Smallest node energy from which on every node has an f1 value."""
    last_nan = -1
    for i, v in enumerate(tab.f1):
        if v != v:
            last_nan = i
    return tab.kev[min(last_nan + 1, tab.nrows - 1)]


_F0 = None


def read_f0():
    """[(symbol, a[5], b[5], c)] from the DABAX file, in file order."""
    global _F0
    if _F0 is None:
        out = []
        sym = None
        with open(F0_FILE) as f:
            for line in f:
                if line.startswith("#S"):
                    sym = line.split()[2]
                    continue
                if line.startswith("#") or not line.strip():
                    continue
                if sym is None:
                    continue
                w = [float(x) for x in line.split()]
                if len(w) != 11:
                    raise ValueError("f0 entry %s: %d numbers" % (sym, len(w)))
                out.append((sym, w[0:5], w[6:11], w[5]))
                sym = None
        _F0 = out
    return _F0


_F0_NAME = re.compile(r"^([A-Z][a-z]?)(?:(\d+)([+-]))?$")


def parse_f0_name(name):
    """'Fe2+' -> ('Fe', 2); 'O1-' -> ('O', -1); 'Fe' -> ('Fe', 0); 'Cval' -> None."""
    m = _F0_NAME.match(name)
    if not m or m.group(1) not in Z_OF:
        return None
    q = 0
    if m.group(2):
        q = int(m.group(2)) * (1 if m.group(3) == "+" else -1)
    return m.group(1), q


def f0_expected(a, b, c, Q):
    s = Q / (4 * math.pi)
    return math.fsum([ai * math.exp(-bi * s * s) for ai, bi in zip(a, b)] + [c])


# ----------------------------------------------------------------------------------------------
# bookkeeping
# ----------------------------------------------------------------------------------------------
def _j(x):
    """JSON-able copy (NaN/inf as strings, numpy as python)."""
    if x is None or isinstance(x, (str, bool, int)):
        return x
    if isinstance(x, (np.bool_,)):
        return bool(x)
    if isinstance(x, (np.integer,)):
        return int(x)
    if isinstance(x, (float, np.floating)):
        x = float(x)
        return x if math.isfinite(x) else repr(x)
    if isinstance(x, (complex, np.complexfloating)):
        return [_j(x.real), _j(x.imag)]
    if isinstance(x, np.ndarray):
        return _j(x.tolist())
    if isinstance(x, dict):
        return {str(k): _j(v) for k, v in x.items()}
    if isinstance(x, (list, tuple)):
        return [_j(v) for v in x]
    return repr(x)


class Acc(object):
    def __init__(self, task):
        self.task = task
        self.n = 0
        self.ids = set()
        self.violations = []
        self.total_viol = 0
        self.family = {}
        self.samples = []
        self.notes = []
        self.note_counts = {}

    def ev(self, cid, n=1):
        self.n += n
        self.ids.add(cid)

    def sample(self, s):
        if len(self.samples) < 5:
            self.samples.append(_j(s))

    def bad(self, what_id, input_id, what, inp, observed, expected):
        fam = "%s:%s" % (self.task, what_id)
        self.total_viol += 1
        self.family[fam] = self.family.get(fam, 0) + 1
        if self.family[fam] > FAMILY_CAP:
            return
        self.violations.append({"key": "%s:%s" % (fam, input_id), "what": what, "input": _j(inp),
                                "observed": _j(observed), "expected": _j(expected)})

    def note(self, s):
        if s not in self.notes:
            self.notes.append(s)

    def count_note(self, name, example=None):
        c = self.note_counts.setdefault(name, [0, example])
        c[0] += 1

    def result(self, rule, exhaustive):
        notes = list(self.notes)
        for name, (cnt, ex) in sorted(self.note_counts.items()):
            notes.append("%s: %d case(s)%s" % (name, cnt, ("; e.g. %s" % (ex,)) if ex else ""))
        # at most MAX_VIOL entries, every failing family represented, stable order
        cap = FAMILY_CAP
        while len(self.violations) > MAX_VIOL and cap > 1:
            cap -= 1
            seen, kept = {}, []
            for v in self.violations:
                fam = ":".join(v["key"].split(":")[:2])
                seen[fam] = seen.get(fam, 0) + 1
                if seen[fam] <= cap:
                    kept.append(v)
            self.violations = kept
        self.violations = self.violations[:MAX_VIOL]
        listed = {}
        for v in self.violations:
            fam = ":".join(v["key"].split(":")[:2])
            listed[fam] = listed.get(fam, 0) + 1
        for fam in sorted(self.family):
            if self.family[fam] != listed.get(fam, 0):
                notes.append("violation family %s: %d failing cases in total, %d listed"
                             % (fam, self.family[fam], listed.get(fam, 0)))
        return {"task": self.task, "evaluations": self.n, "distinct": len(self.ids), "rule": rule,
                "exhaustive": bool(exhaustive), "samples": self.samples,
                "violations": self.violations, "notes": notes}


def same(obs, exp, scale=None, rel=REL, extra=0.0):
    """NaN-aware closeness: |obs-exp| <= rel*scale + extra; NaN only matches NaN."""
    try:
        o = float(obs)
        e = float(exp)
    except Exception:
        return False
    if e != e or o != o:
        return e != e and o != o
    if math.isinf(e) or math.isinf(o):
        return o == e
    if scale is None:
        scale = max(abs(e), abs(o))
    return abs(o - e) <= rel * scale + extra


def is_scalar_out(v):
    return np.ndim(v) == 0 and not isinstance(v, np.ndarray)


def exc_str(e):
    return "%s: %s" % (type(e).__name__, str(e)[:200])


def pt():
    import periodictable
    return periodictable


def element_of(sym):
    return pt().elements.symbol(sym)


def atom_of(sym, iso=None, charge=0):
    el = element_of(sym)
    if sym in ("D", "T") and iso is None:
        return el.ion[charge] if charge else el
    if iso:
        el = el[iso]
    if charge:
        el = el.ion[charge]
    return el


# ----------------------------------------------------------------------------------------------
# tables: checks
# ----------------------------------------------------------------------------------------------
def sf_tol(tab, E, s1, s2):
    e = 4 * ulp(E)
    return (REL * bracket_scale(tab, tab.f1, E) + e * s1,
            REL * bracket_scale(tab, tab.f2, E) + e * s2)


def compare_sf(acc, what_id, input_id, what, inp, tab, E, got, fuzzy_e=False):
    """Compare a scalar (f1, f2) result with the independent interpolation at E; True if ok.

    fuzzy_e: E was itself computed (hc/lambda), so it is only defined to a few ulp; the observed pair
    may then match the oracle at E-4ulp or E+4ulp instead (matters only next to the NaN/non-NaN
    discontinuities of the table: range ends and the first node with an f1 value)."""
    e1, e2, s1, s2 = expected_sf(tab, E)
    t1, t2 = sf_tol(tab, E, s1, s2)
    try:
        g1, g2 = got
        ok = same(g1, e1, scale=0.0, rel=0.0, extra=t1) and same(g2, e2, scale=0.0, rel=0.0, extra=t2)
        if not ok and fuzzy_e:
            for Ex in (E - 4 * ulp(E), E + 4 * ulp(E)):
                x1, x2, _, _ = expected_sf(tab, Ex)
                if same(g1, x1, scale=0.0, rel=0.0, extra=t1) and same(g2, x2, scale=0.0, rel=0.0, extra=t2):
                    ok = True
    except Exception:
        ok = False
    if not ok:
        acc.bad(what_id, input_id, what, inp, {"f1": _j(got[0]) if got else None,
                                               "f2": _j(got[1]) if got else None, "E_keV": E},
                {"f1": e1, "f2": e2, "abs_tol": [t1, t2]})
    return ok


def chk_monotone(acc, inp):
    stem = inp["file"]
    tab = tables()[stem]
    acc.ev("monotone:%s" % stem)
    ok = True
    for i in range(tab.nrows - 1):
        if not tab.ev[i + 1] > tab.ev[i]:
            ok = False
            acc.bad("monotone", "%s:%d" % (stem, i),
                    "tabulated energies of %s.nff are not strictly increasing at rows %d,%d "
                    "(linear interpolation in energy is undefined there)" % (stem, i, i + 1),
                    inp, {"E_eV": [tab.ev[i], tab.ev[i + 1]]}, "E[i+1] > E[i]")
            acc.note("%s.nff rows %d,%d are out of order (%r eV then %r eV): other violations of this "
                     "element between those energies derive from it; the oracle there interpolates "
                     "between consecutive file rows" % (stem, i, i + 1, tab.ev[i], tab.ev[i + 1]))
    return ok


def chk_node(acc, inp):
    """Scalar call at node i (or nodes i0..i1-1) of a file: exactly the tabulated (f1, f2)."""
    stem = inp["file"]
    tab = tables()[stem]
    el = element_of(file_symbol(stem))
    idx = [inp["i"]] if "i" in inp else range(inp.get("i0", 0), inp.get("i1", tab.nrows))
    for i in idx:
        E = tab.kev[i]
        acc.ev("node:%s:%d" % (stem, i))
        try:
            got = el.xray.scattering_factors(energy=E)
        except Exception as e:
            acc.bad("node", "%s:%d" % (stem, i), "scattering_factors(energy=node) raised",
                    {"kind": "node", "file": stem, "i": i}, exc_str(e), "tabulated values")
            continue
        e1, e2 = tab.f1[i], tab.f2[i]
        _, _, s1, s2 = expected_sf(tab, E)
        t1, t2 = 4 * ulp(E) * s1, 4 * ulp(E) * s2
        ok = (got is not None and len(got) == 2 and got[0] is not None
              and same(got[0], e1, rel=REL, extra=t1) and same(got[1], e2, rel=REL, extra=t2)
              and is_scalar_out(got[0]) and is_scalar_out(got[1]))
        if not ok:
            acc.bad("node", "%s:%d" % (stem, i),
                    "%s.xray.scattering_factors(energy=%r keV) [node %d = %r eV of %s.nff] is not the "
                    "tabulated (f1, f2) (f1 NaN where the file has -9999) as a scalar pair; node energy "
                    "in keV: %r/1000 = %r (used here), %r*0.001 = %r"
                    % (file_symbol(stem), E, i, tab.ev[i], stem, tab.ev[i], tab.ev[i] / 1000, tab.ev[i],
                       tab.ev[i] * 0.001),
                    {"kind": "node", "file": stem, "i": i}, {"f1": got[0], "f2": got[1]} if got else got,
                    {"f1": e1, "f2": e2, "abs_tol_extra": [t1, t2]})
        if i == idx[0]:
            acc.sample({"check": "node", "file": stem, "i": i, "E_keV": E, "observed": got,
                        "tabulated": [e1, e2]})


def chk_interp(acc, inp):
    """Points inside interval (i, i+1): E = E_i + t*(E_{i+1}-E_i)."""
    stem = inp["file"]
    tab = tables()[stem]
    el = element_of(file_symbol(stem))
    ts = inp["t"] if isinstance(inp["t"], list) else [inp["t"]]
    idx = [inp["i"]] if "i" in inp else range(0, tab.nrows - 1)
    for i in idx:
        for t in ts:
            E = tab.kev[i] + t * (tab.kev[i + 1] - tab.kev[i])
            acc.ev("interp:%s:%d:%r" % (stem, i, t))
            one = {"kind": "interp", "file": stem, "i": i, "t": t}
            try:
                got = el.xray.scattering_factors(energy=E)
            except Exception as e:
                acc.bad("interp", "%s:%d:%r" % (stem, i, t), "scattering_factors raised", one,
                        exc_str(e), "interpolated values")
                continue
            compare_sf(acc, "interp", "%s:%d:%r" % (stem, i, t),
                       "%s f1/f2 at E=%r keV (fraction %r of the way from node %d (%r eV: f1=%r f2=%r) to "
                       "node %d (%r eV: f1=%r f2=%r)) is not the linear interpolation in energy"
                       % (file_symbol(stem), E, t, i, tab.ev[i], tab.f1[i], tab.f2[i], i + 1,
                          tab.ev[i + 1], tab.f1[i + 1], tab.f2[i + 1]), one, tab, E, got)


def chk_outside(acc, inp):
    """E outside [first node, last node]: (NaN, NaN) scalar, vector and via wavelength=."""
    stem, E = inp["file"], inp["E"]
    tab = tables()[stem]
    el = element_of(file_symbol(stem))
    if tab.kev[0] <= E <= tab.kev[-1]:
        raise ValueError("E inside the table")
    iid = "%s:%r" % (stem, E)

    def isnan(v):
        try:
            return bool(np.all(np.isnan(np.asarray(v, dtype=float))))
        except Exception:
            return False
    calls = [("scalar", dict(energy=E)), ("vector", dict(energy=np.array([E, E])))]
    if E > 0:
        lam = hc_keV_ang() / E
        # the round trip hc/(hc/E) may move E by an ulp; only use it when that cannot re-enter
        back = hc_keV_ang() / lam
        if not (tab.kev[0] <= back <= tab.kev[-1]):
            calls += [("wavelength", dict(wavelength=lam)),
                      ("wavelength-vector", dict(wavelength=np.array([lam, lam])))]
    for name, kw in calls:
        acc.ev("outside:%s:%s" % (iid, name))
        try:
            f1, f2 = el.xray.scattering_factors(**kw)
            ok = isnan(f1) and isnan(f2)
            if name.endswith("vector"):
                ok = ok and np.shape(f1) == (2,) and np.shape(f2) == (2,)
            else:
                ok = ok and is_scalar_out(f1) and is_scalar_out(f2)
            obs = {"f1": f1, "f2": f2}
        except Exception as e:
            ok, obs = False, exc_str(e)
        if not ok:
            acc.bad("outside", "%s:%s" % (iid, name),
                    "%s f1/f2 at E=%r keV (%s call), outside the tabulated range [%r, %r] keV, is not "
                    "(NaN, NaN)" % (file_symbol(stem), E, name, tab.kev[0], tab.kev[-1]),
                    inp, obs, {"f1": "nan", "f2": "nan"})


def chk_wavelength(acc, inp):
    """wavelength=hc/E gives the interpolation at E (hc from constants.py)."""
    stem, E = inp["file"], inp["E"]
    tab = tables()[stem]
    el = element_of(file_symbol(stem))
    hc = hc_keV_ang()
    lam = hc / E
    Eb = hc / lam
    acc.ev("wavelength:%s:%r" % (stem, E))
    try:
        got = el.xray.scattering_factors(wavelength=lam)
        got_e = el.xray.scattering_factors(energy=E)
    except Exception as e:
        acc.bad("wavelength", "%s:%r" % (stem, E), "scattering_factors(wavelength=) raised", inp,
                exc_str(e), "values")
        return
    ok = compare_sf(acc, "wavelength", "%s:%r" % (stem, E),
                    "%s scattering_factors(wavelength=%r Ang) with lambda = h*c*1e7/E = %r*%r*1e7/%r is "
                    "not the interpolation at E=%r keV" % (file_symbol(stem), lam,
                                                          constants()["plancks_constant"],
                                                          constants()["speed_of_light"], E, Eb),
                    inp, tab, Eb, got, fuzzy_e=True)
    if ok:
        # and agrees with the energy= call (NaN-ness may differ only where the fuzzy match applied)
        _, _, s1, s2 = expected_sf(tab, E)
        t1, t2 = sf_tol(tab, E, s1, s2)
        nanflip = (got[0] != got[0]) != (got_e[0] != got_e[0])
        if not nanflip and not (same(got[0], got_e[0], scale=0, rel=0, extra=2 * t1)
                                and same(got[1], got_e[1], scale=0, rel=0, extra=2 * t2)):
            acc.bad("wavelength_vs_energy", "%s:%r" % (stem, E),
                    "energy=%r and wavelength=%r disagree" % (E, lam), inp, got, got_e)
    acc.sample({"check": "wavelength", "file": stem, "E_keV": E, "lambda_Ang": lam, "observed": got})


def _vector_energies(tab, sel):
    if sel == "nodes":
        return list(tab.kev)
    if sel == "mids":
        return [(tab.kev[i] + tab.kev[i + 1]) / 2 for i in range(tab.nrows - 1)]
    if sel == "mixed":
        k = tab.kev
        return [k[0] * 0.5, k[0], (k[0] + k[1]) / 2, k[tab.nrows // 2], k[-1], k[-1] * 1.5, 1e-9, 1e6]
    if sel == "mixed_desc":
        return list(reversed(_vector_energies(tab, "mixed")))
    if sel == "mixed_inner":
        # in-range first and last entries, the out-of-range ones in between, not sorted
        k = tab.kev
        return [k[tab.nrows // 2], 1e6, k[0], k[0] * 0.5, (k[0] + k[1]) / 2, k[-1] * 1.5, 1e-9, k[-1], k[1]]
    raise ValueError(sel)


def chk_vector(acc, inp):
    """Vector in -> vector out whose i-th entry equals the scalar call (ndarray, list; energy and
    wavelength)."""
    stem, sel = inp["file"], inp["sel"]
    tab = tables()[stem]
    el = element_of(file_symbol(stem))
    Es = _vector_energies(tab, sel)
    hc = hc_keV_ang()
    forms = [("energy-ndarray", dict(energy=np.array(Es)), Es),
             ("energy-list", dict(energy=list(Es)), Es)]
    lams = [hc / e for e in Es]
    forms.append(("wavelength-ndarray", dict(wavelength=np.array(lams)), None))
    for name, kw, _ in forms:
        acc.ev("vector:%s:%s:%s" % (stem, sel, name), n=len(Es))
        try:
            v1, v2 = el.xray.scattering_factors(**kw)
            shape_ok = (isinstance(v1, np.ndarray) and isinstance(v2, np.ndarray)
                        and v1.shape == (len(Es),) and v2.shape == (len(Es),))
        except Exception as e:
            acc.bad("vector", "%s:%s:%s" % (stem, sel, name), "vector call raised", inp, exc_str(e),
                    "vector of scalar results")
            continue
        if not shape_ok:
            acc.bad("vector", "%s:%s:%s:shape" % (stem, sel, name),
                    "vector input of length %d does not give two vectors of that length" % len(Es),
                    inp, {"type": type(v1).__name__, "shape": np.shape(v1)}, [len(Es)])
            continue
        nbad = 0
        for i in range(len(Es)):
            if name.startswith("wavelength"):
                s1, s2 = el.xray.scattering_factors(wavelength=lams[i])
            else:
                s1, s2 = el.xray.scattering_factors(energy=Es[i])
            if not (same(v1[i], s1, rel=0.0) and same(v2[i], s2, rel=0.0)):
                nbad += 1
                if nbad <= 2:
                    acc.bad("vector", "%s:%s:%s:%d" % (stem, sel, name, i),
                            "entry %d of the vector result (%s) differs from the scalar call at the "
                            "same argument %r" % (i, name, lams[i] if name[0] == "w" else Es[i]),
                            inp, [v1[i], v2[i]], [s1, s2])


def chk_nofile(acc, inp):
    sym = inp["symbol"]
    acc.ev("nofile:%s" % sym)
    el = element_of(sym) if sym != "n" else pt().elements[0]
    obs = []
    ok = True
    for kw in (dict(energy=1.0), dict(wavelength=1.54), dict(energy=np.array([1.0, 2.0]))):
        try:
            r = el.xray.scattering_factors(**kw)
            obs.append(_j(r))
            ok = ok and isinstance(r, tuple) and len(r) == 2 and r[0] is None and r[1] is None
        except Exception as e:
            obs.append(exc_str(e))
            ok = False
    if not ok:
        acc.bad("nofile", sym, "element %s has no .nff file but scattering_factors does not return "
                "(None, None)" % sym, inp, obs, [None, None])


def chk_ion(acc, inp):
    """Ions / isotopes / isotope ions of a tabulated element use the element's table."""
    sym, iso, q, E = inp["symbol"], inp.get("iso"), inp.get("charge", 0), inp["E"]
    iid = "%s:%s:%s:%r" % (sym, iso, q, E)
    acc.ev("ion:" + iid)
    try:
        atom = atom_of(sym, iso, q)
        z = atom.number
        tab = tables()[SYMBOLS[z].lower()]
        got = atom.xray.scattering_factors(energy=E)
    except Exception as e:
        acc.bad("ion", iid, "scattering_factors of %s (isotope %s, charge %s) raised" % (sym, iso, q),
                inp, exc_str(e), "the element's table values")
        return
    if got is None or got[0] is None:
        acc.bad("ion", iid,
                "atom %s (isotope %s, charge %+d) of tabulated element %s has no scattering factors "
                "(returns %r) although %s.nff exists" % (sym, iso, q, SYMBOLS[z], got, SYMBOLS[z].lower()),
                inp, got, list(expected_sf(tab, E)[:2]))
        return
    compare_sf(acc, "ion", iid, "f1/f2 of %s (isotope %s, charge %+d) at %r keV differ from the "
               "interpolated table of %s" % (sym, iso, q, E, SYMBOLS[z]), inp, tab, E, got)


def chk_convert(acc, inp):
    E = inp["E"]
    from periodictable import xsf
    acc.ev("convert:%r" % E)
    hc = hc_keV_ang()
    try:
        lam = xsf.xray_wavelength(E)
        back = xsf.xray_energy(hc / E)
        ok = same(lam, hc / E) and same(back, E)
        v = xsf.xray_wavelength(np.array([E, 2 * E]))
        ok = ok and np.shape(v) == (2,) and same(v[0], hc / E) and same(v[1], hc / (2 * E))
        obs = [lam, back]
    except Exception as e:
        ok, obs = False, exc_str(e)
    if not ok:
        acc.bad("convert", repr(E), "xray_wavelength(E) != h*c/E*1e7 (h=%r eV s, c=%r m/s -> %r Ang) or "
                "xray_energy not its inverse" % (constants()["plancks_constant"],
                                                 constants()["speed_of_light"], hc / E),
                inp, obs, [hc / E, E])


# ----------------------------------------------------------------------------------------------
# tables: task
# ----------------------------------------------------------------------------------------------
def edge_indices(tab):
    """Intervals (i, i+1) that look like absorption edges: narrow (< 0.5 eV) or with a jump of
    f2 by more than a factor 1.5."""
    out = []
    for i in range(tab.nrows - 1):
        de = tab.ev[i + 1] - tab.ev[i]
        a, b = tab.f2[i], tab.f2[i + 1]
        if de < 0.5 or (a > 0 and b > 0 and (b / a > 1.5 or a / b > 1.5)):
            out.append(i)
    return out


def task_tables(tier, seed, arg):
    acc = Acc("tables")
    rng = random.Random(seed)
    tabs = tables()
    t0 = time.time()
    nrand = 1 if tier == "quick" else 6
    nedges = 0
    for stem in sorted(tabs):
        tab = tabs[stem]
        chk_monotone(acc, {"kind": "monotone", "file": stem})
        chk_node(acc, {"kind": "node", "file": stem, "i0": 0, "i1": tab.nrows})
        ts = [0.5] + [round(rng.uniform(0.001, 0.999), 6) for _ in range(nrand)] + [1e-9, 1 - 1e-9]
        chk_interp(acc, {"kind": "interp", "file": stem, "t": ts})
        edges = edge_indices(tab)
        nedges += len(edges)
        lo, hi = tab.kev[0], tab.kev[-1]
        for E in (lo * 0.999, hi * 1.001, lo * (1 - 1e-12), hi * (1 + 1e-12), lo / 10, hi * 10,
                  1e-6, 1e3, 0.0, -1.0):
            chk_outside(acc, {"kind": "outside", "file": stem, "E": E})
        # wavelength= : interior nodes, edge neighbourhoods, midpoints, random points
        cand = set()
        for i in edges:
            for jj in (i, i + 1):
                if 0 < jj < tab.nrows - 1:
                    cand.add(tab.kev[jj])
            cand.add((tab.kev[i] + tab.kev[i + 1]) / 2)
        step = 1 if tier != "quick" else 7
        for i in range(1, tab.nrows - 1, step):
            cand.add(tab.kev[i])
            cand.add((tab.kev[i] + tab.kev[i + 1]) / 2)
        for _ in range(20):
            cand.add(math.exp(rng.uniform(math.log(lo * 1.001), math.log(hi * 0.999))))
        for E in sorted(cand):
            chk_wavelength(acc, {"kind": "wavelength", "file": stem, "E": E})
        for sel in ("nodes", "mids", "mixed", "mixed_desc", "mixed_inner"):
            chk_vector(acc, {"kind": "vector", "file": stem, "sel": sel})
        # ions / isotopes of the element
        el = element_of(file_symbol(stem))
        e_in = [tab.kev[tab.nrows // 3], (tab.kev[-3] + tab.kev[-2]) / 2]
        for q in el.ions:
            for E in e_in:
                chk_ion(acc, {"kind": "ion", "symbol": el.symbol, "iso": None, "charge": q, "E": E})
        isos = el.isotopes
        pick = isos if tier != "quick" else rng.sample(isos, min(3, len(isos)))
        for iso in pick:
            chk_ion(acc, {"kind": "ion", "symbol": el.symbol, "iso": iso, "charge": 0, "E": e_in[0]})
            if el.ions:
                chk_ion(acc, {"kind": "ion", "symbol": el.symbol, "iso": iso,
                              "charge": rng.choice(el.ions), "E": e_in[1]})
    # D and T are hydrogen
    htab = tabs["h"]
    for sym in ("D", "T"):
        for q in (0, 1, -1):
            chk_ion(acc, {"kind": "ion", "symbol": sym, "iso": None, "charge": q,
                          "E": htab.kev[htab.nrows // 3]})
    have = set(file_symbol(s) for s in tabs)
    nofile = [el.symbol for el in pt().elements if el.symbol not in have]
    for sym in nofile:
        chk_nofile(acc, {"kind": "nofile", "symbol": sym})
    for E in (0.01, 0.03, 1.0, 8.047, 12.3984, 30.0, 100.0):
        chk_convert(acc, {"kind": "convert", "E": E})
    acc.note("%d .nff files, %d nodes in total, %d edge-like intervals; elements without a file: %s"
             % (len(tabs), sum(t.nrows for t in tabs.values()), nedges, " ".join(nofile)))
    acc.note("runtime %.1f s" % (time.time() - t0))
    rule = ("Exhaustive over the %d .nff files: every node of every file (scalar energy=E_eV/1000 keV; "
            "exact tabulated pair, f1 NaN where the file has -9999), strict monotonicity of every file, "
            "every interval (i,i+1) of every file at t=0.5, 1e-9, 1-1e-9 and %d seeded t in (0,1) "
            "(absorption-edge intervals included), 10 out-of-range energies per file (0.999*E0, "
            "1.001*E_last, 1 ulp-scale outside, x10, far, 0, negative; scalar, vector, wavelength=), "
            "wavelength=h*c*1e7/E for edge nodes/midpoints, every %s interior node and midpoint and 20 "
            "seeded energies per file, vector-vs-scalar (ndarray/list/wavelength) over all nodes, all "
            "midpoints and mixed in/out vectors (ascending, descending, unsorted with in-range ends), every ion charge of every tabulated element at 2 "
            "energies, %s isotopes (+ one isotope ion each), D/T and their ions, every element without a "
            "file -> (None, None), xray_wavelength/xray_energy at 7 energies.  Tolerance: |obs-exp| <= "
            "1e-12*max|bracketing node values| + 4 ulp(E)*max|df/dE| of the adjacent intervals (the keV "
            "value of a node is only defined up to the rounding of eV->keV and hc/lambda; for wavelength= "
            "calls the oracle may also be matched at E-4ulp/E+4ulp, which only matters at NaN boundaries); vector "
            "entries must equal the scalar call bit for bit.  distinct = distinct (check, file, "
            "argument) tuples; none is trivial."
            % (len(tabs), nrand, "7th" if tier == "quick" else "", "3 seeded" if tier == "quick" else "all"))
    return acc.result(rule, exhaustive=True)


# ----------------------------------------------------------------------------------------------
# sld: checks
# ----------------------------------------------------------------------------------------------
def build_compound(spec):
    """spec = {"atoms": [[sym, iso, charge, count], ...]} or {"str": "H2O"} -> compound argument."""
    if "str" in spec:
        return spec["str"]
    out = {}
    for sym, iso, q, cnt in spec["atoms"]:
        a = atom_of(sym, iso, q)
        out[a] = out.get(a, 0) + cnt
    return out


def spec_id(spec):
    if "str" in spec:
        return "str=" + spec["str"]
    return ",".join("%s%s%s*%r" % (("%d-" % iso) if iso else "", sym, ("%+d" % q) if q else "", cnt)
                    for sym, iso, q, cnt in spec["atoms"])


def natural_spec(spec):
    """Same compound with isotopes replaced by the natural element (charges kept)."""
    if "str" in spec:
        return None
    out = []
    for sym, iso, q, cnt in spec["atoms"]:
        if sym in ("D", "T"):
            sym = "H"
        out.append([sym, None, q, cnt])
    return {"atoms": out}


def has_isotopes(spec):
    return "atoms" in spec and any(iso or sym in ("D", "T") for sym, iso, q, cnt in spec["atoms"])


def has_ions(spec):
    return "atoms" in spec and any(q for sym, iso, q, cnt in spec["atoms"])


def has_isotope_ions(spec):
    return "atoms" in spec and any((iso or sym in ("D", "T")) and q for sym, iso, q, cnt in spec["atoms"])


def oracle_sums(compound, E):
    """(mass, sum n f1, sum n f2, cond1, cond2, scale1, scale2) from formula.atoms/mass and my tables."""
    from periodictable import formulas
    # density given so that Formula() does not look up the (possibly missing) element density
    f = formulas.formula(compound, density=1.0)
    mass = f.mass
    s1 = s2 = c1 = c2 = a1 = a2 = 0.0
    for atom, n in f.atoms.items():
        tab = tables()[SYMBOLS[atom.number].lower()]
        v1, v2, d1, d2 = expected_sf(tab, E)
        s1 += n * v1
        s2 += n * v2
        c1 += abs(n) * d1 * 4 * ulp(E)
        c2 += abs(n) * d2 * 4 * ulp(E)
        a1 += abs(n * v1)
        a2 += abs(n * v2)
    return mass, s1, s2, c1, c2, a1, a2


def oracle_sld(compound, density, E):
    """rho, irho in 1e-6/Ang^2: r_e[m]*1e10[Ang/m] * N_A*density/mass [1/cm^3] * 1e-24 [cm^3/Ang^3]
    * 1e6 = r_e*N_A*density/mass*1e-8 * sum(n f)."""
    c = constants()
    mass, s1, s2, c1, c2, a1, a2 = oracle_sums(compound, E)
    pref = c["electron_radius"] * c["avogadro_number"] * density / mass * 1e-8
    return (pref * s1, pref * s2, REL_SLD * pref * a1 + pref * c1, REL_SLD * pref * a2 + pref * c2,
            {"mass": mass, "sum_n_f1": s1, "sum_n_f2": s2, "prefactor=r_e*N_A*density/mass*1e-8": pref})


def pair_close(got, exp, tol):
    try:
        return (same(got[0], exp[0], scale=0, rel=0, extra=tol[0])
                and same(got[1], exp[1], scale=0, rel=0, extra=tol[1]))
    except Exception:
        return False


def chk_compound(acc, inp):
    """All compound-level clauses for one (compound, density, energies, k, angles, roughness)."""
    P = pt()
    from periodictable import xsf
    spec, rho_m, Es = inp["compound"], inp["density"], inp["energies"]
    cid = "%s@%r@%r" % (spec_id(spec), rho_m, Es[0])
    E = Es[0]
    hc = hc_keV_ang()
    try:
        comp = build_compound(spec)
    except Exception as e:
        acc.ev("build:" + cid)
        acc.bad("build", cid, "cannot build the compound from table atoms", inp, exc_str(e), "compound")
        return
    # (a) value
    acc.ev("value:" + cid)
    try:
        e1, e2, t1, t2, info = oracle_sld(comp, rho_m, E)
    except Exception as e:
        acc.count_note("ORACLE ERROR (case skipped, not a verdict on the code)",
                       "%s: %s" % (cid, exc_str(e)))
        return
    try:
        got = P.xray_sld(comp, density=rho_m, energy=E)
    except Exception as e:
        acc.bad("value", cid, "xray_sld raised for a compound of tabulated atoms inside every table "
                "range", inp, exc_str(e), "r_e*N_A*density/mass*1e-8*(sum n f1, sum n f2)")
        return
    ok = pair_close(got, (e1, e2), (t1, t2)) and is_scalar_out(got[0]) and is_scalar_out(got[1])
    if not ok:
        acc.bad("value", cid, "xray_sld(density=%r, energy=%r) != r_e*N_A*density/mass*1e-8*(sum n f1, "
                "sum n f2) with r_e=%r m, N_A=%r, %r" % (rho_m, E, constants()["electron_radius"],
                                                        constants()["avogadro_number"], _j(info)),
                inp, got, [e1, e2])
    acc.sample({"check": "value", "compound": spec_id(spec), "density": rho_m, "E_keV": E,
                "observed": got, "expected": [e1, e2]})
    tol = (2 * t1, 2 * t2)
    # (b) wavelength
    if not inp.get("boundary"):
        acc.ev("wavelength:" + cid)
        try:
            gw = P.xray_sld(comp, density=rho_m, wavelength=hc / E)
            if not pair_close(gw, got, tol):
                acc.bad("wavelength", cid, "xray_sld(wavelength=h*c*1e7/E=%r) differs from "
                        "xray_sld(energy=%r)" % (hc / E, E), inp, gw, got)
        except Exception as e:
            acc.bad("wavelength", cid, "xray_sld(wavelength=) raised", inp, exc_str(e), got)
    # (c) linear in density
    k = inp.get("k", 2.0)
    acc.ev("density_linear:" + cid)
    try:
        gk = P.xray_sld(comp, density=k * rho_m, energy=E)
        if not pair_close(gk, (k * got[0], k * got[1]), tol if k <= 1 else (k * tol[0], k * tol[1])):
            acc.bad("density_linear", cid, "xray_sld at density %r*%r is not %r times the value at "
                    "density %r" % (k, rho_m, k, rho_m), inp, gk, [k * got[0], k * got[1]])
    except Exception as e:
        acc.bad("density_linear", cid, "xray_sld raised", inp, exc_str(e), "k*sld")
    # (d) vector vs scalar
    acc.ev("vector:" + cid, n=len(Es))
    try:
        gv = P.xray_sld(comp, density=rho_m, energy=np.array(Es))
        okv = np.shape(gv[0]) == (len(Es),) and np.shape(gv[1]) == (len(Es),)
        scal = [P.xray_sld(comp, density=rho_m, energy=x) for x in Es]
        if okv:
            for i, s in enumerate(scal):
                okv = okv and same(gv[0][i], s[0], rel=REL) and same(gv[1][i], s[1], rel=REL)
        if not okv:
            acc.bad("vector", cid, "xray_sld(energy=vector) is not the vector of the scalar calls",
                    inp, gv, scal)
        gwv = P.xray_sld(comp, density=rho_m, wavelength=np.array([hc / x for x in Es[1:]]))
        okw = np.shape(gwv[0]) == (len(Es) - 1,)
        if okw:
            for i, x in enumerate(Es[1:]):
                ee1, ee2, tt1, tt2, _ = oracle_sld(comp, rho_m, x)
                okw = okw and pair_close((gwv[0][i], gwv[1][i]), (ee1, ee2), (2 * tt1, 2 * tt2))
        if not okw:
            acc.bad("vector_wavelength", cid, "xray_sld(wavelength=vector) is not the oracle value at "
                    "E=hc/lambda entry by entry", inp, gwv, "oracle at %r" % (Es[1:],))
    except Exception as e:
        acc.bad("vector", cid, "xray_sld(energy=vector) raised", inp, exc_str(e), "vector")
    # (e) isotope independence at equal natural density
    if has_isotopes(spec):
        fam = ("isotope_indep_isotope_ion" if has_isotope_ions(spec) else
               "isotope_indep_ionic" if has_ions(spec) else "isotope_indep")
        acc.ev(fam + ":" + cid)
        try:
            nat = build_compound(natural_spec(spec))
            g_iso = P.xray_sld(comp, natural_density=rho_m, energy=E)
            g_nat = P.xray_sld(nat, natural_density=rho_m, energy=E)
            n1, n2, nt1, nt2, ninfo = oracle_sld(nat, rho_m, E)
            if not pair_close(g_iso, g_nat, (2 * nt1, 2 * nt2)):
                acc.bad(fam, cid, "xray_sld(%s, natural_density=%r) differs from xray_sld(%s, "
                        "natural_density=%r): the result depends on the isotopes present at equal "
                        "natural density (oracle for the natural compound at density %r: %r)"
                        % (spec_id(spec), rho_m, spec_id(natural_spec(spec)), rho_m, rho_m, [n1, n2]),
                        inp, g_iso, g_nat)
            if not pair_close(g_nat, (n1, n2), (nt1, nt2)):
                # natural compound: natural density == density
                if has_ions(spec):
                    acc.count_note("natural (isotope-free) ionic compound: xray_sld(natural_density=d) != "
                                   "xray_sld(density=d) (natural_mass_ratio uses neutral-atom masses; "
                                   "C12 matter, not counted here)",
                                   "%s: %r vs %r" % (spec_id(natural_spec(spec)), _j(g_nat), [n1, n2]))
                else:
                    acc.bad("natural_density_natural", cid, "xray_sld(natural compound, "
                            "natural_density=d) != oracle at density d", inp, g_nat, [n1, n2])
        except Exception as e:
            acc.bad(fam, cid, "xray_sld(natural_density=) raised", inp, exc_str(e), "same as natural")
    # (f) index of refraction
    acc.ev("index:" + cid, n=2)
    lam = hc / E
    expn = lam ** 2 / (2 * math.pi) * complex(e1, e2) * 1e-6   # expected 1 - n
    tn = lam ** 2 / (2 * math.pi) * 1e-6
    for name, kw in (("energy", dict(energy=E)), ("wavelength", dict(wavelength=lam))):
        if inp.get("boundary") and name == "wavelength":
            continue
        try:
            n = xsf.index_of_refraction(comp, density=rho_m, **kw)
            d = 1 - complex(n)
            okn = (same(d.real, expn.real, scale=0, rel=0, extra=2 * tn * t1 + 4e-16)
                   and same(d.imag, expn.imag, scale=0, rel=0, extra=2 * tn * t2 + 1e-300)
                   and np.ndim(n) == 0)
            if not okn:
                acc.bad("index", cid + ":" + name, "index_of_refraction(%s) : 1-n != lambda^2/(2 pi)*"
                        "(rho + i*irho)*1e-6 with lambda=%r Ang, rho=%r, irho=%r (1e-6/Ang^2)"
                        % (name, lam, e1, e2), inp, n, 1 - expn)
        except Exception as e:
            acc.bad("index", cid + ":" + name, "index_of_refraction raised", inp, exc_str(e), 1 - expn)
    try:
        nv = xsf.index_of_refraction(comp, density=rho_m, energy=np.array(Es))
        okn = np.shape(nv) == (len(Es),)
        if okn:
            for i, x in enumerate(Es):
                dv = 1 - complex(nv[i])
                ds = 1 - complex(xsf.index_of_refraction(comp, density=rho_m, energy=x))
                okn = okn and same(dv.real, ds.real, rel=REL_SLD, extra=4e-16) \
                    and same(dv.imag, ds.imag, rel=REL_SLD, extra=1e-300)
        if not okn:
            acc.bad("index_vector", cid, "index_of_refraction(energy=vector) entries differ from the "
                    "scalar calls", inp, nv, "scalar calls")
    except Exception as e:
        acc.bad("index_vector", cid, "index_of_refraction(vector) raised", inp, exc_str(e), "vector")
    # (g) mirror reflectivity
    angles = inp.get("angles", [0.0, 0.2, 90.0])
    for rough in inp.get("roughness", [0.0]):
        for name, kw in (("energy-vector", dict(energy=np.array(Es[:3]))),
                         ("energy-scalar", dict(energy=E)),
                         ("wavelength-vector", dict(wavelength=np.array([hc / x for x in Es[1:3]])))):
            ne = 1 if name == "energy-scalar" else (len(Es[:3]) if name[0] == "e" else len(Es[1:3]))
            acc.ev("mirror:%s:%r:%s" % (cid, rough, name), n=len(angles) * ne)
            try:
                R = xsf.mirror_reflectivity(comp, density=rho_m, angle=np.array(angles),
                                            roughness=rough, **kw)
                R = np.asarray(R, dtype=float)
                okr = R.shape == (len(angles), ne)
                inside = np.all((R >= 0) & (R <= 1 + 1e-12)) and not np.any(np.isnan(R))
                if not (okr and inside):
                    badidx = np.argwhere(~((R >= 0) & (R <= 1 + 1e-12)))[:3].tolist()
                    acc.bad("mirror", "%s:%r:%s" % (cid, rough, name),
                            "mirror_reflectivity (angles %r deg, roughness %r Ang, %s) has values "
                            "outside [0,1] or NaN or a wrong shape at [angle,energy] indices %r"
                            % (angles, rough, name, badidx), inp,
                            {"shape": R.shape, "min": np.nanmin(R) if R.size else None,
                             "max": np.nanmax(R) if R.size else None,
                             "nan": int(np.isnan(R).sum()),
                             "bad_values": [R[tuple(ix)] for ix in badidx]}, "all in [0, 1]")
            except Exception as e:
                acc.bad("mirror", "%s:%r:%s" % (cid, rough, name), "mirror_reflectivity raised", inp,
                        exc_str(e), "matrix in [0,1]")
    try:
        acc.ev("mirror_scalar_angle:" + cid)
        R = np.asarray(xsf.mirror_reflectivity(comp, density=rho_m, angle=angles[1], energy=E,
                                               roughness=inp.get("roughness", [0.0])[0]), dtype=float)
        if not (R.size == 1 and 0 <= R.ravel()[0] <= 1 + 1e-12):
            acc.bad("mirror_scalar_angle", cid, "mirror_reflectivity(scalar angle, scalar energy) not a "
                    "single value in [0,1]", inp, R, "in [0,1]")
    except Exception as e:
        acc.bad("mirror_scalar_angle", cid, "mirror_reflectivity raised", inp, exc_str(e), "in [0,1]")


def chk_empty(acc, inp):
    P = pt()
    from periodictable import formulas
    form = inp["form"]
    comp = {"empty-string": "", "none": None, "dict": {}, "formula": formulas.Formula(),
            "tuple": ()}[form]
    for name, kw in (("energy", dict(energy=inp["E"])), ("wavelength", dict(wavelength=1.54)),
                     ("vector", dict(energy=np.array([inp["E"], 2.0])))):
        acc.ev("empty:%s:%s" % (form, name))
        try:
            r = P.xray_sld(comp, density=inp["density"], **kw)
            ok = len(r) == 2 and np.all(np.asarray(r[0]) == 0) and np.all(np.asarray(r[1]) == 0)
        except Exception as e:
            r, ok = exc_str(e), False
        if not ok:
            acc.bad("empty", "%s:%s" % (form, name), "empty formula (%s) does not give SLD (0, 0)" % form,
                    inp, r, [0, 0])


def chk_element_sld(acc, inp):
    """el.xray.sld(energy=E) == xray_sld(one-atom compound at the element's density) == oracle."""
    P = pt()
    sym, E = inp["symbol"], inp["E"]
    el = element_of(sym)
    iid = "%s:%r" % (sym, E)
    acc.ev("element:" + iid)
    try:
        got = el.xray.sld(energy=E)
    except Exception as e:
        acc.bad("element", iid, "el.xray.sld raised", inp, exc_str(e), "sld")
        return
    if el.density is None:
        if not (got[0] is None and got[1] is None):
            acc.bad("element", iid, "element without density: el.xray.sld is not (None, None)", inp,
                    got, [None, None])
        else:
            acc.count_note("tabulated element without density: el.xray.sld -> (None, None)", sym)
        return
    try:
        comp = P.xray_sld({el: 1}, density=el.density, energy=E)
        comp2 = P.xray_sld(el, energy=E)
        e1, e2, t1, t2, info = oracle_sld({el: 1}, el.density, E)
        gw = el.xray.sld(wavelength=hc_keV_ang() / E)
    except Exception as e:
        acc.bad("element", iid, "xray_sld of the one-atom compound raised", inp, exc_str(e), got)
        return
    ok = (pair_close(got, comp, (2 * t1, 2 * t2)) and pair_close(got, (e1, e2), (t1, t2))
          and pair_close(comp2, comp, (2 * t1, 2 * t2)) and pair_close(gw, got, (2 * t1, 2 * t2)))
    if not ok:
        acc.bad("element", iid, "%s.xray.sld(energy=%r) / xray_sld({%s:1}, density=%r) / oracle "
                "r_e*N_A*density/mass*1e-8*f (%r) disagree" % (sym, E, sym, el.density, _j(info)),
                inp, {"el.xray.sld": got, "xray_sld": comp, "xray_sld(default density)": comp2,
                      "el.xray.sld(wavelength)": gw}, [e1, e2])


# ----------------------------------------------------------------------------------------------
# sld: task
# ----------------------------------------------------------------------------------------------
NAMED = ["H2O", "D2O", "SiO2", "Al2O3", "CaCO3", "NaCl", "Fe2O3", "C6H12O6", "Ni80Fe20", "UO2",
         "Fe{2+}O{2-}", "Na{+}Cl{-}", "CaF2", "Zr0.5Gd0.5O2", "AuPb3Bi"]


# deterministic coverage of isotope / ion / isotope-ion atoms (incl. D and T, which have their own
# symbols) independent of the seed: [symbol, isotope, charge, count]
FIXED_SPECS = [
    [["D", None, 0, 2], ["O", None, 0, 1]],
    [["T", None, 0, 2], ["O", None, 0, 1]],
    [["H", 2, 0, 2], ["O", 18, 0, 1]],
    [["H", None, 1, 1], ["Cl", None, -1, 1]],
    [["D", None, 1, 1], ["Cl", None, -1, 1]],
    [["T", None, 1, 1], ["Cl", None, -1, 1]],
    [["H", 2, 1, 1], ["Cl", 37, -1, 1]],
    [["Fe", 56, 0, 2], ["O", None, 0, 3]],
    [["Fe", None, 3, 2], ["O", None, -2, 3]],
    [["Fe", 56, 3, 2], ["O", None, -2, 3]],
    [["Ni", 58, 2, 1], ["O", 16, -2, 1]],
    [["U", 235, 0, 1], ["O", None, 0, 2]],
    [["Li", 6, 0, 1], ["F", None, 0, 1]],
    [["B", 10, 0, 4], ["C", None, 0, 1]],
]


def random_energy(rng, syms):
    """-> (E, boundary flag).  Energy in [max(0.03, first f1 energy of every component), 30] keV."""
    tabs = [tables()[s.lower()] for s in syms]
    lo = max([0.03] + [first_valid_f1_kev(t) for t in tabs])
    hi = min([30.0] + [t.kev[-1] for t in tabs])
    r = rng.random()
    if r < 0.55:
        return math.exp(rng.uniform(math.log(lo), math.log(hi))), False
    t = rng.choice(tabs)
    if r < 0.75:
        for _ in range(20):
            E = rng.choice(t.kev)
            if lo <= E < hi:
                return E, False
    if r < 0.93:
        edges = [i for i in edge_indices(t) if lo <= t.kev[i] and t.kev[i + 1] < hi]
        if edges:
            i = rng.choice(edges)
            return rng.choice([t.kev[i], t.kev[i + 1], (t.kev[i] + t.kev[i + 1]) / 2,
                               t.kev[i] * (1 - 1e-9), t.kev[i + 1] * (1 + 1e-9)]), False
    if r < 0.97:
        return lo, False
    return hi, True


def random_spec(rng, stems):
    P = pt()
    k = rng.choice([1, 2, 2, 3, 3, 4, 5])
    atoms = []
    for stem in rng.sample(stems, k):
        sym = file_symbol(stem)
        el = P.elements.symbol(sym)
        iso = None
        q = 0
        if rng.random() < 0.25 and el.isotopes:
            iso = rng.choice(el.isotopes)
        if rng.random() < 0.25 and el.ions:
            q = rng.choice(el.ions)
        if sym == "H" and iso in (2, 3) and rng.random() < 0.5:
            sym, iso = ("D" if iso == 2 else "T"), None
        cnt = rng.randint(1, 12) if rng.random() < 0.6 else round(rng.uniform(0.01, 10), 4)
        atoms.append([sym, iso, q, cnt])
    return {"atoms": atoms}


def spec_symbols(spec):
    if "str" in spec:
        from periodictable import formulas
        return [SYMBOLS[a.number] for a in formulas.formula(spec["str"]).atoms]
    return ["H" if s in ("D", "T") else s for s, _, _, _ in spec["atoms"]]


def make_compound_input(rng, spec):
    syms = spec_symbols(spec)
    E, boundary = random_energy(rng, syms)
    Es = [E]
    while len(Es) < 4:
        x, b = random_energy(rng, syms)
        if not b:
            Es.append(x)
    angles = [0.0, 90.0] + [round(rng.choice([rng.uniform(0, 1), rng.uniform(0, 90),
                                              10 ** rng.uniform(-4, 0)]), 6) for _ in range(4)]
    rough = [0.0, round(rng.choice([rng.uniform(0, 5), rng.uniform(0, 100)]), 4)]
    inp = {"kind": "compound", "compound": spec, "density": round(rng.uniform(1e-3, 25.0), 6)
           if rng.random() < 0.9 else rng.choice([25.0, 1e-6, 1.0]),
           "energies": Es, "k": round(rng.choice([rng.uniform(0.05, 1), rng.uniform(1, 20)]), 5),
           "angles": angles, "roughness": rough}
    if boundary:
        inp["boundary"] = True
    return inp


def task_sld(tier, seed, arg):
    acc = Acc("sld")
    rng = random.Random(seed)
    t0 = time.time()
    stems = sorted(tables())
    ncomp = 300 if tier == "quick" else 20000
    if arg and "n" in arg:
        ncomp = int(arg["n"])
    for s in NAMED:
        chk_compound(acc, make_compound_input(rng, {"str": s}))
    # the textbook isotope pair: H2O vs D2O at the same natural density (string path)
    P = pt()
    acc.ev("isotope_indep:str=D2O-vs-H2O")
    try:
        a = P.xray_sld("D2O", natural_density=1.0, energy=8.0)
        b = P.xray_sld("H2O", natural_density=1.0, energy=8.0)
        e1, e2, t1, t2, _ = oracle_sld("H2O", 1.0, 8.0)
        if not (pair_close(a, b, (t1, t2)) and pair_close(b, (e1, e2), (t1, t2))):
            acc.bad("isotope_indep", "str=D2O-vs-H2O", "xray_sld('D2O', natural_density=1) != "
                    "xray_sld('H2O', natural_density=1) (or != oracle for H2O at density 1)",
                    {"kind": "none"}, [a, b], [e1, e2])
    except Exception as e:
        acc.bad("isotope_indep", "str=D2O-vs-H2O", "raised", {"kind": "none"}, exc_str(e), "equal")
    for spec in FIXED_SPECS:
        chk_compound(acc, make_compound_input(rng, {"atoms": [list(a) for a in spec]}))
    for _ in range(ncomp):
        chk_compound(acc, make_compound_input(rng, random_spec(rng, stems)))
    for form in ("empty-string", "none", "dict", "formula", "tuple"):
        chk_empty(acc, {"kind": "empty", "form": form, "density": 2.5, "E": 8.0})
    nper = 3 if tier == "quick" else 25
    for stem in stems:
        tab = tables()[stem]
        lo = max(0.03, first_valid_f1_kev(tab))
        for j in range(nper):
            E = [8.047, tab.kev[tab.nrows // 2]][j] if j < 2 else \
                math.exp(rng.uniform(math.log(lo), math.log(30.0)))
            chk_element_sld(acc, {"kind": "element_sld", "symbol": file_symbol(stem), "E": E})
    acc.note("runtime %.1f s" % (time.time() - t0))
    rule = ("BOUNDED sampling, seed %d: %d named string compounds + %d fixed isotope/ion specs + %d seeded random compounds (1-5 of "
            "the 92 tabulated elements; each atom with p=.25 a random isotope, p=.25 a random ion charge "
            "of the element, D/T spelled as such half of the time; integer counts 1..12 or fractional "
            "0.01..10), density in (0,25], 4 energies each in [max(0.03 keV, first f1 node), 30] keV "
            "(55%% log-uniform, 20%% exact node of a component, 18%% at/next to an absorption edge, "
            "lower bound, upper bound 30.0 without wavelength round trip).  Per compound: value vs "
            "r_e*N_A*density/mass*1e-8*(sum n f1, sum n f2) (own tables, formula.mass), wavelength= vs "
            "energy=, density linearity with a seeded k in (0.05,20), energy vector (4) vs scalars and "
            "wavelength vector vs oracle, isotope independence at equal natural_density= (if isotopes "
            "present; key family isotope_indep / _ionic (ions on other atoms) / _isotope_ion (an atom that "
            "is both)), index_of_refraction (energy=, wavelength=, vector) via 1-n, mirror_reflectivity in "
            "[0,1+1e-12] and not NaN for 6 angles in [0,90] deg incl. 0 and 90, roughness 0 and a seeded "
            "one in [0,100] Ang, 3 call forms + scalar angle.  Plus 5 empty-formula forms x 3 calls and "
            "el.xray.sld vs one-atom compound vs oracle for the 92 elements x %d energies.  Tolerance "
            "rel 1e-10 of sum|n f|*prefactor plus the 4-ulp(E) conditioning term; 1-n additionally "
            "+4e-16 absolute.  distinct = distinct (clause, compound, density, first energy) tuples; a "
            "case is non-trivial when the compound has >= 1 atom."
            % (seed, len(NAMED), len(FIXED_SPECS), ncomp, nper))
    return acc.result(rule, exhaustive=False)


# ----------------------------------------------------------------------------------------------
# f0
# ----------------------------------------------------------------------------------------------
STOL_LIMIT = 6.0   # sin(theta)/lambda fitted range of Waasmaier-Kirfel; Q limit = 4 pi * 6 = 24 pi


def q_grid(tier, seed):
    n = 25 if tier == "quick" else 400
    qmax = 24 * math.pi
    rng = random.Random(seed)
    g = [qmax * i / (n - 1) for i in range(n)]
    g[-1] = qmax
    g += [rng.uniform(0, qmax) for _ in range(0 if tier == "quick" else 20)]
    return g


BEYOND = [24 * math.pi * (1 + 1e-9), 76.0, 80.0, 100.0, 1e3, 1e6]
AT_OR_BELOW = [24 * math.pi, 24 * math.pi * (1 - 1e-12), 75.39, 75.0]


def _f0_calls(name, sym, q):
    """[(label, callable(Q))] for entry `name`; parsed (sym, q) may be None for valence entries."""
    from periodictable import cromermann
    calls = [("fxrayatq(%r)" % name, lambda Q: cromermann.fxrayatq(name, Q))]
    notes = []
    if sym is not None:
        calls.append(("fxrayatq(%r,charge=%d)" % (sym, q),
                      lambda Q: cromermann.fxrayatq(sym, Q, charge=q)))
        if abs(q) == 1:
            short = sym + ("+" if q > 0 else "-")
            calls.append(("fxrayatq(%r)" % short, lambda Q: cromermann.fxrayatq(short, Q)))
        el = element_of(sym)
        if q == 0:
            calls.append(("%s.xray.f0" % sym, lambda Q: el.xray.f0(Q)))
        elif q in el.ions:
            calls.append(("%s.ion[%d].xray.f0" % (sym, q), lambda Q: el.ion[q].xray.f0(Q)))
        else:
            notes.append("unreachable")
    return calls, notes


def _quiet(fn):
    def call(Q):
        with np.errstate(all="ignore"):   # exp overflow far beyond the fitted range is fine (-> NaN)
            return fn(Q)
    return call


def chk_f0(acc, inp):
    name = inp["entry"]
    ent = [e for e in read_f0() if e[0] == name]
    if len(ent) != 1:
        acc.ev("f0:dup:" + name)
        acc.bad("entry", name, "entry %s occurs %d times in f0_WaasKirf.dat" % (name, len(ent)), inp,
                len(ent), 1)
        if not ent:
            return
    _, a, b, c = ent[-1]
    parsed = parse_f0_name(name)
    sym, q = parsed if parsed else (None, None)
    qs = q_grid(inp["grid"][0], inp["grid"][1])
    calls, notes = _f0_calls(name, sym, q)
    calls = [(label, _quiet(fn)) for label, fn in calls]
    if "unreachable" in notes:
        acc.count_note("file ion not reachable as el.ion[q] (charge not in el.ions); checked through "
                       "fxrayatq only", name)
    total = math.fsum(a + [c])
    if parsed is None:
        acc.count_note("valence entry: electron-count clause skipped, formula checked via "
                       "fxrayatq(name)", name)
    else:
        # Q -> 0 limit is the electron count
        acc.ev("f0:count:" + name)
        nel = Z_OF[sym] - q
        if not abs(total - nel) <= 0.05:
            acc.bad("count", name, "sum(a)+c = %r of entry %s is not within 0.05 of Z - charge = %d - "
                    "(%d) = %d" % (total, name, Z_OF[sym], q, nel), inp, total, nel)
    for label, fn in calls:
        cid = "%s:%s" % (name, label)
        # Q = 0
        acc.ev("f0:zero:" + cid)
        try:
            v0 = fn(0.0)
            vi = fn(0)
            ok = same(v0, total) and same(vi, total) and np.ndim(v0) == 0
            if parsed is not None:
                ok = ok and abs(float(v0) - (Z_OF[sym] - q)) <= 0.05
        except Exception as e:
            v0, ok = exc_str(e), False
        if not ok:
            acc.bad("zero", cid, "%s at Q=0 is not sum(a)+c = %r (a=%r, c=%r)%s"
                    % (label, total, a, c, "" if parsed is None else
                       " within 0.05 of Z-charge = %d" % (Z_OF[sym] - q)), inp, v0, total)
            if isinstance(v0, str):
                continue
        # grid, scalar
        acc.ev("f0:grid:" + cid, n=len(qs))
        nb = 0
        scal = []
        for Q in qs:
            exp = f0_expected(a, b, c, Q)
            try:
                v = fn(Q)
            except Exception as e:
                v = exc_str(e)
            scal.append(v)
            if isinstance(v, str) or not (same(v, exp) and np.ndim(v) == 0):
                nb += 1
                if nb <= 2:
                    acc.bad("grid", "%s:%r" % (cid, Q), "%s(Q=%r) != sum a_i exp(-b_i (Q/4pi)^2) + c "
                            "with Q/4pi=%r, a=%r, b=%r, c=%r" % (label, Q, Q / (4 * math.pi), a, b, c),
                            inp, v, exp)
        # vector
        acc.ev("f0:vector:" + cid, n=len(qs))
        try:
            vv = fn(np.array(qs))
            vl = fn(list(qs))
            okv = np.shape(vv) == (len(qs),) and np.shape(vl) == (len(qs),)
            if okv:
                for i in range(len(qs)):
                    if isinstance(scal[i], str) or not (same(vv[i], scal[i]) and same(vl[i], scal[i])):
                        okv = False
                        break
            obs = vv
        except Exception as e:
            okv, obs = False, exc_str(e)
        if not okv:
            acc.bad("vector", cid, "%s(vector Q) is not the vector of the scalar calls" % label, inp,
                    obs, scal)
        # range
        acc.ev("f0:range:" + cid, n=len(BEYOND) + len(AT_OR_BELOW) + 1)
        try:
            for Q in BEYOND:
                v = fn(Q)
                if not (v != v):
                    acc.bad("beyond", "%s:%r" % (cid, Q), "%s(Q=%r) with Q/(4 pi) = %r > 6 (fitted "
                            "range) is not NaN" % (label, Q, Q / (4 * math.pi)), inp, v, "nan")
            for Q in AT_OR_BELOW:
                v = fn(Q)
                exp = f0_expected(a, b, c, Q)
                if not same(v, exp):
                    acc.bad("inrange", "%s:%r" % (cid, Q), "%s(Q=%r) with Q/(4 pi) = %r <= 6 is not the "
                            "formula value (NaN inside the fitted range?)"
                            % (label, Q, Q / (4 * math.pi)), inp, v, exp)
            mix = [1.0, 80.0, 24 * math.pi, 100.0, 0.0]
            v = fn(np.array(mix))
            if not (np.shape(v) == (5,) and [bool(x != x) for x in v] == [False, True, False, True, False]):
                acc.bad("beyond", "%s:mixed-vector" % cid, "NaN pattern of %s over Q=%r is wrong"
                        % (label, mix), inp, v, "[v, nan, v, nan, v]")
        except Exception as e:
            acc.bad("beyond", "%s:raise" % cid, "%s raised on a range check" % label, inp, exc_str(e),
                    "nan / value")
    acc.sample({"check": "f0", "entry": name, "sum_a_plus_c": total,
                "Z_minus_charge": None if parsed is None else Z_OF[sym] - q,
                "calls": [l for l, _ in calls]})


def chk_f0_isotope(acc, inp):
    """Isotopes / isotope ions use the element's / ion's coefficients."""
    sym, iso, q, Q = inp["symbol"], inp["iso"], inp["charge"], inp["Q"]
    name = sym + (("%d%s" % (abs(q), "+" if q > 0 else "-")) if q else "")
    real = "H" if sym in ("D", "T") else sym
    name = real + name[len(sym):]
    ent = [e for e in read_f0() if e[0] == name]
    iid = "%s:%s:%s" % (sym, iso, q)
    if not ent:
        return
    acc.ev("f0:isotope:" + iid)
    _, a, b, c = ent[-1]
    try:
        v = atom_of(sym, iso, q).xray.f0(Q)
        ok = same(v, f0_expected(a, b, c, Q))
    except Exception as e:
        v, ok = exc_str(e), False
    if not ok:
        acc.bad("isotope", iid, "f0 of isotope atom %s[%s] charge %+d at Q=%r is not the value from the "
                "coefficients of file entry %s" % (sym, iso, q, Q, name), inp, v,
                f0_expected(a, b, c, Q))


def task_f0(tier, seed, arg):
    acc = Acc("f0")
    t0 = time.time()
    from periodictable import cromermann
    lim = getattr(cromermann.CromerMannFormula, "stollimit", None)
    acc.note("cromermann.CromerMannFormula.stollimit = %r (property: NaN for Q/(4 pi) > 6, i.e. Q > 24 pi)"
             % (lim,))
    qs = q_grid(tier, seed)
    entries = read_f0()
    names = [e[0] for e in entries]
    for name in names:
        chk_f0(acc, {"kind": "f0", "entry": name, "grid": [tier, seed]})
    # ions of table elements for which the file has no coefficients: outside the property, noted
    P = pt()
    have = set(names)
    rng = random.Random(seed)
    for el in P.elements:
        if el.symbol not in have:
            continue
        for q in el.ions:
            nm = "%s%d%s" % (el.symbol, abs(q), "+" if q > 0 else "-")
            if nm not in have:
                acc.count_note("el.ion[q] without coefficients in the file (f0 not covered by the "
                               "property)", nm)
        isos = el.isotopes
        if isos:
            iso = rng.choice(isos)
            chk_f0_isotope(acc, {"kind": "f0_isotope", "symbol": el.symbol, "iso": iso, "charge": 0,
                                 "Q": 3.0})
            qsel = [q for q in el.ions
                    if "%s%d%s" % (el.symbol, abs(q), "+" if q > 0 else "-") in have]
            if qsel:
                chk_f0_isotope(acc, {"kind": "f0_isotope", "symbol": el.symbol, "iso": iso,
                                     "charge": rng.choice(qsel), "Q": 3.0})
    for sym, q in (("D", 0), ("T", 0), ("D", -1)):
        chk_f0_isotope(acc, {"kind": "f0_isotope", "symbol": sym, "iso": None, "charge": q, "Q": 3.0})
    acc.note("runtime %.1f s" % (time.time() - t0))
    rule = ("Exhaustive over the %d entries of f0_WaasKirf.dat (own DABAX reader).  Per entry: "
            "|sum(a)+c - (Z - charge)| <= 0.05 (Z from an embedded symbol list; valence entries Cval/"
            "Siva: formula only); every access path (fxrayatq(name), fxrayatq(sym, charge=q), 'Na+' "
            "short form, el.xray.f0 / el.ion[q].xray.f0 when q is in el.ions) at Q=0 (float and int), on "
            "%d Q values in [0, 24 pi] (uniform grid incl. both ends%s) scalar (rel 1e-12 vs sum a_i "
            "exp(-b_i (Q/4pi)^2)+c) and as ndarray/list vectors, NaN for %d Q values beyond 24 pi and a "
            "value (not NaN) at 24 pi, 24 pi(1-1e-12), 75.39, 75, plus a mixed vector.  One seeded "
            "isotope (and isotope ion) per element and D/T use the element's coefficients.  Bounded only "
            "in the Q grid.  distinct = distinct (clause, entry, access path); none trivial."
            % (len(entries), len(qs), "" if tier == "quick" else " + 20 seeded", len(BEYOND)))
    return acc.result(rule, exhaustive=True)


# ----------------------------------------------------------------------------------------------
# replay
# ----------------------------------------------------------------------------------------------
CHECKS = {
    "monotone": ("tables", chk_monotone), "node": ("tables", chk_node), "interp": ("tables", chk_interp),
    "outside": ("tables", chk_outside), "wavelength": ("tables", chk_wavelength),
    "vector": ("tables", chk_vector), "nofile": ("tables", chk_nofile), "ion": ("tables", chk_ion),
    "convert": ("tables", chk_convert),
    "compound": ("sld", chk_compound), "empty": ("sld", chk_empty),
    "element_sld": ("sld", chk_element_sld),
    "f0": ("f0", chk_f0), "f0_isotope": ("f0", chk_f0_isotope),
}


def task_replay(tier, seed, arg):
    if not arg or "input" not in arg:
        raise ValueError("replay needs --arg '{\"input\": ..., \"key\": ...}'")
    inp = arg["input"]
    key = arg.get("key")
    kind = inp.get("kind") if isinstance(inp, dict) else None
    if kind == "none" and key == "sld:isotope_indep:str=D2O-vs-H2O":
        acc = Acc("sld")
        P = pt()
        acc.ev("isotope_indep:str=D2O-vs-H2O")
        a = P.xray_sld("D2O", natural_density=1.0, energy=8.0)
        b = P.xray_sld("H2O", natural_density=1.0, energy=8.0)
        e1, e2, t1, t2, _ = oracle_sld("H2O", 1.0, 8.0)
        if not (pair_close(a, b, (t1, t2)) and pair_close(b, (e1, e2), (t1, t2))):
            acc.bad("isotope_indep", "str=D2O-vs-H2O", "D2O vs H2O at natural_density=1 differ", inp,
                    [a, b], [e1, e2])
        return acc.result("replay of one input", False)
    if kind not in CHECKS:
        raise ValueError("unknown input kind %r" % (kind,))
    task, fn = CHECKS[kind]
    acc = Acc(task)
    fn(acc, inp)
    res = acc.result("replay of one input through the same check function (kind=%s)" % kind, False)
    if key:
        hit = [v for v in res["violations"] if v["key"] == key]
        other = [v["key"] for v in res["violations"] if v["key"] != key]
        if other:
            res["notes"].append("other violations of the same input: %s" % ", ".join(other[:20]))
        res["violations"] = hit
        res["reproduced"] = bool(hit)
    res["task"] = "replay"
    return res
