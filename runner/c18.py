"""C18 native side: biomolecule sequences are the sum of their residues.

Oracle: the residue definitions are re-read from the SOURCE TEXT of periodictable/fasta.py with `ast`
(literal arguments of the `_()` table builders and of `_set_amino_acid_average`) and `tokenize`
(the `#B: D or N` comments); sums, averages, masses and densities are computed here from atom masses.
Nothing is expected by calling Sequence/_code_average/read_fasta or a helper they use.
"""
import ast
import hashlib
import io
import os
import random
import re
import shutil
import tempfile
import tokenize

from . import nat
from .nat import close, Result

TYPES = ("aa", "dna", "rna")

# IUPAC nucleotide classes (documented meaning of the class names used in fasta.py: purine, pyrimidine,
# ketone, amino, strong, weak, not A/C/G/T, any base); T stands for T in dna and for U in rna.
IUPAC = {"A": "A", "C": "C", "G": "G", "T": "T", "U": "T",
         "R": "AG", "Y": "CT", "K": "GT", "M": "AC", "S": "CG", "W": "AT",
         "B": "CGT", "D": "AGT", "H": "ACT", "V": "ACG", "N": "ACGT", "X": "", "-": ""}
TABLE_OF_TYPE = {"aa": "AMINO_ACID_CODES", "dna": "DNA_CODES", "rna": "RNA_CODES"}


# ----------------------------------------------------------------------------- source reader
def _source_path():
    import importlib.util
    return importlib.util.find_spec("periodictable.fasta").origin


def _read_literals():
    """{'tables': {target-name(s): [row dict by parameter name of the builder `_`]},
        'averages': [(target, codes, name)], 'code_tables': {type: table name}, 'comments': {code: text}}"""
    path = _source_path()
    with open(path, "rb") as fh:
        raw = fh.read()
    tree = ast.parse(raw)
    params = None
    tables, averages, code_tables = {}, [], {}
    for node in tree.body:
        if isinstance(node, ast.FunctionDef) and node.name == "_":
            params = [a.arg for a in node.args.args]
        elif isinstance(node, ast.Assign):
            names = []
            for t in node.targets:
                if isinstance(t, ast.Name):
                    names.append(t.id)
                elif isinstance(t, (ast.Tuple, ast.List)):
                    names += [e.id for e in t.elts if isinstance(e, ast.Name)]
            if names == ["CODE_TABLES"] and isinstance(node.value, ast.Dict):
                for k, v in zip(node.value.keys, node.value.values):
                    code_tables[k.value] = v.id
                continue
            rows = []
            for sub in ast.walk(node.value):
                if (isinstance(sub, ast.Call) and isinstance(sub.func, ast.Name) and sub.func.id == "_"
                        and sub.args and all(isinstance(a, ast.Constant) for a in sub.args)):
                    rows.append((sub.lineno, sub.col_offset, dict(zip(params, [a.value for a in sub.args]))))
            if rows:
                rows.sort(key=lambda r: r[:2])
                tables[",".join(names)] = [r[2] for r in rows]
        elif isinstance(node, ast.Expr) and isinstance(node.value, ast.Call):
            c = node.value
            if isinstance(c.func, ast.Name) and c.func.id == "_set_amino_acid_average":
                kw = {k.arg: k.value.value for k in c.keywords}
                averages.append((c.args[0].value, c.args[1].value, kw.get("name")))
    comments = {}
    for tok in tokenize.tokenize(io.BytesIO(raw).readline):
        if tok.type == tokenize.COMMENT:
            m = re.match(r"^#\s*([A-Z\-]):\s*(.+?)\s*$", tok.string)
            if m and m.group(1) not in comments:
                comments[m.group(1)] = m.group(2)
    return {"tables": tables, "averages": averages, "code_tables": code_tables, "comments": comments}


def _split_charge(text):
    """documented literal format: a trailing '-' / '+' on the formula text is a unit charge"""
    if text.endswith("-"):
        return text[:-1], -1
    if text.endswith("+"):
        return text[:-1], +1
    return text, 0


def _atoms_of(text):
    import periodictable
    return dict(periodictable.formula(text).atoms) if text else {}


def _avg(entries):
    """equal-weight average of (atoms, V, q) entries; the empty set gives the empty residue"""
    n = len(entries)
    atoms, V, q = {}, 0.0, 0.0
    for a, v, c in entries:
        for k, x in a.items():
            atoms[k] = atoms.get(k, 0) + x
        V += v
        q += c
    if n:
        atoms = {k: x / n for k, x in atoms.items()}
        V, q = V / n, q / n
    return atoms, V, q


_ORACLE = None


def _oracle():
    """{'aa'|'dna'|'rna': {code: {'atoms','V','q','of','text'}}}, plus 'lit' (the raw literals)"""
    global _ORACLE
    if _ORACLE is not None:
        return _ORACLE
    lit = _read_literals()
    T = lit["tables"]
    out = {"lit": lit, "aa": {}, "dna": {}, "rna": {}, "bases": {"dna": {}, "rna": {}}, "components": {}}
    for row in T["AMINO_ACID_CODES"]:
        text, q = _split_charge(row["formula"])
        out["aa"][row["code"]] = {"atoms": _atoms_of(text), "V": row["V"], "q": q, "of": None,
                                  "text": row["formula"], "name": row["name"]}
    # the ambiguity classes are the documented IUPAC ones (module comments `#B: D or N` ...): taken from the documentation, so
    # that the oracle does not depend on how the code spells its table construction
    doc_averages = [("B", "DN", None), ("J", "LI", None), ("Z", "EQ", None), ("X", "ACDEFGHIKLMNPQRSTVWY", "any"), ("-", "", "gap")]
    found = sorted((t, c) for t, c, _n in lit["averages"])
    if found != sorted((t, c) for t, c, _n in doc_averages):
        out.setdefault("notes", []).append("the source does not spell the ambiguity classes as five literal _set_amino_acid_average calls "
                                           "(found %r); the documented classes are used" % (found,))
    for target, codes, name in doc_averages:
        a, V, q = _avg([(out["aa"][c]["atoms"], out["aa"][c]["V"], out["aa"][c]["q"]) for c in codes])
        out["aa"][target] = {"atoms": a, "V": V, "q": q, "of": codes, "text": None, "name": name}
    for row in T["NUCLEIC_ACID_COMPONENTS"]:
        out["components"][row["name"]] = {"atoms": _atoms_of(row["formula"]), "V": row["V"], "text": row["formula"]}
    for t, nm in (("rna", "RNA_BASES"), ("dna", "DNA_BASES")):
        for row in T[nm]:
            out["bases"][t][row["code"]] = {"atoms": _atoms_of(row["formula"]), "V": row["V"], "q": 0,
                                            "text": row["formula"], "name": row["name"]}
    for row in T["RNA_CODES,DNA_CODES"]:
        for t in ("rna", "dna"):
            B = out["bases"][t]
            a, V, q = _avg([(B[c]["atoms"], B[c]["V"], B[c]["q"]) for c in row["bases"]])
            out[t][row["code"]] = {"atoms": a, "V": V, "q": q, "of": row["bases"], "text": None, "name": row["name"]}
    _ORACLE = out
    return out


# ----------------------------------------------------------------------------- small helpers
def _names(atoms):
    return {nat.atom_name(a): n for a, n in sorted(atoms.items(), key=lambda kv: nat.atom_name(kv[0]))}


def _mass(atoms, sub=None):
    """sum count*atomic mass; sub='H'/'D' replaces the labile H[1] by natural H / by D"""
    import periodictable
    el = periodictable.elements
    H1 = el.H[1]
    rep = {"H": el.H, "D": el.D}.get(sub)
    m = 0.0
    for a, n in atoms.items():
        if rep is not None and a is H1:
            a = rep
        m += n * a.mass
    return m


def _density(mass, V):
    import periodictable.constants as K
    return 1e24 * (mass / K.avogadro_number) / V


def _hid(*parts):
    return hashlib.sha1("\x1f".join(str(p) for p in parts).encode()).hexdigest()[:12]


def _clean(raw):
    """independent reading of the statement: drop everything from the first '*', ignore spaces"""
    out = []
    for ch in raw:
        if ch == "*":
            break
        if ch != " ":
            out.append(ch)
    return "".join(out)


def _exc(e):
    return "%s: %s" % (type(e).__name__, str(e)[:200])


# ----------------------------------------------------------------------------- task 1: code tables
def _check_code(R, t, code):
    """one table entry against the literals; returns number of obligations evaluated"""
    from periodictable import fasta
    O = _oracle()
    want = O[t].get(code)
    table = fasta.CODE_TABLES[t]
    inp = {"kind": "code", "type": t, "code": code}
    n = 0
    if want is None:
        R.violation("code_tables:unexpected_code:%s:%s" % (t, code),
                    "table has a code for which the source has no residue definition", inp, code, None)
        return 1
    if code not in table:
        R.violation("code_tables:missing_code:%s:%s" % (t, code), "residue definition missing from the table", inp, None, code)
        return 1
    m = table[code]
    kind = "residue" if want["of"] is None or len(want["of"]) == 1 else "ambiguity"
    what_of = ("literal formula text %r" % want["text"]) if want["of"] is None else \
        ("equal-weight average of %r" % (want["of"],))
    got = m.labile_formula.atoms
    n += 1
    if not nat.maps_close(got, want["atoms"], 1e-12):
        R.violation("code_tables:atoms:%s:%s" % (t, code),
                    "%s code: labile formula atoms differ from the %s (atoms each divided by n)" % (kind, what_of),
                    inp, _names(got), _names(want["atoms"]))
    n += 1
    if not close(m.cell_volume, want["V"], 1e-12, 0.0):
        R.violation("code_tables:cell_volume:%s:%s" % (t, code),
                    "%s code: cell volume differs from the %s" % (kind, what_of), inp, m.cell_volume, want["V"])
    n += 1
    if not close(m.charge, want["q"], 1e-12, 0.0):
        R.violation("code_tables:charge:%s:%s" % (t, code),
                    "%s code: charge differs from the %s" % (kind, what_of), inp, m.charge, want["q"])
    # masses and density of the entry itself (Molecule.__init__)
    mh, md, ml = _mass(want["atoms"], "H"), _mass(want["atoms"], "D"), _mass(want["atoms"])
    n += 2
    if not close(m.mass, mh, 1e-12, 0.0):
        R.violation("code_tables:mass:%s:%s" % (t, code), "mass is not the H[1]->H mass of the residue formula", inp, m.mass, mh)
    if not close(m.Dmass, md, 1e-12, 0.0):
        R.violation("code_tables:Dmass:%s:%s" % (t, code), "Dmass is not the H[1]->D mass of the residue formula", inp, m.Dmass, md)
    if want["V"] > 0:
        n += 2
        d = _density(ml, want["V"])
        if not close(m.labile_formula.density, d, 1e-12):
            R.violation("code_tables:density_labile:%s:%s" % (t, code),
                        "labile_formula.density is not 1e24*mass(labile formula)/N_A/cell_volume", inp, m.labile_formula.density, d)
        d = _density(mh, want["V"])
        if not close(m.natural_formula.density, d, 1e-12):
            R.violation("code_tables:density_natural:%s:%s" % (t, code),
                        "natural_formula.density is not 1e24*mass/N_A/cell_volume", inp, m.natural_formula.density, d)
    return n


def task_code_tables(tier, seed, arg):
    from periodictable import fasta
    R = Result("every code of AMINO_ACID_CODES, DNA_CODES, RNA_CODES (CODE_TABLES) against the literal arguments of the "
               "table builders re-read from fasta.py with ast: atoms of the literal formula text (trailing +/- = unit "
               "charge), cell volume, charge, mass/Dmass/density; ambiguity codes = (1/n)*sum over the residues named by the "
               "source literal, the source literal cross-checked against the '#B: D or N' comments and the IUPAC nucleotide "
               "classes; rna-dna differences against the NUCLEIC_ACID_COMPONENTS literals (ribose/deoxyribose, uracil/thymine); "
               "tolerance 1e-12; distinct = (table, code) pairs; finite space enumerated completely", exhaustive=True)
    O = _oracle()
    lit = O["lit"]
    # CODE_TABLES maps the three type names to the three tables
    for t in TYPES:
        R.ok(1)
        if lit["code_tables"].get(t) != TABLE_OF_TYPE[t] or fasta.CODE_TABLES.get(t) is not getattr(fasta, TABLE_OF_TYPE[t]):
            R.violation("code_tables:dispatch:%s" % t, "CODE_TABLES does not map the type to its table", {"kind": "code", "type": t, "code": None},
                        lit["code_tables"].get(t), TABLE_OF_TYPE[t])
    if set(fasta.CODE_TABLES) != set(TYPES):
        R.violation("code_tables:dispatch:keys", "CODE_TABLES has other sequence types than aa/dna/rna", None,
                    sorted(fasta.CODE_TABLES), list(TYPES))
    for t in TYPES:
        codes = sorted(set(O[t]) | set(fasta.CODE_TABLES[t]))
        for c in codes:
            n = _check_code(R, t, c)
            R.ok(n, (t, c))
            if len(R.samples) < 5 and c in O[t] and c in ("B", "X", "K", "N"):
                m = fasta.CODE_TABLES[t].get(c)
                R.sample({"type": t, "code": c, "of": O[t][c]["of"], "atoms": _names(m.labile_formula.atoms),
                          "cell_volume": m.cell_volume, "charge": m.charge})
    # which residues an ambiguity code stands for: source literal vs the documentation
    direct = sorted(c for c, e in O["aa"].items() if e["of"] is None)
    doc = lit["comments"]
    for c, e in sorted(O["aa"].items()):
        if e["of"] is None:
            continue
        text = doc.get(c)
        want = None
        if text:
            m = re.match(r"^([A-Z]) or ([A-Z])$", text)
            if m:
                want = set(m.groups())
            elif text == "any":
                want = set(direct)
            elif text == "gap":
                want = set()
        R.ok(1)
        if want is None:
            R.notes.append("aa code %s: no parsable '#%s: ...' comment (%r); literal set %r taken as given" % (c, c, text, e["of"]))
        elif want != set(e["of"]) or len(set(e["of"])) != len(e["of"]):
            R.violation("code_tables:ambiguity_set:aa:%s" % c,
                        "the residues averaged for the ambiguity code are not the ones the documentation comment names",
                        {"kind": "code", "type": "aa", "code": c}, e["of"], sorted(want))
    for t in ("dna", "rna"):
        for c, e in sorted(O[t].items()):
            R.ok(1)
            want = IUPAC.get(c)
            if want is None or set(want) != set(e["of"]) or len(set(e["of"])) != len(e["of"]):
                R.violation("code_tables:ambiguity_set:%s:%s" % (t, c),
                            "the nucleotides averaged for the class code are not its IUPAC class", {"kind": "code", "type": t, "code": c},
                            e["of"], want)
    # T<->U handling and sugar/base differences between the rna and dna tables
    for t in ("dna", "rna"):
        tab = fasta.CODE_TABLES[t]
        R.ok(1)
        if not (nat.maps_close(tab["T"].labile_formula.atoms, tab["U"].labile_formula.atoms, 0.0)
                and tab["T"].cell_volume == tab["U"].cell_volume and tab["T"].charge == tab["U"].charge):
            R.violation("code_tables:TU:%s" % t, "%s files must treat T and U as the same residue" % t,
                        {"kind": "code", "type": t, "code": "U"}, _names(tab["U"].labile_formula.atoms), _names(tab["T"].labile_formula.atoms))
    K = O["components"]

    def diff(a, b):
        d = dict(a)
        for k, x in b.items():
            d[k] = d.get(k, 0) - x
        return {k: x for k, x in d.items() if x != 0}
    sugar = diff(K["ribose"]["atoms"], K["deoxyribose"]["atoms"])
    sugar_V = K["ribose"]["V"] - K["deoxyribose"]["V"]
    base = diff(K["uracil"]["atoms"], K["thymine"]["atoms"])
    base_V = K["uracil"]["V"] - K["thymine"]["V"]
    rna, dna = fasta.CODE_TABLES["rna"], fasta.CODE_TABLES["dna"]
    for c in sorted(set(rna) & set(dna)):
        of = IUPAC.get(c)
        if of is None:
            continue
        fT = (of.count("T") / len(of)) if of else 0.0
        scale = 1.0 if of else 0.0
        want = {}
        for k, x in sugar.items():
            want[k] = want.get(k, 0) + scale * x
        for k, x in base.items():
            want[k] = want.get(k, 0) + fT * x
        want = {k: x for k, x in want.items() if abs(x) > 1e-14}
        got = diff(rna[c].labile_formula.atoms, dna[c].labile_formula.atoms)
        got = {k: x for k, x in got.items() if abs(x) > 1e-12}
        R.ok(2, ("rna-dna", c))
        if not nat.maps_close(got, want, 1e-9):
            R.violation("code_tables:rna_dna_atoms:%s" % c,
                        "rna and dna residues differ by something else than ribose-deoxyribose (and uracil-thymine for the T share)",
                        {"kind": "code", "type": "rna", "code": c}, _names(got), _names(want))
        wv = scale * sugar_V + fT * base_V
        if not close(rna[c].cell_volume - dna[c].cell_volume, wv, 1e-9, 1e-9):
            R.violation("code_tables:rna_dna_volume:%s" % c,
                        "rna and dna cell volumes differ by something else than the sugar (and base) volume difference",
                        {"kind": "code", "type": "rna", "code": c}, rna[c].cell_volume - dna[c].cell_volume, wv)
    # nucleotide = phosphate + sugar + base (component literals), informational cross-check of the base literals
    comp = {"A": "adenine", "G": "guanine", "C": "cytosine"}
    for t, sug, tbase in (("rna", "ribose", "uracil"), ("dna", "deoxyribose", "thymine")):
        for c in "ACGT":
            b = comp.get(c, tbase)
            a, V, _q = _avg([(K["phosphate"]["atoms"], K["phosphate"]["V"], 0), (K[sug]["atoms"], K[sug]["V"], 0),
                             (K[b]["atoms"], K[b]["V"], 0)])
            a = {k: 3 * x for k, x in a.items()}
            R.ok(1)
            if not nat.maps_close(a, O["bases"][t][c]["atoms"], 1e-12) or not close(3 * V, O["bases"][t][c]["V"], 1e-12):
                R.notes.append("%s base %s literal is not phosphate+%s+%s of NUCLEIC_ACID_COMPONENTS" % (t, c, sug, b))
    missing_code = [t + ":" + c for t in TYPES for c, m in sorted(fasta.CODE_TABLES[t].items())
                    if (t != "aa" or O[t].get(c, {}).get("of") is None) and getattr(m, "code", None) != c]
    if missing_code:
        R.notes.append("entries without a matching .code attribute (not part of the property; the nucleotide builder sets "
                       "rna.code twice and dna.code never): " + " ".join(missing_code))
    return R.done()


# ----------------------------------------------------------------------------- task 2: additivity
def _expected_seq(t, cleaned):
    """sum over residue codes of (atoms, V, q) from the source literals; left-to-right float sums"""
    O = _oracle()[t]
    atoms, V, q = {}, 0.0, 0.0
    for c in cleaned:
        e = O[c]
        for k, x in e["atoms"].items():
            atoms[k] = atoms.get(k, 0) + x
        V += e["V"]
        q += e["q"]
    return atoms, V, q


def _hill_order_ok(structure):
    """C first, then H (H, then its isotopes / D / T), then the rest alphabetically -- only the ORDER
    of distinct atoms is read here; used to compare two structures, not as an oracle for C19"""
    return [nat.atom_name(a) for _n, a in structure]


def _check_sequence(R, t, raw, perm=None, task="additivity", rtol=1e-9):
    """all clauses of the property for Sequence(name, raw, type=t); `perm` is a permutation of the
    cleaned residue string whose results must coincide.  Returns obligations evaluated."""
    import periodictable
    from periodictable import fasta
    inp = {"kind": "seq", "type": t, "raw": raw, "perm": perm}
    hid = "%s:%s" % (t, _hid(t, raw))
    n = 0
    cleaned = _clean(raw)
    want_atoms, want_V, want_q = _expected_seq(t, cleaned)
    try:
        s = fasta.Sequence("name", raw, type=t)
    except Exception as e:
        R.violation("%s:exception:%s" % (task, hid), "Sequence() raised on a string over the code table (spaces, '*'+junk allowed)",
                    inp, _exc(e), "no exception")
        return 1
    n += 1
    if s.sequence != cleaned:
        R.violation("%s:sequence:%s" % (task, hid), "spaces must be ignored and everything after the first '*' dropped",
                    inp, s.sequence[:200], cleaned[:200])
    got = s.labile_formula.atoms
    n += 1
    if not nat.maps_close(got, want_atoms, rtol):
        R.violation("%s:atoms:%s" % (task, hid), "labile_formula atoms are not the sum of the residue atoms", inp,
                    _names(got), _names(want_atoms))
    n += 1
    if not close(s.cell_volume, want_V, rtol, 0.0):
        R.violation("%s:cell_volume:%s" % (task, hid), "cell volume is not the sum of the residue cell volumes", inp, s.cell_volume, want_V)
    n += 1
    if not close(s.charge, want_q, rtol, 1e-9):
        R.violation("%s:charge:%s" % (task, hid), "charge is not the sum of the residue charges", inp, s.charge, want_q)
    mh, md, ml = _mass(want_atoms, "H"), _mass(want_atoms, "D"), _mass(want_atoms)
    n += 2
    if not close(s.mass, mh, rtol, 0.0):
        R.violation("%s:mass:%s" % (task, hid), "mass is not the mass of the summed formula with H[1]->H", inp, s.mass, mh)
    if not close(s.Dmass, md, rtol, 0.0):
        R.violation("%s:Dmass:%s" % (task, hid), "Dmass is not the mass of the summed formula with H[1]->D", inp, s.Dmass, md)
    nat_atoms = s.natural_formula.atoms
    H1 = periodictable.elements.H[1]
    wn = dict(want_atoms)
    if H1 in wn:
        wn[periodictable.elements.H] = wn.get(periodictable.elements.H, 0) + wn.pop(H1)
    n += 1
    if not nat.maps_close(nat_atoms, wn, rtol):
        R.violation("%s:natural_formula:%s" % (task, hid), "natural_formula is not the summed formula with H[1]->H", inp,
                    _names(nat_atoms), _names(wn))
    n += 2
    if want_V > 0:
        dl, dn = _density(ml, want_V), _density(mh, want_V)
        if not close(s.labile_formula.density, dl, rtol):
            R.violation("%s:density_labile:%s" % (task, hid), "labile_formula.density is not 1e24*m(labile formula)/N_A/cell_volume",
                        inp, s.labile_formula.density, dl)
        if not close(s.natural_formula.density, dn, rtol):
            R.violation("%s:density_natural:%s" % (task, hid), "natural_formula.density is not 1e24*mass/N_A/cell_volume",
                        inp, s.natural_formula.density, dn)
    else:
        # mass 0 over volume 0: Molecule defines the density as 0; anything but 0/None/nan is a failure
        for nm, f in (("labile", s.labile_formula), ("natural", s.natural_formula)):
            d = f.density
            if not (d is None or d == 0 or d != d):
                R.violation("%s:density_%s:%s" % (task, nm, hid), "empty cell (volume 0, mass 0) has a finite non-zero density", inp, d, 0)
    # formula prefixes
    n += 1
    try:
        f = periodictable.formula("%s:%s" % (t, raw))
        fa = f.atoms
        if not nat.maps_close(fa, want_atoms, rtol) or not nat.maps_close(fa, got, 0.0):
            R.violation("%s:prefix_atoms:%s" % (task, hid), "formula('%s:SEQ') does not have the atoms of Sequence(SEQ).labile_formula" % t,
                        inp, _names(fa), _names(got))
        n += 1
        if not (f.density == s.labile_formula.density or close(f.density, s.labile_formula.density, 1e-12)):
            R.violation("%s:prefix_density:%s" % (task, hid), "formula('%s:SEQ') does not have the density of Sequence(SEQ).labile_formula" % t,
                        inp, f.density, s.labile_formula.density)
        n += 1
        if _hill_order_ok(f.structure) != _hill_order_ok(s.labile_formula.structure):
            R.violation("%s:prefix_structure:%s" % (task, hid), "formula('%s:SEQ') is structured differently from Sequence(SEQ).labile_formula" % t,
                        inp, _hill_order_ok(f.structure), _hill_order_ok(s.labile_formula.structure))
    except Exception as e:
        R.violation("%s:prefix_exception:%s" % (task, hid), "formula('%s:SEQ') raised on a string over the code table" % t, inp, _exc(e), "no exception")
    # order independence
    if perm is not None:
        try:
            p = fasta.Sequence("name", perm, type=t)
        except Exception as e:
            R.violation("%s:perm_exception:%s" % (task, hid), "Sequence() raised on a permutation of an accepted sequence", inp, _exc(e), "no exception")
            return n + 1
        n += 6
        pa = p.labile_formula.atoms
        if not nat.maps_close(pa, got, rtol):
            R.violation("%s:perm_atoms:%s" % (task, hid), "formula depends on the residue order", inp, _names(pa), _names(got))
        for nm in ("cell_volume", "charge", "mass", "Dmass"):
            if not close(getattr(p, nm), getattr(s, nm), rtol, 1e-9 if nm == "charge" else 0.0):
                R.violation("%s:perm_%s:%s" % (task, nm, hid), "%s depends on the residue order" % nm, inp, getattr(p, nm), getattr(s, nm))
        st1, st2 = list(s.labile_formula.structure), list(p.labile_formula.structure)
        same = len(st1) == len(st2) and all(a1 is a2 and close(c1, c2, rtol) for (c1, a1), (c2, a2) in zip(st1, st2))
        if not same:
            R.violation("%s:perm_structure:%s" % (task, hid), "the Hill-ordered formula of a permuted sequence is structured differently",
                        inp, [[c, nat.atom_name(a)] for c, a in st2], [[c, nat.atom_name(a)] for c, a in st1])
        if want_V > 0 and not close(p.labile_formula.density, s.labile_formula.density, rtol):
            R.violation("%s:perm_density:%s" % (task, hid), "density depends on the residue order", inp,
                        p.labile_formula.density, s.labile_formula.density)
    return n


_JUNK = "abcxyz0123456789*:;#@!?. \tACGTUXN-"


def _random_raw(rng, codes, length, ambiguity):
    """(raw, cleaned-length) : random residues, random embedded spaces, optional '*'+junk"""
    pool = codes if ambiguity else [c for c in codes]
    body = [rng.choice(pool) for _ in range(length)]
    out = []
    p_space = rng.choice([0.0, 0.0, 0.05, 0.3])
    for c in body:
        while rng.random() < p_space:
            out.append(" ")
        out.append(c)
    if rng.random() < 0.3:
        out.append(" " * rng.randint(1, 3))
    raw = "".join(out)
    if rng.random() < 0.4:
        raw += "*" + "".join(rng.choice(_JUNK) for _ in range(rng.randint(0, 12)))
    if rng.random() < 0.1:
        raw = " " + raw
    return raw


def task_additivity(tier, seed, arg):
    from periodictable import fasta
    rng = random.Random(seed)
    n_seq = 300 if tier == "quick" else 20000
    n_long = 1 if tier == "quick" else 4
    R = Result("seeded random strings over the keys of each code table (all residue and ambiguity codes incl. gap/masked), "
               "%d strings of length 0..200 split evenly over aa/dna/rna plus %d of length 5000 per type plus fixed edge cases "
               "('', ' ', '*', '*junk', gap-only, every single code, every code x200); random embedded spaces and, in 40%%, a '*' "
               "followed by junk (letters, digits, '*', ':', tab ...).  Expected values: residue atoms/volume/charge from the "
               "literals in fasta.py (ast), summed here; mass = sum count*atomic mass with H[1]->H, Dmass with H[1]->D; density as "
               "Molecule.__init__ defines it: labile_formula.density = 1e24*(mass of the LABILE formula, H[1] isotope mass)/N_A/"
               "cell_volume, natural_formula.density = 1e24*(mass, H[1]->H)/N_A/cell_volume (the replace() rescaling), 0 when the "
               "cell volume is 0; each string is also re-evaluated on a seeded permutation of its residues (atoms, volume, charge, "
               "masses, density, and the Hill structure atom-for-atom) and through formula('aa:'/'dna:'/'rna:' + raw).  rel 1e-9. "
               "distinct = distinct (type, cleaned residue string) of length >= 1; bounded sample" % (n_seq, n_long))
    cases = []
    for t in TYPES:
        codes = sorted(fasta.CODE_TABLES[t])
        O = _oracle()[t]
        amb = [c for c in codes if O.get(c, {}).get("of") is not None]
        for raw in ("", " ", "   ", "*", "*junk A", "  *A", "-", "--- -", "A*", "A *A", "A**A"):
            cases.append((t, raw))
        if t != "aa":
            cases.append((t, "XX-X"))
        for c in codes:
            cases.append((t, c))
            cases.append((t, c * 200))
        cases.append((t, "".join(codes)))
        cases.append((t, "".join(reversed(codes))))
        if amb:
            cases.append((t, "".join(amb) * 7))
        for i in range(n_seq // 3):
            L = rng.choice([0, 1, 2, 3, rng.randint(0, 20), rng.randint(0, 200), rng.randint(0, 200)])
            sub = codes if rng.random() < 0.7 else rng.sample(codes, rng.randint(1, min(4, len(codes))))
            cases.append((t, _random_raw(rng, sub, L, True)))
        for i in range(n_long):
            cases.append((t, _random_raw(rng, codes, 5000, True)))
    for t, raw in cases:
        cl = list(_clean(raw))
        rng.shuffle(cl)
        perm = "".join(cl)
        n = _check_sequence(R, t, raw, perm)
        R.ok(n, (t, _clean(raw)) if _clean(raw) else None)
        if len(raw) < 60 and "*" in raw and " " in raw and len(_clean(raw)) > 3:
            R.sample({"type": t, "raw": raw, "cleaned": _clean(raw), "perm": perm})
    return R.done()


# ----------------------------------------------------------------------------- task 3: FASTA files
EXT_TYPE = {".fna": "dna", ".ffn": "dna", ".faa": "aa", ".frn": "rna"}
OTHER_NAMES = ["seq.fasta", "seq.fa", "seq.txt", "seq", "seq.FNA", "seq.fna.txt", "seqfna", "seq.frn.bak", "seq.fas", "fna"]


def _expected_type(filename, explicit):
    """statement: typed by the file extension (.fna/.ffn dna, .faa aa, .frn rna, anything else aa); explicit type= wins"""
    if explicit is not None:
        return explicit
    return EXT_TYPE.get(os.path.splitext(filename)[1], "aa")


def _expected_records(text):
    """one record per line starting with '>': (header line, concatenation of the following lines),
    line ends and trailing blanks/tabs removed; lines before the first header belong to no record"""
    records = []
    cur = None
    for line in text.replace("\r\n", "\n").split("\n"):
        line = line.rstrip(" \t\r")
        if line.startswith(">"):
            cur = [line, []]
            records.append(cur)
        elif cur is not None:
            cur[1].append(line)
    return [(h, "".join(ls)) for h, ls in records]


def _random_fasta(rng, t):
    """text of a FASTA file whose sequences are strings over the code table of type t"""
    from periodictable import fasta
    codes = sorted(fasta.CODE_TABLES[t])
    eol_mode = rng.choice(["\n", "\n", "\r\n", "mixed"])

    def eol():
        return rng.choice(["\n", "\r\n"]) if eol_mode == "mixed" else eol_mode

    def trail():
        return rng.choice(["", "", "", " ", "   ", "\t", " \t "])
    lines = []
    if rng.random() < 0.3:
        for _ in range(rng.randint(1, 3)):
            lines.append(rng.choice(["", "junk before any header", "ACGT", "; comment", "  "]))
    nrec = rng.choice([0, 1, 1, 2, 3, 4, 5, 6])
    for r in range(nrec):
        kind = rng.random()
        if kind < 0.2:
            head = ">"
        elif kind < 0.5:
            head = ">seq%d" % r
        else:
            head = ">sp|P%05d|NAME_%d some description text, len=%d" % (rng.randint(0, 99999), r, rng.randint(0, 999))
        lines.append(head + trail())
        if rng.random() < 0.25:
            lines.append("")
        if rng.random() < 0.08:
            continue                       # header directly followed by the next header / end of file
        L = rng.choice([1, 5, rng.randint(1, 60), rng.randint(1, 300)])
        seq = "".join(rng.choice(codes) for _ in range(L))
        if rng.random() < 0.25:
            seq += "*"
        nlines = rng.randint(1, 5)
        cuts = sorted(rng.randint(0, len(seq)) for _ in range(nlines - 1))
        parts = [seq[a:b] for a, b in zip([0] + cuts, cuts + [len(seq)])]
        for p in parts:
            if rng.random() < 0.15 and len(p) > 4:
                p = p[:len(p) // 2] + " " + p[len(p) // 2:]      # blocked layout: interior space
            lines.append(p + trail())
            if rng.random() < 0.1:
                lines.append("")
        if rng.random() < 0.2:
            lines.append("")
    text = "".join(l + eol() for l in lines)
    if lines and rng.random() < 0.3:
        text = text.rstrip("\r\n")                                 # no newline at end of file
    return text


def _check_loaded(R, key, inp, s, header, seqtext, t, which):
    """a loaded Sequence against the record it must come from, under the expected type"""
    n = 2
    if s.name != header:
        R.violation("fasta_files:%s_name:%s" % (which, key), "%s: record name is not the header line" % which, inp, s.name, header)
    cleaned = _clean(seqtext)
    if s.sequence != cleaned:
        R.violation("fasta_files:%s_sequence:%s" % (which, key), "%s: sequence is not the concatenation of the lines after the header" % which,
                    inp, s.sequence[:200], cleaned[:200])
    try:
        atoms, V, q = _expected_seq(t, cleaned)
    except KeyError:
        return n
    n += 3
    if not nat.maps_close(s.labile_formula.atoms, atoms, 1e-9) or not close(s.cell_volume, V, 1e-9) or not close(s.charge, q, 1e-9, 1e-9):
        # say which type would have explained the observation
        seen = None
        for t2 in TYPES:
            try:
                a2, V2, q2 = _expected_seq(t2, cleaned)
            except KeyError:
                continue
            if nat.maps_close(s.labile_formula.atoms, a2, 1e-9) and close(s.cell_volume, V2, 1e-9):
                seen = t2
        R.violation("fasta_files:%s_type:%s" % (which, key),
                    "%s: the sequence is not evaluated with the code table of the type given by the extension / explicit type=" % which,
                    inp, {"matches_type": seen, "cell_volume": s.cell_volume, "atoms": _names(s.labile_formula.atoms)},
                    {"type": t, "cell_volume": V, "atoms": _names(atoms)})
    return n


def _check_fasta(R, tmpdir, text, filename, explicit, notes=None):
    from periodictable import fasta
    inp = {"kind": "fasta", "text": text, "filename": filename, "type": explicit}
    key = _hid(text, filename, explicit)
    want = _expected_records(text)
    t = _expected_type(filename, explicit)
    n = 0
    # read_fasta on a text stream without newline translation (lines keep their '\r\n')
    for label, opener in (("stringio", lambda: io.StringIO(text, newline="")), ("file", None)):
        path = os.path.join(tmpdir, filename)
        if opener is None:
            with open(path, "wb") as fh:
                fh.write(text.encode("ascii"))
            opener = lambda: open(path, "rt")
        n += 1
        try:
            with opener() as fh:
                got = [tuple(r) for r in fasta.read_fasta(fh)]
        except Exception as e:
            R.violation("fasta_files:read_exception:%s:%s" % (label, key), "read_fasta raised on a well-formed FASTA text", inp, _exc(e), "no exception")
            continue
        if got != want:
            R.violation("fasta_files:records:%s:%s" % (label, key),
                        "read_fasta does not yield exactly one (header line, concatenated following lines) per '>' header, in order",
                        inp, got[:8], want[:8])
    path = os.path.join(tmpdir, filename)
    kw = {} if explicit is None else {"type": explicit}
    # loadall
    n += 1
    try:
        seqs = list(fasta.Sequence.loadall(path, **kw))
    except Exception as e:
        seqs = None
        R.violation("fasta_files:loadall_exception:%s" % key, "Sequence.loadall raised on a well-formed FASTA file", inp, _exc(e), "no exception")
    if seqs is not None:
        if len(seqs) != len(want):
            R.violation("fasta_files:loadall_count:%s" % key, "Sequence.loadall does not give one Sequence per '>' header", inp, len(seqs), len(want))
        for i, (s, (h, q)) in enumerate(zip(seqs, want)):
            n += _check_loaded(R, key + ":%d" % i, inp, s, h, q, t, "loadall")
    # load
    n += 1
    try:
        s = fasta.Sequence.load(path, **kw)
    except Exception as e:
        if want:
            R.violation("fasta_files:load_exception:%s" % key, "Sequence.load raised on a file that has a first record", inp, _exc(e), "no exception")
        elif notes is not None:
            notes[type(e).__name__] = notes.get(type(e).__name__, 0) + 1
    else:
        if not want:
            R.violation("fasta_files:load_phantom:%s" % key, "Sequence.load returned a sequence from a file without any '>' header", inp,
                        [s.name, s.sequence[:100]], "no record")
        else:
            n += _check_loaded(R, key, inp, s, want[0][0], want[0][1], t, "load")
    try:
        os.remove(path)
    except OSError:
        pass
    return n, len(want)


def _mkdtemp():
    os.makedirs("/var/tmp", exist_ok=True)
    return tempfile.mkdtemp(prefix="c18_", dir="/var/tmp")


def task_fasta_files(tier, seed, arg):
    rng = random.Random(seed)
    n_files = 200 if tier == "quick" else 5000
    R = Result("%d seeded FASTA texts written under /var/tmp (removed afterwards): 0..6 records; headers '>' alone, '>id', '>id text'; "
               "blank lines; text before the first header; a header directly followed by the next one; sequences over the expected "
               "type's code table split over 1..5 lines with interior blanks, optional final '*', trailing blanks/tabs, LF / CRLF / "
               "mixed line ends, with and without final newline; file names with .fna .ffn .faa .frn and %r; explicit type= in "
               "30%% of the files (often contradicting the extension).  Expected records by a line reader written here (header line "
               "= line starting with '>' without line end/trailing blanks, sequence = concatenation of the following lines); "
               "read_fasta on io.StringIO(newline='') and on the opened file; Sequence.loadall all records, Sequence.load the first; "
               "type checked by comparing atoms/volume/charge with the sums over the expected type's literals (rel 1e-9). "
               "distinct = distinct (file name class, explicit type, #records, line-end mode) ; bounded sample"
               % (n_files, OTHER_NAMES))
    tmp = _mkdtemp()
    load_empty = {}
    try:
        fixed = [("", "empty.faa", None), ("\n\n", "blank.fna", None), ("no header at all\nACGT\n", "nohdr.fna", None),
                 (">\n", "bare.faa", None), (">", "bare2.frn", None), (">\nACGU\n>\n>\nGG", "bares.frn", None),
                 ("ACGT\n>h\nAC\nGT\n", "pre.fna", None), (">h\r\nAC  \r\n\r\nGU\t\r\n", "crlf.frn", None),
                 (">h\nACDEFGHIKLMNPQRSTVWY*\n", "star.faa", None), (">h\nACGT\n", "x.ffn", None),
                 (">h\nACGT\n", "x.faa", "dna"), (">h\nACGU\n", "x.fna", "rna"), (">h\nACDE\n", "x.fna", "aa")]
        todo = list(fixed)
        for i in range(n_files):
            if rng.random() < 0.6:
                ext = rng.choice(sorted(EXT_TYPE))
                filename = rng.choice(["s", "my seq", "a.b", "x.fna"]) + ext
            else:
                filename = rng.choice(OTHER_NAMES)
            explicit = rng.choice(TYPES) if rng.random() < 0.3 else None
            t = _expected_type(filename, explicit)
            todo.append((_random_fasta(rng, t), filename, explicit))
        for text, filename, explicit in todo:
            n, nrec = _check_fasta(R, tmp, text, filename, explicit, load_empty)
            ext = os.path.splitext(filename)[1]
            R.ok(n, (ext if ext in EXT_TYPE else "other:" + filename, explicit, nrec,
                     "crlf" if "\r\n" in text else "lf"))
            if 0 < len(text) < 120 and nrec >= 2:
                R.sample({"filename": filename, "type": explicit, "text": text, "expected_type": _expected_type(filename, explicit),
                          "records": _expected_records(text)})
    finally:
        shutil.rmtree(tmp, ignore_errors=True)
    if load_empty:
        R.notes.append("Sequence.load on a file without any '>' header (no first record exists; outside the statement) raises: %r" % load_empty)
    R.notes.append("the record name is the whole header line including '>', so it is never empty: the `if name:` guard in read_fasta "
                   "cannot drop a record that has a header; an empty name is not reachable through read_fasta")
    return R.done()


# ----------------------------------------------------------------------------- replay
def task_replay(tier, seed, arg):
    arg = arg or {}
    inp = arg.get("input")
    R = Result("replay of one recorded input (kind code / seq / fasta) through the same checks as the task that found it")
    if not isinstance(inp, dict) or "kind" not in inp:
        R.notes.append("no replayable input given (need {'input': {'kind': 'code'|'seq'|'fasta', ...}})")
        return R.done()
    if inp["kind"] == "code":
        if inp.get("code") is None:
            r = task_code_tables(tier, seed, None)
            return r
        R.ok(_check_code(R, inp["type"], inp["code"]), (inp["type"], inp["code"]))
        # set-level clauses (ambiguity set, T/U, rna-dna differences) live in the full table task
        full = task_code_tables(tier, seed, None)
        suffix = ":%s" % inp["code"]
        for v in full["violations"]:
            if v["key"].endswith(suffix) and not any(w["key"] == v["key"] for w in R.violations):
                R.violations.append(v)
                R.nviol += 1
    elif inp["kind"] == "seq":
        R.ok(_check_sequence(R, inp["type"], inp["raw"], inp.get("perm")), (inp["type"], _clean(inp["raw"])))
    elif inp["kind"] == "fasta":
        tmp = _mkdtemp()
        try:
            notes = {}
            n, nrec = _check_fasta(R, tmp, inp["text"], inp["filename"], inp.get("type"), notes)
            R.ok(n, (inp["filename"], nrec))
            if notes:
                R.notes.append("Sequence.load on a file without header raises %r" % notes)
        finally:
            shutil.rmtree(tmp, ignore_errors=True)
    else:
        R.notes.append("unknown input kind %r" % inp["kind"])
    key = arg.get("key")
    if key:
        R.notes.append("recorded key %s %s" % (key, "reproduced" if any(v["key"] == key for v in R.violations) else "NOT reproduced"))
    return R.done()
