"""C18 native side: biomolecule sequences are the sum of their residues.

Oracle: the residue definitions are re-read from the SOURCE TEXT of periodictable/fasta.py with `ast`
(literal arguments of the `_()` table builders and of `_set_amino_acid_average`) and `tokenize`
(the `#B: D or N` comments); sums, averages, masses and densities are computed here from atom masses.
Nothing is expected by calling Sequence/_code_average/read_fasta or a helper they use.
"""
import ast
import hashlib
import io
import os
import random
import re
import shutil
import tempfile
import tokenize

from . import nat
from .nat import close, Result

TYPES = ("aa", "dna", "rna")

# IUPAC nucleotide classes (documented meaning of the class names used in fasta.py: purine, pyrimidine,
# ketone, amino, strong, weak, not A/C/G/T, any base); T stands for T in dna and for U in rna.
IUPAC = {"A": "A", "C": "C", "G": "G", "T": "T", "U": "T",
         "R": "AG", "Y": "CT", "K": "GT", "M": "AC", "S": "CG", "W": "AT",
         "B": "CGT", "D": "AGT", "H": "ACT", "V": "ACG", "N": "ACGT", "X": "", "-": ""}
TABLE_OF_TYPE = {"aa": "AMINO_ACID_CODES", "dna": "DNA_CODES", "rna": "RNA_CODES"}


# ----------------------------------------------------------------------------- source reader
def _source_path():
    import importlib.util
    return importlib.util.find_spec("periodictable.fasta").origin


def _read_literals():
    """{'tables': {target-name(s): [row dict by parameter name of the builder `_`]},
        'averages': [(target, codes, name)], 'code_tables': {type: table name}, 'comments': {code: text}}"""
    path = _source_path()
    with open(path, "rb") as fh:
        raw = fh.read()
    tree = ast.parse(raw)
    params = None
    tables, averages, code_tables = {}, [], {}
    for node in tree.body:
        if isinstance(node, ast.FunctionDef) and node.name == "_":
            params = [a.arg for a in node.args.args]
        elif isinstance(node, ast.Assign):
            names = []
            for t in node.targets:
                if isinstance(t, ast.Name):
                    names.append(t.id)
                elif isinstance(t, (ast.Tuple, ast.List)):
                    names += [e.id for e in t.elts if isinstance(e, ast.Name)]
            if names == ["CODE_TABLES"] and isinstance(node.value, ast.Dict):
                for k, v in zip(node.value.keys, node.value.values):
                    code_tables[k.value] = v.id
                continue
            rows = []
            for sub in ast.walk(node.value):
                if (isinstance(sub, ast.Call) and isinstance(sub.func, ast.Name) and sub.func.id == "_"
                        and sub.args and all(isinstance(a, ast.Constant) for a in sub.args)):
                    rows.append((sub.lineno, sub.col_offset, dict(zip(params, [a.value for a in sub.args]))))
            if rows:
                rows.sort(key=lambda r: r[:2])
                tables[",".join(names)] = [r[2] for r in rows]
        elif isinstance(node, ast.Expr) and isinstance(node.value, ast.Call):
            c = node.value
            if isinstance(c.func, ast.Name) and c.func.id == "_set_amino_acid_average":
                kw = {k.arg: k.value.value for k in c.keywords}
                averages.append((c.args[0].value, c.args[1].value, kw.get("name")))
    comments = {}
    for tok in tokenize.tokenize(io.BytesIO(raw).readline):
        if tok.type == tokenize.COMMENT:
            m = re.match(r"^#\s*([A-Z\-]):\s*(.+?)\s*$", tok.string)
            if m and m.group(1) not in comments:
                comments[m.group(1)] = m.group(2)
    return {"tables": tables, "averages": averages, "code_tables": code_tables, "comments": comments}


def _split_charge(text):
    """documented literal format: a trailing '-' / '+' on the formula text is a unit charge"""
    if text.endswith("-"):
        return text[:-1], -1
    if text.endswith("+"):
        return text[:-1], +1
    return text, 0


def _atoms_of(text):
    import periodictable
    return dict(periodictable.formula(text).atoms) if text else {}


def _avg(entries):
    """equal-weight average of (atoms, V, q) entries; the empty set gives the empty residue"""
    n = len(entries)
    atoms, V, q = {}, 0.0, 0.0
    for a, v, c in entries:
        for k, x in a.items():
            atoms[k] = atoms.get(k, 0) + x
        V += v
        q += c
    if n:
        atoms = {k: x / n for k, x in atoms.items()}
        V, q = V / n, q / n
    return atoms, V, q


_ORACLE = None


def _oracle():
    """{'aa'|'dna'|'rna': {code: {'atoms','V','q','of','text'}}}, plus 'lit' (the raw literals)"""
    global _ORACLE
    if _ORACLE is not None:
        return _ORACLE
    lit = _read_literals()
    T = lit["tables"]
    out = {"lit": lit, "aa": {}, "dna": {}, "rna": {}, "bases": {"dna": {}, "rna": {}}, "components": {}}
    for row in T["AMINO_ACID_CODES"]:
        text, q = _split_charge(row["formula"])
        out["aa"][row["code"]] = {"atoms": _atoms_of(text), "V": row["V"], "q": q, "of": None,
                                  "text": row["formula"], "name": row["name"]}
    for target, codes, name in lit["averages"]:
        a, V, q = _avg([(out["aa"][c]["atoms"], out["aa"][c]["V"], out["aa"][c]["q"]) for c in codes])
        out["aa"][target] = {"atoms": a, "V": V, "q": q, "of": codes, "text": None, "name": name}
    for row in T["NUCLEIC_ACID_COMPONENTS"]:
        out["components"][row["name"]] = {"atoms": _atoms_of(row["formula"]), "V": row["V"], "text": row["formula"]}
    for t, nm in (("rna", "RNA_BASES"), ("dna", "DNA_BASES")):
        for row in T[nm]:
            out["bases"][t][row["code"]] = {"atoms": _atoms_of(row["formula"]), "V": row["V"], "q": 0,
                                            "text": row["formula"], "name": row["name"]}
    for row in T["RNA_CODES,DNA_CODES"]:
        for t in ("rna", "dna"):
            B = out["bases"][t]
            a, V, q = _avg([(B[c]["atoms"], B[c]["V"], B[c]["q"]) for c in row["bases"]])
            out[t][row["code"]] = {"atoms": a, "V": V, "q": q, "of": row["bases"], "text": None, "name": row["name"]}
    _ORACLE = out
    return out


# ----------------------------------------------------------------------------- small helpers
def _names(atoms):
    return {nat.atom_name(a): n for a, n in sorted(atoms.items(), key=lambda kv: nat.atom_name(kv[0]))}


def _mass(atoms, sub=None):
    """sum count*atomic mass; sub='H'/'D' replaces the labile H[1] by natural H / by D"""
    import periodictable
    el = periodictable.elements
    H1 = el.H[1]
    rep = {"H": el.H, "D": el.D}.get(sub)
    m = 0.0
    for a, n in atoms.items():
        if rep is not None and a is H1:
            a = rep
        m += n * a.mass
    return m


def _density(mass, V):
    import periodictable.constants as K
    return 1e24 * (mass / K.avogadro_number) / V


def _hid(*parts):
    return hashlib.sha1("\x1f".join(str(p) for p in parts).encode()).hexdigest()[:12]


def _clean(raw):
    """independent reading of the statement: drop everything from the first '*', ignore spaces"""
    out = []
    for ch in raw:
        if ch == "*":
            break
        if ch != " ":
            out.append(ch)
    return "".join(out)


def _exc(e):
    return "%s: %s" % (type(e).__name__, str(e)[:200])


# ----------------------------------------------------------------------------- task 1: code tables
def _check_code(R, t, code):
    """one table entry against the literals; returns number of obligations evaluated"""
    from periodictable import fasta
    O = _oracle()
    want = O[t].get(code)
    table = fasta.CODE_TABLES[t]
    inp = {"kind": "code", "type": t, "code": code}
    n = 0
    if want is None:
        R.violation("code_tables:unexpected_code:%s:%s" % (t, code),
                    "table has a code for which the source has no residue definition", inp, code, None)
        return 1
    if code not in table:
        R.violation("code_tables:missing_code:%s:%s" % (t, code), "residue definition missing from the table", inp, None, code)
        return 1
    m = table[code]
    kind = "residue" if want["of"] is None or len(want["of"]) == 1 else "ambiguity"
    what_of = ("literal formula text %r" % want["text"]) if want["of"] is None else \
        ("equal-weight average of %r" % (want["of"],))
    got = m.labile_formula.atoms
    n += 1
    if not nat.maps_close(got, want["atoms"], 1e-12):
        R.violation("code_tables:atoms:%s:%s" % (t, code),
                    "%s code: labile formula atoms differ from the %s (atoms each divided by n)" % (kind, what_of),
                    inp, _names(got), _names(want["atoms"]))
    n += 1
    if not close(m.cell_volume, want["V"], 1e-12, 0.0):
        R.violation("code_tables:cell_volume:%s:%s" % (t, code),
                    "%s code: cell volume differs from the %s" % (kind, what_of), inp, m.cell_volume, want["V"])
    n += 1
    if not close(m.charge, want["q"], 1e-12, 0.0):
        R.violation("code_tables:charge:%s:%s" % (t, code),
                    "%s code: charge differs from the %s" % (kind, what_of), inp, m.charge, want["q"])
    # masses and density of the entry itself (Molecule.__init__)
    mh, md, ml = _mass(want["atoms"], "H"), _mass(want["atoms"], "D"), _mass(want["atoms"])
    n += 2
    if not close(m.mass, mh, 1e-12, 0.0):
        R.violation("code_tables:mass:%s:%s" % (t, code), "mass is not the H[1]->H mass of the residue formula", inp, m.mass, mh)
    if not close(m.Dmass, md, 1e-12, 0.0):
        R.violation("code_tables:Dmass:%s:%s" % (t, code), "Dmass is not the H[1]->D mass of the residue formula", inp, m.Dmass, md)
    if want["V"] > 0:
        n += 2
        d = _density(ml, want["V"])
        if not close(m.labile_formula.density, d, 1e-12):
            R.violation("code_tables:density_labile:%s:%s" % (t, code),
                        "labile_formula.density is not 1e24*mass(labile formula)/N_A/cell_volume", inp, m.labile_formula.density, d)
        d = _density(mh, want["V"])
        if not close(m.natural_formula.density, d, 1e-12):
            R.violation("code_tables:density_natural:%s:%s" % (t, code),
                        "natural_formula.density is not 1e24*mass/N_A/cell_volume", inp, m.natural_formula.density, d)
    return n


def task_code_tables(tier, seed, arg):
    from periodictable import fasta
    R = Result("every code of AMINO_ACID_CODES, DNA_CODES, RNA_CODES (CODE_TABLES) against the literal arguments of the "
               "table builders re-read from fasta.py with ast: atoms of the literal formula text (trailing +/- = unit "
               "charge), cell volume, charge, mass/Dmass/density; ambiguity codes = (1/n)*sum over the residues named by the "
               "source literal, the source literal cross-checked against the '#B: D or N' comments and the IUPAC nucleotide "
               "classes; rna-dna differences against the NUCLEIC_ACID_COMPONENTS literals (ribose/deoxyribose, uracil/thymine); "
               "tolerance 1e-12; distinct = (table, code) pairs; finite space enumerated completely", exhaustive=True)
    O = _oracle()
    lit = O["lit"]
    # CODE_TABLES maps the three type names to the three tables
    for t in TYPES:
        R.ok(1)
        if lit["code_tables"].get(t) != TABLE_OF_TYPE[t] or fasta.CODE_TABLES.get(t) is not getattr(fasta, TABLE_OF_TYPE[t]):
            R.violation("code_tables:dispatch:%s" % t, "CODE_TABLES does not map the type to its table", {"kind": "code", "type": t, "code": None},
                        lit["code_tables"].get(t), TABLE_OF_TYPE[t])
    if set(fasta.CODE_TABLES) != set(TYPES):
        R.violation("code_tables:dispatch:keys", "CODE_TABLES has other sequence types than aa/dna/rna", None,
                    sorted(fasta.CODE_TABLES), list(TYPES))
    for t in TYPES:
        codes = sorted(set(O[t]) | set(fasta.CODE_TABLES[t]))
        for c in codes:
            n = _check_code(R, t, c)
            R.ok(n, (t, c))
            if len(R.samples) < 5 and c in O[t] and c in ("B", "X", "K", "N"):
                m = fasta.CODE_TABLES[t].get(c)
                R.sample({"type": t, "code": c, "of": O[t][c]["of"], "atoms": _names(m.labile_formula.atoms),
                          "cell_volume": m.cell_volume, "charge": m.charge})
    # which residues an ambiguity code stands for: source literal vs the documentation
    direct = sorted(c for c, e in O["aa"].items() if e["of"] is None)
    doc = lit["comments"]
    for c, e in sorted(O["aa"].items()):
        if e["of"] is None:
            continue
        text = doc.get(c)
        want = None
        if text:
            m = re.match(r"^([A-Z]) or ([A-Z])$", text)
            if m:
                want = set(m.groups())
            elif text == "any":
                want = set(direct)
            elif text == "gap":
                want = set()
        R.ok(1)
        if want is None:
            R.notes.append("aa code %s: no parsable '#%s: ...' comment (%r); literal set %r taken as given" % (c, c, text, e["of"]))
        elif want != set(e["of"]) or len(set(e["of"])) != len(e["of"]):
            R.violation("code_tables:ambiguity_set:aa:%s" % c,
                        "the residues averaged for the ambiguity code are not the ones the documentation comment names",
                        {"kind": "code", "type": "aa", "code": c}, e["of"], sorted(want))
    for t in ("dna", "rna"):
        for c, e in sorted(O[t].items()):
            R.ok(1)
            want = IUPAC.get(c)
            if want is None or set(want) != set(e["of"]) or len(set(e["of"])) != len(e["of"]):
                R.violation("code_tables:ambiguity_set:%s:%s" % (t, c),
                            "the nucleotides averaged for the class code are not its IUPAC class", {"kind": "code", "type": t, "code": c},
                            e["of"], want)
    # T<->U handling and sugar/base differences between the rna and dna tables
    for t in ("dna", "rna"):
        tab = fasta.CODE_TABLES[t]
        R.ok(1)
        if not (nat.maps_close(tab["T"].labile_formula.atoms, tab["U"].labile_formula.atoms, 0.0)
                and tab["T"].cell_volume == tab["U"].cell_volume and tab["T"].charge == tab["U"].charge):
            R.violation("code_tables:TU:%s" % t, "%s files must treat T and U as the same residue" % t,
                        {"kind": "code", "type": t, "code": "U"}, _names(tab["U"].labile_formula.atoms), _names(tab["T"].labile_formula.atoms))
    K = O["components"]

    def diff(a, b):
        d = dict(a)
        for k, x in b.items():
            d[k] = d.get(k, 0) - x
        return {k: x for k, x in d.items() if x != 0}
    sugar = diff(K["ribose"]["atoms"], K["deoxyribose"]["atoms"])
    sugar_V = K["ribose"]["V"] - K["deoxyribose"]["V"]
    base = diff(K["uracil"]["atoms"], K["thymine"]["atoms"])
    base_V = K["uracil"]["V"] - K["thymine"]["V"]
    rna, dna = fasta.CODE_TABLES["rna"], fasta.CODE_TABLES["dna"]
    for c in sorted(set(rna) & set(dna)):
        of = IUPAC.get(c)
        if of is None:
            continue
        fT = (of.count("T") / len(of)) if of else 0.0
        scale = 1.0 if of else 0.0
        want = {}
        for k, x in sugar.items():
            want[k] = want.get(k, 0) + scale * x
        for k, x in base.items():
            want[k] = want.get(k, 0) + fT * x
        want = {k: x for k, x in want.items() if abs(x) > 1e-14}
        got = diff(rna[c].labile_formula.atoms, dna[c].labile_formula.atoms)
        got = {k: x for k, x in got.items() if abs(x) > 1e-12}
        R.ok(2, ("rna-dna", c))
        if not nat.maps_close(got, want, 1e-9):
            R.violation("code_tables:rna_dna_atoms:%s" % c,
                        "rna and dna residues differ by something else than ribose-deoxyribose (and uracil-thymine for the T share)",
                        {"kind": "code", "type": "rna", "code": c}, _names(got), _names(want))
        wv = scale * sugar_V + fT * base_V
        if not close(rna[c].cell_volume - dna[c].cell_volume, wv, 1e-9, 1e-9):
            R.violation("code_tables:rna_dna_volume:%s" % c,
                        "rna and dna cell volumes differ by something else than the sugar (and base) volume difference",
                        {"kind": "code", "type": "rna", "code": c}, rna[c].cell_volume - dna[c].cell_volume, wv)
    # nucleotide = phosphate + sugar + base (component literals), informational cross-check of the base literals
    comp = {"A": "adenine", "G": "guanine", "C": "cytosine"}
    for t, sug, tbase in (("rna", "ribose", "uracil"), ("dna", "deoxyribose", "thymine")):
        for c in "ACGT":
            b = comp.get(c, tbase)
            a, V, _q = _avg([(K["phosphate"]["atoms"], K["phosphate"]["V"], 0), (K[sug]["atoms"], K[sug]["V"], 0),
                             (K[b]["atoms"], K[b]["V"], 0)])
            a = {k: 3 * x for k, x in a.items()}
            R.ok(1)
            if not nat.maps_close(a, O["bases"][t][c]["atoms"], 1e-12) or not close(3 * V, O["bases"][t][c]["V"], 1e-12):
                R.notes.append("%s base %s literal is not phosphate+%s+%s of NUCLEIC_ACID_COMPONENTS" % (t, c, sug, b))
    missing_code = [t + ":" + c for t in TYPES for c, m in sorted(fasta.CODE_TABLES[t].items())
                    if O[t].get(c, {}).get("of") is None or t != "aa" if getattr(m, "code", None) != c]
    if missing_code:
        R.notes.append("entries without a matching .code attribute (not part of the property; the nucleotide builder sets "
                       "rna.code twice and dna.code never): " + " ".join(missing_code))
    return R.done()
