"""C13 (native, BOUNDED): print -> parse round trip.

Tasks
  roundtrip  formulas produced (a) by parsing generated derivations, (b) by formula arithmetic
             (f+g, n*f, f+=g), (c) by mix_by_weight / mix_by_volume and mixture strings; for each
             s = str(f) must be accepted by formula(s) and give a structure with the same nesting and
             atoms, every count equal to the count rounded to 6 significant digits;
             repr(f) == "formula('" + s + "')"; a named formula prints its name.
  replay     arg = {"input": {"structure": [[count, "atom" | [...]], ...], "table": "public"|"private",
                              "name": null}, "key": k}
"""
import re
import copy
import time
import random

from runner import ref_formula as R
from runner.c01 import tables, info, real_formula


def round6(c):
    """the count at the printed precision: 6 significant digits (correctly rounded decimal)"""
    return float("%.5e" % c)


def needs_more_than_6(c):
    return float("%.5e" % c) != float(c)


# ---------------------------------------------------------------------------------------------
# JSON form of a structure (for replay)
# ---------------------------------------------------------------------------------------------
def structure_json(struct):
    from periodictable.core import isatom
    return [[c, R.atom_name(f) if isatom(f) else structure_json(f)] for c, f in struct]


_ATOM_RE = re.compile(r"([A-Z][a-z]?)(?:\[(\d+)\])?(?:\{(\d*)([+-])\})?$")


def structure_from_json(js, table):
    out = []
    for c, f in js:
        if isinstance(f, str):
            m = _ATOM_RE.match(f)
            q = None
            if m.group(4):
                q = int(m.group(3) or "1") * (1 if m.group(4) == "+" else -1)
            out.append((c, R.lookup_atom(table, m.group(1), int(m.group(2)) if m.group(2) else None, q)))
        else:
            out.append((c, structure_from_json(f, table)))
    return out


def build(js, table, name=None):
    import periodictable
    f = periodictable.formula(structure_from_json(js, table)) if js else periodictable.formula()
    if name:
        f.name = name
    return f


# ---------------------------------------------------------------------------------------------
# the check
# ---------------------------------------------------------------------------------------------
def compare_structures(orig, back):
    """None, or (kind, path, observed, expected)"""
    from periodictable.core import isatom
    if len(orig) != len(back):
        return ("changed_structure", "length", len(back), len(orig))
    for i, ((ca, fa), (cb, fb)) in enumerate(zip(orig, back)):
        if isatom(fa) != isatom(fb):
            return ("changed_structure", "item %d" % i, str(fb), str(fa))
        if isatom(fa):
            if fa is not fb:
                return ("changed_structure", "atom %d" % i, R.atom_name(fb), R.atom_name(fa))
        else:
            r = compare_structures(fa, fb)
            if r:
                return r
        # equal as numbers: the printed decimal may be an integer literal (e.g. 73212000000000000000000) that
        # differs from the float 7.3212e22 only by the float's own representation error
        if cb != round6(ca) and abs(cb - round6(ca)) > 1e-14 * abs(round6(ca)):
            return ("changed_count", "count %d" % i, cb, round6(ca))
    return None


def _group_counts(struct):
    from periodictable.core import isatom
    for c, f in struct:
        if not isatom(f):
            yield c
            for x in _group_counts(f):
                yield x


def unparseable_cause(s, exc):
    causes = []
    if re.search(r"\d(\.\d+)?e[+-]\d+", s):
        causes.append("exponent_notation_in_count")
    if re.search(r"[DT]\[\d\]", s):
        causes.append("D_or_T_ion_printed_with_isotope_tag")
    if re.search(r"inf|nan", s):
        causes.append("non_finite_count")
    if not causes and isinstance(exc, TypeError) and "NoneType" in str(exc):
        causes.append("single_isotope_of_element_without_density")
    if not causes:
        causes.append("other_" + type(exc).__name__)
    return "+".join(causes)


def check(f, table):
    """list of (kind, cause, observed, expected) for one formula"""
    out = []
    try:
        s = str(f)
    except Exception as exc:
        return [("str_raises", type(exc).__name__, "%s: %s" % (type(exc).__name__, exc), "a string")], None
    r = repr(f)
    if r != "formula('" + s + "')":
        out.append(("repr", "repr", r, "formula('" + s + "')"))
    try:
        g = real_formula(s, table)
    except Exception as exc:
        out.append(("unparseable", unparseable_cause(s, exc),
                    "%s: %s" % (type(exc).__name__, str(exc)[:120]), "formula(%r) accepted" % s))
        return out, s
    d = compare_structures(f.structure, g.structure)
    if d:
        cause = d[1].split(" ")[0]
        if d[0] == "changed_structure" and any(c == 1 for c in _group_counts(f.structure)):
            cause = "group_count_equal_1"
        elif d[0] == "changed_structure" and any(c != 1 and "%.5e" % c == "1.00000e+00"
                                                 for c in _group_counts(f.structure)):
            cause = "group_count_prints_as_1"
        out.append((d[0], cause, dict(at=d[1], got=d[2], reparsed=str(g.structure)[:200]),
                    dict(at=d[1], want=d[3])))
    return out, s


def check_name(f, name):
    g = copy.copy(f)
    g.name = name
    out = []
    if str(g) != name:
        out.append(("name", "str", str(g), name))
    if repr(g) != "formula('" + name + "')":
        out.append(("name", "repr", repr(g), "formula('" + name + "')"))
    return out


# ---------------------------------------------------------------------------------------------
# producers
# ---------------------------------------------------------------------------------------------
EXTRA_STRINGS = ["Fe1234567", "Fe123456", "Fe1000000", "Fe999999", "Fe999999.5", "Fe0.0001", "Fe0.00001234",
                 "Fe100000.5", "Fe.000099999", "(H2O)1000000", "D{+}", "T{-}2O", "D{1+}2O", "H[2]{+}",
                 "H[3]{-}", "Fe[56]{2+}", "D2O", "TDO", "H[2]2O", "CaCO3(H2O)6", "HO ((CH2)2O)6 H",
                 "CaCO3+(3HO1.5)2", "P{5+}O{2-}4", "Na{+}Cl{1-}", "CaCO[18]3+6H2O", "Fe123456789012",
                 "Fe0.000000001", "(Fe2O3)0.000001", "U[238]{6+}0.5", "Fe1.000001", "Fe1.0000001"]

SCALES = [2, 3, 10, 0.5, 1.25, 12.5, 1e-9, 1e-6, 1e-5, 1e-4, 0.001, 1e3, 1e5, 999999, 1e6, 1234567, 1e9,
          1e12, 123456, 0.000123456, 1.0000001, 1 + 1e-9, 0.9999999, 99999.95, 2.5e-7, 3.75e8, 7,
          # "positive counts of any magnitude": far beyond the ranges in which '%g' switches notation
          1.23456e-16, 9.99999e-16, 1e-18, 3.21987e-22, 4.4e-25, 1e15, 1.5e20, 6.02214e23]


def random_scale(rng):
    r = rng.random()
    if r < 0.4:
        return rng.choice(SCALES)
    if r < 0.6:
        return rng.randint(2, 999)
    mant = rng.randint(1, 999999) if r < 0.8 else rng.random() * 9 + 1
    return mant * 10.0 ** rng.randint(-12, 9)


def produce(tier, seed):
    """yield (source, formula, table name)"""
    import periodictable
    from periodictable import mix_by_weight, mix_by_volume
    thorough = tier == "thorough"
    rng = random.Random(seed)
    tabs = tables()
    inf = info()
    classes = inf.atom_classes(full=False)
    pool = {"public": [], "private": []}

    def parsed(s, tname):
        try:
            f = real_formula(s, tabs[tname])
        except Exception:
            return None      # whether a string is accepted is C01's business
        pool[tname].append(f)
        return f

    # (a) parsing
    for s in EXTRA_STRINGS:
        for tname in ("public", "private"):
            f = parsed(s, tname)
            if f is not None:
                yield "parse", f, tname
    yield "parse", periodictable.formula(), "public"
    shapes = R.enumerate_shapes(3, 5 if thorough else 4)
    step = 1 if thorough else 2
    for i in range(0, len(shapes), step):
        ast = R.fill_shape(shapes[i], i + seed * 31, classes, density=False)
        s = R.render(ast, R.STYLES[(i * 5) % len(R.STYLES)])
        tname = "private" if i % 5 == 0 else "public"
        f = parsed(s, tname)
        if f is not None:
            yield "parse", f, tname
    for tmpl in inf.atom_classes(full=thorough):
        for c in (None, "12.5"):
            s = R.render(R.Compound([R.Group(False, None, [R.copy_element(tmpl, c)])]))
            f = parsed(s, "public")
            if f is not None:
                yield "parse", f, "public"
    for i in range(20000 if thorough else 400):
        ast = R.random_derivation(rng, 3, inf, density=False)
        f = parsed(R.render(ast), "public")
        if f is not None:
            yield "parse", f, "public"

    # (b) arithmetic
    for i in range(40000 if thorough else 1500):
        tname = "private" if i % 6 == 0 else "public"
        ps = pool[tname]
        f = rng.choice(ps)
        op = i % 4
        try:
            if op == 0:
                h = random_scale(rng) * f
            elif op == 1:
                h = f + rng.choice(ps)
            elif op == 2:
                h = copy.copy(f)
                h += random_scale(rng) * rng.choice(ps)
            else:
                h = random_scale(rng) * (f + random_scale(rng) * rng.choice(ps))
        except Exception:
            continue
        yield "arithmetic", h, tname

    # (c) mixtures
    comps = ["H2O@1", "D2O@1n", "NaCl@2.16", "Fe", "Ni", "Si", "Au", "Cr", "C2H6O@0.789", "D{+}Cl{-}@1.2",
             "T2O@1.2", "Fe[56]{2+}O{2-}@5.7", "CaCO3@2.71", "NaCl", "C6H12O6"]
    for i in range(6000 if thorough else 500):
        n = rng.randint(1, 4)
        args = []
        for _ in range(n):
            c = rng.choice(comps if i % 2 == 0 else comps[:13])
            q = rng.choice([1, 2, 5, 10, 100]) * 10.0 ** rng.choice([0, 0, 0, -6, -3, 3, 6, -9, 2])
            args += [c, q]
        try:
            h = mix_by_weight(*args) if i % 2 == 0 else mix_by_volume(*args)
        except Exception:
            continue
        yield "mixer", h, "public"
    mixes = ["1 cm Si // 5 nm Cr // 10 nm Au", "1 um Si // 5 nm Cr // 10 nm Au", "10wt% Fe // 15% Co // Ni",
             "10vol% Fe // Ni", "5g NaCl // 50mL H2O@1", "1 ng NaCl // 1 kg H2O@1", "5 ug D{+}Cl{-} // 1 L H2O@1",
             "20vol% (10 wt% NaCl@2.16 // H2O@1) // D2O@1n", "0.001wt% Au // Si", "1 mm Si // 1 nm Au"]
    for s in mixes:
        try:
            yield "mixture_string", real_formula(s, tabs["public"]), "public"
        except Exception:
            pass
    for i in range(4000 if thorough else 400):
        ast = R.random_mixture(rng, rng.randint(0, 2), inf)
        try:
            h = real_formula(R.render(ast, R.STYLES[i % len(R.STYLES)]), tabs["public"])
        except Exception:
            continue
        yield "mixture_string", h, "public"


WHAT = {
    "unparseable": "str(f) is not accepted by formula(): %s",
    "changed_count": "formula(str(f)) has a count that is not the original count rounded to 6 significant "
                     "digits (%s)",
    "changed_structure": "formula(str(f)).structure does not have the nesting / atoms of f.structure (%s)",
    "repr": "repr(f) is not \"formula('\" + str(f) + \"')\" (%s)",
    "name": "a formula with a name does not print its name (%s)",
    "str_raises": "str(f) raises %s",
}
EXPLAIN = {
    "exponent_notation_in_count": "counts are printed with '%g': a count >= 1e6 or < 1e-4 (or one that "
                                  "rounds to such) prints as e.g. 'Fe1.23457e+06', and `count :: number | "
                                  "fraction` has no exponent form",
    "D_or_T_ion_printed_with_isotope_tag": "an ion of D or T prints as 'D[2]{+}' / 'T[3]{-}' (symbol D plus "
                                           "an isotope tag); D and T take no isotope tag, so the parser "
                                           "fails with TypeError",
    "single_isotope_of_element_without_density": "the printed text is a single isotope of an element of unknown "
                                                 "density; parsing it raises in the single-atom density default "
                                                 "(C06/C01 root cause)",
    "group_count_equal_1": "a group whose count is exactly 1 (e.g. 0.5*(2*f), or the unit component of a "
                           "mixture) is printed without parentheses, so the nesting of f.structure is not "
                           "recovered (low severity: same atoms and counts)",
    "group_count_prints_as_1": "a group count that is not 1 but prints as '1' at 6 digits gives '(...)1', "
                               "which the parser splices into the enclosing level (low severity: the "
                               "atoms agree to printed precision, only the nesting differs)",
}


def task_roundtrip(tier, seed, arg):
    t0 = time.time()
    tabs = tables()
    groups = {}
    evals = 0
    seen = set()
    samples = []
    by_source = {}
    magn = [None, None]
    for source, f, tname in produce(tier, seed):
        evals += 1
        by_source[source] = by_source.get(source, 0) + 1
        res, s = check(f, tabs[tname])
        if s is not None:
            seen.add((s, tname))
        from periodictable.core import isatom
        stack = list(f.structure)
        while stack:
            c, frag = stack.pop()
            if c > 0:
                magn[0] = c if magn[0] is None else min(magn[0], c)
                magn[1] = c if magn[1] is None else max(magn[1], c)
            if not isatom(frag):
                stack.extend(frag)
        if evals % 50 == 1:
            # names are arbitrary text: apostrophes, quotes, backslashes and percent signs are shown as they are
            extra = ["Zeise's salt", 'the "blue" phase', "back\\slash", "100%% pure", "{curly} %s", "tab\there"][(evals // 50) % 6]
            for nm in ("name %d" % evals, extra):
                res = res + check_name(f, nm)
        if len(samples) < 5 and evals % 211 == 3:
            samples.append(dict(source=source, table=tname, str=s, structure=structure_json(f.structure)))
        for kind, cause, observed, expected in res:
            g = groups.setdefault((kind, cause), dict(count=0, sources={}, examples=[]))
            g["count"] += 1
            g["sources"][source] = g["sources"].get(source, 0) + 1
            e = dict(s=s or "", table=tname, observed=observed, expected=expected,
                     structure=structure_json(f.structure), source=source,
                     prio=0 if evals <= 2 * len(EXTRA_STRINGS) else 1)
            ex = g["examples"]
            key = lambda x: (x["prio"], len(x["s"]), x["s"])
            if all(x["s"] != e["s"] for x in ex) and (len(ex) < 6 or key(e) < key(ex[-1])):
                ex.append(e)
                ex.sort(key=key)
                del ex[6:]
    violations = []
    for (kind, cause), g in sorted(groups.items()):
        first = g["examples"][0]
        what = WHAT.get(kind, "%s") % cause
        if cause in EXPLAIN:
            what += " [" + EXPLAIN[cause] + "]"
        else:
            for k, v in EXPLAIN.items():
                if k in cause:
                    what += " [" + v + "]"
        violations.append(dict(
            key="roundtrip:%s:%s:%s" % (kind, cause, first["s"]),
            what=what, input=dict(structure=first["structure"], table=first["table"], name=None),
            observed=dict(str=first["s"], result=first["observed"]), expected=first["expected"],
            count=g["count"], sources=g["sources"],
            examples=[dict(str=e["s"], source=e["source"], structure=e["structure"]) for e in g["examples"][:3]]))
    notes = ["BOUNDED: formulas by source %s; counts in the structures span %.3g .. %.3g"
             % (dict(sorted(by_source.items())), magn[0] or 0, magn[1] or 0),
             "strings that the parser rejects on the way IN are skipped here (C01 decides them)",
             "runtime %.1f s" % (time.time() - t0)]
    return dict(evaluations=evals, distinct=len(seen),
                rule="formulas from parsed reference derivations (shapes + random), from n*f / f+g / f+=g with "
                     "n over 1e-25..1e24 (incl. decimals, 7-digit and near-1 factors), from mix_by_weight/"
                     "mix_by_volume with quantities over 15 orders of magnitude and from mixture strings; "
                     "atoms incl. D, T, their ions, isotope ions; distinct = distinct (str(f), table); count "
                     "comparison exact against the decimal rounding to 6 significant digits",
                exhaustive=False, samples=samples, violations=violations[:60], notes=notes)


def task_replay(tier, seed, arg):
    inp = (arg or {}).get("input") or {}
    tname = inp.get("table", "public")
    T = tables()[tname]
    key = (arg or {}).get("key", "")
    f = build(inp.get("structure") or [], T, inp.get("name"))
    res, s = check(f, T)
    if inp.get("name"):
        res = check_name(f, inp["name"])
    out = dict(evaluations=1, distinct=1, rule="replay of one formula", exhaustive=False,
               samples=[dict(str=s, structure=inp.get("structure"))], violations=[], notes=[])
    for kind, cause, observed, expected in res:
        out["violations"].append(dict(
            key=key or "roundtrip:%s:%s:%s" % (kind, cause, s),
            what=WHAT.get(kind, "%s") % cause, input=inp, observed=dict(str=s, result=observed),
            expected=expected))
    if not res:
        out["notes"].append("round trip holds for %r" % s)
    return out
