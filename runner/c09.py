"""C09 -- values served by the public table do not depend on the order / receiver / means / number of
first touches of the lazily loaded property groups.

All observations are made in fresh interpreters (one subprocess per history) by
`runner.lazy_common`.  The CANONICAL digest is the one obtained when every group is first touched
by an attribute read through an element (`pt.Fe.<name>`, `pt.Fe[58].neutron_activation` for the
isotope-only group).

tasks
  base       a fresh interpreter has every group Pending on exactly the registered classes
  steps      invariant-step obligations (g, s, e): closed and complete over the alphabet
  histories  bounded cross-check over event sequences
  replay     re-run one history
"""
import random
import time

from . import lazy_common as L

CANON_EVENT = dict((g, "read:%s:%s" % (spec["names"][0],
                                      "isotope" if g == "neutron_activation" else "element"))
                   for g, spec in L.GROUPS.items())
TAIL = [{"op": "state", "label": "after"}] + L.FINISH + [{"op": "state", "label": "final"}]
MAXV = 60


def _program(history):
    return [L.ev(n) for n in history] + TAIL


def _check_history(history, res, canon):
    """-> (value mismatches [(index, event, observed, expected)], {group: diff})"""
    if "crash" in res:
        return [(-1, "<child>", res["crash"], "no crash")], {}
    bad = []
    for i, (n, v) in enumerate(zip(history, res["results"])):
        exp = canon["values"][n]
        if not L.same_value(v, exp):
            bad.append((i, n, v, exp))
    return bad, L.compare_public(res, canon)


def _loader_state(st):
    """hidden loader state: class cells of every lazy name + the set of table.properties"""
    return (dict((g, v["cells"]) for g, v in st["groups"].items()), sorted(set(st["properties"])))


def _state_summary(res, label="after"):
    st = res.get("states", {}).get(label)
    if not st:
        return {}
    return dict((g, v["summary"]) for g, v in st["groups"].items())


def _result(task, evaluations, distinct, rule, exhaustive, samples, violations, notes):
    violations = sorted(violations, key=lambda v: v["key"])
    if len(violations) > MAXV:
        notes.append("%d violations found, first %d reported" % (len(violations), MAXV))
        violations = violations[:MAXV]
    return {"task": task, "evaluations": evaluations, "distinct": distinct, "rule": rule,
            "exhaustive": exhaustive, "samples": samples[:5], "violations": violations,
            "notes": notes}


# ----------------------------------------------------------------------------------------------
def task_base(tier, seed, arg):
    t0 = time.time()
    res = L.run_program([{"op": "state", "label": "fresh"},
                         {"op": "digest", "table": "public", "groups": ["mass", "density"],
                          "label": "eager"}], full=True)
    notes, violations, n = [], [], 0
    if "crash" in res:
        return _result("base", 1, 0, "fresh interpreter", True, [],
                       [{"key": "base:child:crash", "what": "fresh child crashed", "input": [],
                         "observed": res["crash"], "expected": "no crash"}], notes)
    st = res["states"]["fresh"]
    registered = L.registered_from_source()      # independent: ast of periodictable/__init__.py
    reg_names = set()
    for names, flags in registered:
        for nm in names:
            reg_names.add(nm)
            g = L.NAME_GROUP.get(nm)
            for c in L.CLASSES:
                n += 1
                want = "pending" if flags[c] else "absent"
                got = st["groups"][g]["cells"]["%s.%s" % (c, nm)] if g else "<name unknown to harness>"
                if got != want:
                    violations.append({
                        "key": "base:cell:%s.%s" % (c, nm),
                        "what": "fresh interpreter: lazy name is not Pending on exactly the "
                                "registered classes",
                        "input": [], "observed": got, "expected": want})
    n += 1
    if reg_names != set(L.NAME_GROUP):
        violations.append({"key": "base:registrations", "what": "delayed_load registrations in "
                           "__init__.py differ from the harness alphabet", "input": [],
                           "observed": sorted(reg_names), "expected": sorted(L.NAME_GROUP)})
    n += 1
    if st["properties"] != ["mass", "density"]:
        violations.append({"key": "base:properties", "what": "elements.properties of a fresh "
                           "interpreter is not exactly the eager groups", "input": [],
                           "observed": st["properties"], "expected": ["mass", "density"]})
    lazy_modules = sorted(set(spec["module"] for spec in L.GROUPS.values()))
    for m in lazy_modules:
        n += 1
        if m in st["modules"]:
            violations.append({"key": "base:module:%s" % m, "what": "loader module imported by a "
                               "bare `import periodictable`", "input": [], "observed": "imported",
                               "expected": "not imported"})
    det = res["digests"]["eager"]["detail"]
    for g, key in (("mass", "Fe.mass"), ("density", "Fe.density")):
        n += 1
        tok = det[g].get(key)
        if tok is None or tok.startswith("<"):
            violations.append({"key": "base:eager:%s" % g, "what": "eager group not loaded",
                               "input": [], "observed": tok, "expected": "a number"})
    notes.append("registered groups read from __init__.py by ast: %s"
                 % [(nm[0], [c for c in L.CLASSES if fl[c]]) for nm, fl in registered])
    notes.append("wall %.1fs" % (time.time() - t0))
    samples = [{"group": g, "state": v["summary"], "cells": v["cells"]}
               for g, v in list(st["groups"].items())[:4]]
    samples.append({"properties": st["properties"], "modules": st["modules"],
                    "Fe.mass": det["mass"].get("Fe.mass"), "Fe.density": det["density"].get("Fe.density")})
    return _result("base", n, n,
                   "one obligation per (lazy name, class) cell of Element/Isotope/Ion.__dict__ "
                   "(Pending iff registered in periodictable/__init__.py, read by ast), "
                   "elements.properties, loader modules not imported, mass/density served",
                   True, samples, violations, notes)


# ----------------------------------------------------------------------------------------------
def _steps_triples(groups=None):
    out = []
    for e in sorted(L.EVENTS):
        for g in L.EVENTS[e]["touches"]:
            if groups and g not in groups:
                continue
            for s in ("Pending", "Loaded"):
                out.append((g, s, e))
    return out


def _step_history(g, s, e):
    return ([CANON_EVENT[g]] if s == "Loaded" else []) + [e]


def task_steps(tier, seed, arg):
    t0 = time.time()
    canon = L.canonical()
    # arg {"groups": [...]} restricts the step obligations to some lazy groups (used by the properties
    # about one data family: first touch through an element / isotope / ion of that family)
    groups = (arg or {}).get("groups") if isinstance(arg, dict) else None
    triples = _steps_triples(groups)
    progs = [_program(_step_history(*t)) for t in triples]
    results = L.run_many(progs, expect={"public": canon["hash"]})
    violations, samples, notes = [], [], []
    distinct = mixed = not_loading = 0
    open_states = []
    canon_state = _loader_state(canon["state"])
    if not canon["values_digest_ok"]:
        violations.append({"key": "steps:canonical:all-events-after-load",
                           "what": "evaluating the whole alphabet after the canonical load (or reading every value a second time) "
                                   "changes the digest", "input": [], "observed": "digest changed",
                           "expected": "unchanged"})
    for (g, s, e), res in zip(triples, results):
        hist = _step_history(g, s, e)
        bad, diffs = _check_history(hist, res, canon)
        st = _state_summary(res)
        if st.get(g) == "mixed":
            mixed += 1
        if "crash" not in res and _loader_state(res["states"]["final"]) != canon_state:
            open_states.append("%s:%s:%s" % (g, s, e))
        if s == "Loaded" or st.get(g) != "pending":
            distinct += 1
        else:
            not_loading += 1
        if len(samples) < 5 and s == "Pending" and L.EVENTS[e]["kind"] in ("init", "calc", "hasattr") \
                and not any(x["group"] == g for x in samples):
            samples.append({"group": g, "state": s, "event": e, "code": L.EVENTS[e]["code"],
                            "value": L.short(res.get("results", [None])[-1], 120),
                            "state_after": st.get(g), "digest": "canonical" if not diffs else "differs"})
        if not bad and not diffs:
            continue
        clauses = []
        if g in diffs:
            clauses.append("(i) group %s does not reach its canonical digest" % g)
        others = sorted(x for x in diffs if x != g)
        if others:
            clauses.append("(ii) other groups differ after canonical loading: %s" % others)
        if bad:
            clauses.append("(iii) the event returns %s where the canonical order returns %s"
                           % (L.short(bad[-1][2], 100), L.short(bad[-1][3], 100)))
        violations.append({
            "key": "steps:%s:%s:%s" % (g, s, e),
            "what": "state %s of %s, event `%s`: %s" % (s, g, L.EVENTS[e]["code"].strip().splitlines()[-1],
                                                        "; ".join(clauses)),
            "input": {"history": hist, "group": g, "state": s},
            "observed": {"digest_diff": L.diff_text(diffs), "diff": diffs,
                         "values": [L.short(x[2], 160) for x in bad], "state_after": st},
            "expected": {"digest": "canonical digest of every group",
                         "values": [L.short(x[3], 160) for x in bad]}})
    notes.append("%d evaluations leave the group pending (event does not load: not counted as "
                 "distinct); %d leave a mixed class state" % (not_loading, mixed))
    notes.append("closure: %d of %d evaluations end (after the finisher) in a loader state (class "
                 "__dict__ cells of the lazy names + set of elements.properties) different from the "
                 "canonical one%s" % (len(open_states), len(triples),
                                      (": %s" % open_states[:20]) if open_states else
                                      "; every other reachable loader state is the canonical one, "
                                      "so the step obligations are closed under composition"))
    notes.append("alphabet: %d events; canonical hashes %s" % (
        len(L.EVENTS), dict((g, h[:8]) for g, h in canon["hash"].items())))
    notes.extend(L.stability_note())
    notes.append("wall %.1fs" % (time.time() - t0))
    return _result(
        "steps", len(triples), distinct,
        "one fresh interpreter per (group g, state s in {Pending, Loaded by the canonical read}, "
        "event e of the %d-event alphabet that touches g): history [canonical read of g if "
        "Loaded]+[e], then class-state snapshot, canonical finisher for every group and full "
        "digest (all elements, all isotopes, sample ions) compared with the canonical digest; "
        "event value compared with the value after a canonical load; non-trivial = e found g "
        "Loaded or left it not Pending" % len(L.EVENTS),
        True, samples, violations, notes)


# ----------------------------------------------------------------------------------------------
def _sample_histories(tier, seed):
    rng = random.Random(seed)
    names = sorted(L.EVENTS)
    n = len(names)
    hs = []
    if tier == "thorough":
        plan = {1: n, 2: 1781, 3: 5000 - 1781 - n}
    else:
        plan = {1: 40, 2: 360}
    for length, count in plan.items():
        space = n ** length
        if count >= space:
            idxs = range(space)
        else:
            idxs = sorted(rng.sample(range(space), count))
        for ix in idxs:
            h = []
            for _ in range(length):
                ix, r = divmod(ix, n)
                h.append(names[r])
            hs.append(h)
    return hs, plan, n


def _components(bad, diffs):
    """Failure components of one history: one per differing group (keyed by its diff signature);
    a value-only component when no digest differs."""
    comps = {}
    for g, d in diffs.items():
        comps[("digest", g, L.diff_signature({g: d}))] = d
    if not diffs:
        for _i, n, v, _e in bad:
            comps[("value", n, L.short(v, 80))] = None
    return comps


def task_histories(tier, seed, arg):
    t0 = time.time()
    canon = L.canonical()
    hs, plan, n = _sample_histories(tier, seed)
    run_batch = lambda hists: L.run_many([_program(h) for h in hists],
                                         expect={"public": canon["hash"]})
    results = run_batch(hs)
    clusters = {}
    distinct = set()
    samples = []
    failing = 0
    for h, res in zip(hs, results):
        bad, diffs = _check_history(h, res, canon)
        st = _state_summary(res)
        if any(v != "pending" for v in st.values()):
            distinct.add(tuple(h))
        if len(samples) < 5 and len(h) == max(plan):
            samples.append({"history": h, "state_after": st,
                            "values": [L.short(v, 60) for v in res.get("results", [])],
                            "digest": "canonical" if not diffs else L.diff_text(diffs)})
        if bad or diffs:
            failing += 1
            for ck in _components(bad, diffs):
                clusters.setdefault(ck, []).append(h)
    reps = dict((ck, sorted(members, key=lambda m: (len(m), m))[0])
                for ck, members in clusters.items())

    def has_component(ck, h, res):
        bad, diffs = _check_history(h, res, canon)
        return ck in _components(bad, diffs)
    minimal = L.shrink_all(reps, run_batch, has_component)
    cks = sorted(minimal, key=lambda k: (k[0], k[1], minimal[k]))
    finals = run_batch([minimal[ck] for ck in cks])
    violations, notes = [], []
    for ck, res in zip(cks, finals):
        hmin = minimal[ck]
        bad, diffs = _check_history(hmin, res, canon)
        st = _state_summary(res)
        kind, what_g, _sig = ck
        own = dict((g, d) for g, d in diffs.items() if g == what_g) if kind == "digest" else {}
        violations.append({
            "key": "histories:%s:%s" % (what_g if kind == "digest" else "value", ">".join(hmin)),
            "what": "after this history (then the canonical finisher) the public table does not "
                    "serve the canonical values: %s" % (L.diff_text(own or diffs) or
                                                        "event value differs from canonical"),
            "input": {"history": hmin},
            "observed": {"digest_diff": L.diff_text(own or diffs), "diff": own or diffs,
                         "values": [[x[1], L.short(x[2], 120)] for x in bad],
                         "state_after_events": st,
                         "histories_with_this_signature": len(clusters[ck]),
                         "examples": [">".join(m) for m in
                                      sorted(clusters[ck], key=lambda m: (len(m), m))[:3]]},
            "expected": {"digest": "canonical", "values": [[x[1], L.short(x[3], 120)] for x in bad]}})
    notes.append("failing histories: %d of %d; failures split per differing group and clustered by "
                 "diff signature into %d causes; each representative shrunk by single-event deletion"
                 % (failing, len(hs), len(clusters)))
    notes.extend(L.stability_note())
    notes.append("wall %.1fs" % (time.time() - t0))
    return _result(
        "histories", len(hs), len(distinct),
        "BOUNDED: event sequences over the %d-event alphabet, stratified sample by length %s "
        "(random.Random(seed)) out of %s; each in a fresh interpreter, followed by the canonical "
        "finisher; every event value and the full final digest compared with canonical; "
        "non-trivial = at least one group left Pending state during the history"
        % (n, plan, dict((k, n ** k) for k in plan)),
        False, samples, violations, notes)


# ----------------------------------------------------------------------------------------------
def task_replay_registration(tier, seed, arg):
    """replay of the registration lemma: the step obligations of the group named by the failed obligation (every first touch
    through every class), on the real code"""
    import re
    m = re.search(r"group (\w+):", (arg or {}).get("obligation", "") or "")
    g = L.NAME_GROUP.get(m.group(1)) if m else None
    return task_steps(tier, seed, {"groups": [g]} if g else None)


def task_replay(tier, seed, arg):
    t0 = time.time()
    arg = arg or {}
    inp = arg.get("input", arg)
    history = inp.get("history") if isinstance(inp, dict) else inp
    key = arg.get("key") or "replay:%s" % ">".join(history or [])
    unknown = [n for n in (history or []) if n not in L.EVENTS]
    if history is None or unknown:
        return _result("replay", 0, 0, "replay of one history", False, [],
                       [], ["cannot replay: unknown events %s" % unknown])
    canon = L.canonical()
    res = L.run_program(_program(history), expect={"public": canon["hash"]})
    bad, diffs = _check_history(history, res, canon)
    st = _state_summary(res)
    violations = []
    if bad or diffs:
        violations.append({
            "key": key,
            "what": "history does not reproduce the canonical values: %s"
                    % (L.diff_text(diffs) or "event value differs"),
            "input": {"history": history},
            "observed": {"digest_diff": L.diff_text(diffs), "diff": diffs,
                         "values": [[x[1], L.short(x[2], 160)] for x in bad], "state_after": st},
            "expected": {"digest": "canonical", "values": [[x[1], L.short(x[3], 160)] for x in bad]}})
    samples = [{"history": history, "code": [L.EVENTS[n]["code"] for n in history],
                "values": [L.short(v, 120) for v in res.get("results", [])], "state_after": st}]
    return _result("replay", 1, 1, "replay of one history in a fresh interpreter + canonical "
                   "finisher + full digest", False, samples, violations,
                   ["wall %.1fs" % (time.time() - t0)])
