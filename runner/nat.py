"""Helpers shared by native tasks: atom naming, random structures, result bookkeeping."""
import math
import random


def close(a, b, rtol=1e-12, atol=0.0):
    if a is None or b is None:
        return a is None and b is None
    if isinstance(a, complex) or isinstance(b, complex):
        return abs(a - b) <= atol + rtol * max(abs(a), abs(b))
    if math.isnan(a) or math.isnan(b):
        return math.isnan(a) and math.isnan(b)
    if math.isinf(a) or math.isinf(b):
        return a == b
    return abs(a - b) <= atol + rtol * max(abs(a), abs(b))


def atom_name(a):
    """stable textual name of a table atom: Fe, Fe[56], Fe{2+}, Fe[56]{2+}, D"""
    import periodictable.core as core
    base = a.element if core.ision(a) else a
    if core.isisotope(base):
        s = "%s[%d]" % (base.element.symbol, base.isotope)
    else:
        s = base.symbol
    if core.ision(a):
        s += "{%d%s}" % (abs(a.charge), "+" if a.charge > 0 else "-")
    return s


def atom_from_name(name, table=None):
    import re
    import periodictable
    t = table or periodictable.elements
    m = re.match(r"^([A-Za-z]+)(?:\[(\d+)\])?(?:\{(\d+)([+-])\})?$", name)
    if not m:
        raise ValueError("bad atom name " + name)
    sym, iso, q, sign = m.groups()
    a = t.symbol(sym)
    if iso:
        a = a[int(iso)]
    if q:
        a = a.ion[int(q) * (1 if sign == "+" else -1)]
    return a


def atom_pool(table=None, with_ions=True):
    """a pool of atoms covering elements, isotopes, D/T, ions, isotope ions"""
    import periodictable
    t = table or periodictable.elements
    pool = []
    for sym in ["H", "C", "N", "O", "Na", "Cl", "Fe", "Co", "Ni", "Si", "Au", "U", "Gd", "Ca", "S", "P"]:
        el = t.symbol(sym)
        pool.append(el)
        isos = el.isotopes
        if isos:
            pool.append(el[isos[len(isos) // 2]])
        if with_ions and el.ions:
            pool.append(el.ion[el.ions[0]])
            pool.append(el.ion[el.ions[-1]])
            if isos:
                pool.append(el[isos[0]].ion[el.ions[-1]])
    pool += [t.D, t.T, t.H[1]]
    if with_ions:
        pool += [t.D.ion[1], t.H[1].ion[-1]]
    return pool


def random_structure(rng, pool, depth=3, maxlen=4, counts=None):
    counts = counts or [1, 2, 3, 0.5, 1.25, 10, 7, 0.001, 1e6]
    n = rng.randint(1, maxlen)
    out = []
    for _ in range(n):
        c = rng.choice(counts)
        if depth > 0 and rng.random() < 0.35:
            out.append((c, random_structure(rng, pool, depth - 1, maxlen, counts)))
        else:
            out.append((c, rng.choice(pool)))
    return tuple(out)


def count_atoms(struct):
    """independent reading of a structure: counts multiply through groups, repeated atoms add"""
    total = {}
    for c, frag in struct:
        if isinstance(frag, (list, tuple)):
            for a, n in count_atoms(frag).items():
                total[a] = total.get(a, 0) + n * c
        else:
            total[frag] = total.get(frag, 0) + c
    return total


def struct_repr(struct):
    return [[c, struct_repr(f) if isinstance(f, (list, tuple)) else atom_name(f)] for c, f in struct]


def struct_from_repr(rep, table=None):
    return tuple((c, struct_from_repr(f, table) if isinstance(f, list) else atom_from_name(f, table)) for c, f in rep)


def maps_close(a, b, rtol=1e-12):
    if set(a) != set(b):
        return False
    return all(close(a[k], b[k], rtol) for k in a)


class Result:
    def __init__(self, rule, exhaustive=False, cap=60):
        self.evaluations = 0
        self.distinct = set()
        self.rule = rule
        self.exhaustive = exhaustive
        self.samples = []
        self.violations = []
        self.notes = []
        self.cap = cap
        self.nviol = 0

    def ok(self, n=1, distinct=None):
        self.evaluations += n
        if distinct is not None:
            self.distinct.add(distinct)

    def sample(self, s):
        if len(self.samples) < 5:
            self.samples.append(s)

    def violation(self, key, what, input=None, observed=None, expected=None):
        self.nviol += 1
        if len(self.violations) < self.cap and not any(v["key"] == key for v in self.violations):
            self.violations.append({"key": key, "what": what, "input": input,
                                    "observed": observed, "expected": expected})

    def done(self):
        if self.nviol > len(self.violations):
            self.notes.append("%d violations in total, %d listed" % (self.nviol, len(self.violations)))
        return {"evaluations": self.evaluations, "distinct": len(self.distinct), "rule": self.rule,
                "exhaustive": self.exhaustive, "samples": self.samples, "violations": self.violations,
                "notes": self.notes}
