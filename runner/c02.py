"""C02 native side: the contracts of formulas.py's composition layer evaluated on the real code in
floats (bounded stand-in for assumption A1), and replay of counter-models."""
import copy
import random

from . import nat
from .nat import close, Result


def _snapshot(f):
    return (f.structure, f.density, f.name, id(f.structure))


def _check_formula(R, f, want_atoms, tag, case):
    import periodictable.constants as K
    got = f.atoms
    if not nat.maps_close(got, want_atoms):
        R.violation("sample:atoms:%s:%s" % (tag, case["id"]), "atoms of %s differ from the count-weighted sum of its parts" % tag,
                    case, {nat.atom_name(a): n for a, n in got.items()}, {nat.atom_name(a): n for a, n in want_atoms.items()})
        return
    mass = 0.0
    charge = 0
    charge_scale = 0.0
    for a, n in want_atoms.items():
        import periodictable.core as core
        base = a.element if core.ision(a) else a
        q = a.charge if core.ision(a) else 0
        m = base.mass - q * K.electron_mass
        mass += n * m
        charge += n * q
        charge_scale += abs(n * q)
    if not close(f.mass, mass, 1e-12, 1e-300):
        R.violation("sample:mass:%s:%s" % (tag, case["id"]), "mass is not the sum of count*atomic mass (ion = atom - charge*m_e)",
                    case, f.mass, mass)
    # positive and negative charges cancel: compare at the scale of the summands (A1 policy, DESIGN 2.7)
    if abs(f.charge - charge) > 1e-12 * max(charge_scale, 1.0):
        R.violation("sample:charge:%s:%s" % (tag, case["id"]), "charge is not the sum of count*ion charge", case, f.charge, charge)
    if mass != 0:
        mf = f.mass_fraction
        tot = 0.0
        for a, n in want_atoms.items():
            import periodictable.core as core
            base = a.element if core.ision(a) else a
            q = a.charge if core.ision(a) else 0
            m = base.mass - q * K.electron_mass
            if a not in mf or not close(mf[a], n * m / mass, 1e-12, 1e-300):
                R.violation("sample:mass_fraction:%s:%s" % (tag, case["id"]), "mass fraction is not count*mass/total",
                            case, mf.get(a), n * m / mass)
            tot += mf.get(a, 0)
        if want_atoms and not close(tot, 1.0, 1e-10):
            R.violation("sample:mass_fraction_sum:%s:%s" % (tag, case["id"]), "mass fractions do not sum to one", case, tot, 1.0)
        if not close(f.molecular_mass, mass / K.avogadro_number, 1e-12):
            R.violation("sample:molecular_mass:%s:%s" % (tag, case["id"]), "molecular_mass is not mass/N_A", case,
                        f.molecular_mass, mass / K.avogadro_number)


def _run_case(R, rng, pool, case_id, ops=None):
    import periodictable
    from periodictable.formulas import formula
    s1 = nat.random_structure(rng, pool, depth=rng.randint(0, 3))
    s2 = nat.random_structure(rng, pool, depth=rng.randint(0, 2))
    case = {"id": case_id, "s1": nat.struct_repr(s1), "s2": nat.struct_repr(s2)}
    f = formula(s1)
    g = formula(s2)
    a1, a2 = nat.count_atoms(s1), nat.count_atoms(s2)
    _check_formula(R, f, a1, "formula(sequence)", case)
    R.ok(1, ("seq", len(s1)))
    # f + g
    sf, sg = _snapshot(f), _snapshot(g)
    h = f + g
    want = dict(a1)
    for a, n in a2.items():
        want[a] = want.get(a, 0) + n
    _check_formula(R, h, want, "f+g", case)
    if _snapshot(f) != sf or _snapshot(g) != sg or h is f or h is g:
        R.violation("sample:frame:add:%s" % case_id, "f+g changed an operand or returned an operand", case)
    R.ok(1, ("add", len(s1), len(s2)))
    # n * f  (all three code paths: n == 1, single fragment, several fragments)
    for n in (1, rng.choice([2, 0.5, 3.25, 0, 1e-3, 1e6])):
        for src, asrc, nm in ((f, a1, "n*f"), (formula(s1[:1]), nat.count_atoms(s1[:1]), "n*f[single]")):
            snap = _snapshot(src)
            p = n * src
            _check_formula(R, p, {a: n * c for a, c in asrc.items()}, nm, dict(case, n=n))
            if _snapshot(src) != snap or p is src:
                R.violation("sample:frame:rmul:%s" % case_id, "n*f changed its operand or returned it", dict(case, n=n))
            R.ok(1, ("rmul", n == 1, len(src.structure)))
    try:
        "x" * f
        bad = None
        try:
            None * f
            bad = "None*f did not raise"
        except TypeError:
            pass
        if bad:
            R.violation("sample:rmul_nonnumeric:%s" % case_id, bad, case)
    except TypeError:
        pass
    # f += g
    f2 = formula(s1)
    keep = f2
    sg = _snapshot(g)
    f2 += g
    _check_formula(R, f2, want, "f+=g", case)
    if f2 is not keep or _snapshot(g) != sg:
        R.violation("sample:frame:iadd:%s" % case_id, "f+=g did not update f in place or changed g", case)
    R.ok(1, ("iadd",))
    # operator sequences
    acc = formula()
    want = {}
    for k in range(rng.randint(1, 4)):
        n = rng.choice([1, 2, 0.5, 7])
        part = rng.choice([f, g, h])
        pa = part.atoms
        acc = acc + n * part
        for a, c in pa.items():
            want[a] = want.get(a, 0) + n * c
    _check_formula(R, acc, want, "operator-sequence", case)
    R.ok(1, ("seqops",))
    R.sample(case)


def task_sample(tier, seed, arg):
    import periodictable
    n = 400 if tier == "quick" else 20000
    rng = random.Random(seed)
    R = Result("seeded random nested structures (depth<=3, <=4 entries per level, counts from a boundary set incl. "
               "0.001 and 1e6) over a pool of elements/isotopes/D/T/ions/isotope ions; each case checks formula(seq), "
               "f+g, n*f on all three code paths, f+=g and a random operator sequence against an independent recursive "
               "count; every 7th case uses a single atom for all leaves; tolerance 1e-12; bounded: %d cases; distinct = distinct (operation, shape) classes" % n)
    pool = nat.atom_pool()
    for i in range(n):
        try:
            # every 7th case draws all its leaves from ONE atom: several fragments of a single kind of atom is a
            # boundary class of its own (the code special-cases single-atom formulas and single-fragment structures)
            _run_case(R, rng, [rng.choice(pool)] if i % 7 == 3 else pool, "s%d-%d" % (seed, i))
        except Exception as e:   # the property allows no exception for these inputs
            R.violation("sample:exception:%s" % type(e).__name__, "composition arithmetic raised %s: %s" % (type(e).__name__, e),
                        {"id": "s%d-%d" % (seed, i)})
    return R.done()


def task_init_kinds(tier, seed, arg):
    """every initializer kind of formula(): string, atom, dict, sequence, Formula, None/''"""
    import periodictable
    from periodictable.formulas import formula, Formula
    rng = random.Random(seed)
    R = Result("each initializer kind of formula() on every atom of the pool and on seeded random maps/structures; "
               "density/name inheritance for formula(Formula); bounded sample", False)
    pool = nat.atom_pool()
    for a in pool:
        f = formula(a)
        if f.atoms != {a: 1}:
            R.violation("init_kinds:atom:%s" % nat.atom_name(a), "formula(atom) is not {atom: 1}", nat.atom_name(a))
        R.ok(1, ("atom", nat.atom_name(a)))
    for i in range(200 if tier == "quick" else 5000):
        keys = rng.sample(pool, rng.randint(1, 6))
        d = {k: rng.choice([1, 2, 0.5, 3.75, 1e-4, 1e5]) for k in keys}
        f = formula(d)
        if not nat.maps_close(f.atoms, d):
            R.violation("init_kinds:dict:%d" % i, "formula(dict) does not have the atoms of the dict",
                        {nat.atom_name(k): v for k, v in d.items()})
        if d != {k: d[k] for k in keys}:
            R.violation("init_kinds:dict_mutated:%d" % i, "formula(dict) changed its argument")
        R.ok(1, ("dict", len(d)))
        s = nat.random_structure(rng, pool, depth=2)
        as_list = [[c, list(x) if isinstance(x, tuple) else x] for c, x in s]
        g = formula(as_list)
        if not nat.maps_close(g.atoms, nat.count_atoms(s)):
            R.violation("init_kinds:list:%d" % i, "formula(list structure) differs from its reading", nat.struct_repr(s))
        g.density = 2.5
        g.name = "nm"
        h = formula(g)
        if h.atoms != g.atoms or h.density != 2.5 or h.name != "nm" or h is g:
            R.violation("init_kinds:formula:%d" % i, "formula(Formula) does not copy atoms/density/name")
        h2 = formula(g, density=3.0)
        if h2.density != 3.0 or g.density != 2.5:
            R.violation("init_kinds:formula_density:%d" % i, "formula(Formula, density=) did not use the given density or changed the source")
        R.ok(2, ("formula",))
    for empty in (None, ""):
        f = formula(empty)
        if f.atoms != {} or f.mass != 0 or f.charge != 0:
            R.violation("init_kinds:empty:%r" % (empty,), "empty initializer does not give the empty formula")
        R.ok(1, ("empty", repr(empty)))
    for bad in (3, [(1, "Fe")], [("x", periodictable.elements.Fe)], object()):
        try:
            formula(bad)
            R.violation("init_kinds:invalid:%r" % (type(bad).__name__,), "invalid initializer accepted", repr(bad))
        except (ValueError, TypeError):
            pass
        R.ok(1, ("invalid", type(bad).__name__))
    return R.done()


def task_replay(tier, seed, arg):
    """replay: (a) a recorded failing case {'input': case}; (b) a solver counter-model: the model's
    abstract atoms/sums cannot be mapped to table atoms one-to-one, so the postcondition named by
    the obligation is searched natively on the sampler's inputs (same contract, real code)."""
    arg = arg or {}
    if isinstance(arg.get("input"), dict) and "s1" in arg["input"]:
        R = Result("replay of one recorded case")
        rng = random.Random(0)
        case = arg["input"]
        from periodictable.formulas import formula
        s1 = nat.struct_from_repr(case["s1"])
        f = formula(s1)
        _check_formula(R, f, nat.count_atoms(s1), "formula(sequence)", case)
        R.ok(1)
        return R.done()
    r = task_sample("quick", seed, None)
    r2 = task_init_kinds("quick", seed, None)
    r["violations"] += r2["violations"]
    r["evaluations"] += r2["evaluations"]
    return r
