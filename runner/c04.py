"""C04 native side: metamorphic relations of periodictable.neutron_scattering (density scaling, count scaling,
regrouping/reordering, energy vs wavelength, vector vs scalar, signs) and the energy/wavelength/velocity conversions."""
import math
import random

from . import nat
from .nat import Result, atom_from_name
from . import c03
from .c03 import OUT, Grouped, doc_scattering, flatten, entry, mismatch, compound_id, lam_id

RTOL = 1e-12
RULE_TOL = ("rtol 1e-12 between the two sides of each relation; the incoherent outputs are differences of nearly "
            "equal numbers (sigma_i = sigma_s - sigma_c) and are compared at the scale of the operands: Sigma_inc "
            "within max(1e-12*|Sigma_inc|, 1e-12*N*sigma_s), rho_inc through its square within max(2e-12*rho_inc^2, "
            "1e-12*100*N^2*100*sigma_s/4pi) (so rounding noise of rho_inc ~1e-8 where sigma_s == sigma_c exactly, "
            "e.g. Er-167, is not a failure); rho_re within max(1e-12*|rho_re|, 1e-12*10*N*mean|n_k Re b_k|)")


def _ns(compound, **kw):
    import periodictable
    return periodictable.neutron_scattering(compound, **kw)


def _atoms(case):
    d = {}
    for nm, c in case["atoms"]:
        a = atom_from_name(nm)
        d[a] = d.get(a, 0) + c
    return d


def _scaled_ref(ref, k):
    r = dict(ref)
    r["N"] = ref["N"] * k
    r["re_scale"] = ref["re_scale"] * k
    return r


def _compare(G, case, cid, lid, relation, obs, exp, ref, detail, vec_i=None, exp_i=None):
    """obs/exp: lists of 7 library outputs; report per output"""
    for j, name in enumerate(OUT):
        try:
            ov = entry(obs[j], vec_i)
            ev = entry(exp[j], exp_i)
        except Exception as e:
            G.violation((relation, name), "relations:%s:%s:%s:%s" % (relation, name, cid, lid),
                        "%s: output %s cannot be read as a number (%s)" % (detail, name, e), case, repr(obs[j]), None)
            continue
        if mismatch(name, ov, ev, ref, RTOL, 1e-12):
            G.violation((relation, name), "relations:%s:%s:%s:%s" % (relation, name, cid, lid),
                        "%s: %s differs" % (detail, name), case, ov, ev)


def _transform(base, k):
    """expected outputs after scaling the density by k"""
    return [base[0] * k, base[1] * k, base[2] * k, base[3] * k, base[4] * k, base[5] * k, base[6] / k]


def check_case(G, R, case):
    import numpy as np
    d = _atoms(case)
    rho, lam = case["density"], case["value"]
    cid, lid = compound_id(case["atoms"], rho), lam_id(lam)
    ref = doc_scattering(d, rho, lam)         # only N, sigma_s, re_scale are used (tolerance scales)
    try:
        base = flatten(_ns(d, density=rho, wavelength=lam))
    except Exception as e:
        G.violation(("exception",), "relations:exception:%s:%s" % (cid, lid), "neutron_scattering raised", case,
                    "%s: %s" % (type(e).__name__, e))
        return
    R.ok(1)
    # signs
    for name, v in zip(OUT[1:], base[1:]):
        if not float(v) >= 0:
            G.violation(("sign", name), "relations:sign:%s:%s:%s" % (name, cid, lid),
                        "%s is negative (or NaN); the property says it is never negative" % name, case, float(v), ">= 0")
    # density scaling
    for k in (0.5, 2, 10):
        got = flatten(_ns(d, density=k * rho, wavelength=lam))
        _compare(G, dict(case, k=k), cid, lid, "density_x%g" % k, got, _transform(base, k), _scaled_ref(ref, k),
                 "density scaled by %g must scale every SLD and cross section by %g and the penetration depth by 1/%g"
                 % (k, k, k))
        R.ok(1)
    # density scaling when the compound is a Formula OBJECT that carries its own density and the new
    # density is given by keyword (density= or natural_density=): the keyword must win, so the results
    # still scale with k (for an isotope-free, ion-free compound natural density == density)
    try:
        from periodictable.formulas import formula as _mk
        fobj = _mk(d, density=rho)
        nat_ratio = fobj.natural_mass_ratio()
        for k in (0.5, 2):
            got = flatten(_ns(fobj, density=k * rho, wavelength=lam))
            _compare(G, dict(case, k=k, route="Formula object, density="), cid, lid, "formula_object_density_x%g" % k, got,
                     _transform(base, k), _scaled_ref(ref, k),
                     "a Formula object passed with density=%g*rho must use the given density" % k)
            got = flatten(_ns(fobj, natural_density=k * rho * nat_ratio, wavelength=lam))
            _compare(G, dict(case, k=k, route="Formula object, natural_density="), cid, lid,
                     "formula_object_natural_density_x%g" % k, got, _transform(base, k), _scaled_ref(ref, k),
                     "a Formula object passed with natural_density= (the natural density equivalent to %g*rho) must use it" % k)
            R.ok(2)
        if fobj.density != rho:
            G.violation(("frame", "formula_object"), "relations:formula_object_mutated:%s:%s" % (cid, lid),
                        "passing a Formula object to neutron_scattering changed its density", case, fobj.density, rho)
    except Exception as e:
        G.violation(("exception", "formula_object"), "relations:exception_formula_object:%s:%s" % (cid, lid),
                    "neutron_scattering(Formula object, density keyword) raised", case, "%s: %s" % (type(e).__name__, e))
    # count scaling
    for k in (2, 0.5, 7):
        got = flatten(_ns({a: k * n for a, n in d.items()}, density=rho, wavelength=lam))
        _compare(G, dict(case, k=k), cid, lid, "counts_x%g" % k, got, base, ref,
                 "multiplying every count by %g at the same density must change nothing" % k)
        R.ok(1)
    # regrouping / reordering through a formula structure
    struct = nat.struct_from_repr(case["regroup"])
    got = flatten(_ns(struct, density=rho, wavelength=lam))
    _compare(G, case, cid, lid, "regroup", got, base, ref,
             "the same atoms regrouped and reordered as %s must change nothing" % (case["regroup"],))
    R.ok(1)
    # energy vs wavelength
    from periodictable import nsf
    E = float(nsf.neutron_energy(lam))
    got = flatten(_ns(d, density=rho, energy=E))
    _compare(G, case, cid, lid, "energy", got, base, ref,
             "energy=neutron_energy(lambda) must agree with wavelength=lambda")
    R.ok(1)
    # vector vs scalar, shapes
    vec = case["vec"]
    arg = np.array(vec, dtype=float) if case["container"] == "array" else list(vec)
    try:
        res = flatten(_ns(d, density=rho, wavelength=arg))
    except Exception as e:
        G.violation(("vector_exception",), "relations:vector_exception:%s:%s" % (cid, lam_id(vec)),
                    "a vector of wavelengths raised", case, "%s: %s" % (type(e).__name__, e))
        return
    vid = lam_id(vec)
    shape_ok = True
    for name, o in zip(OUT, res):
        if np.shape(o) != (len(vec),):
            shape_ok = False
            G.violation(("shape", name), "relations:shape:%s:%s:%s" % (name, cid, vid),
                        "a %s of %d wavelengths must return %s shaped like the wavelengths" %
                        (case["container"], len(vec), name), case, list(np.shape(o)), [len(vec)])
    R.ok(1)
    for i, li in enumerate(vec):
        sc = flatten(_ns(d, density=rho, wavelength=li))
        for name, v in zip(OUT, sc):
            if np.shape(v) != ():
                G.violation(("shape_scalar", name), "relations:shape_scalar:%s:%s:%s" % (name, cid, lam_id(li)),
                            "a scalar wavelength must return scalar %s" % name, case, list(np.shape(v)), [])
        if shape_ok:
            _compare(G, case, cid, vid, "vector", res, sc, doc_scattering(d, rho, li),
                     "entry %d of the vector result must equal the scalar call at wavelength %r" % (i, li), vec_i=i)
        for name, v in zip(OUT[1:], sc[1:]):
            if not float(v) >= 0:
                G.violation(("sign", name), "relations:sign:%s:%s:%s" % (name, cid, lam_id(li)),
                            "%s is negative (or NaN)" % name, dict(case, value=li), float(v), ">= 0")
        R.ok(1)


def check_pair(G, R, case):
    """two spellings of the same composition"""
    s1, s2 = case["pair"]
    rho, lam = case["density"], case["value"]
    import periodictable
    d = periodictable.formula(s2).atoms
    ref = doc_scattering(d, rho, lam)
    a = flatten(_ns(s1, density=rho, wavelength=lam))
    b = flatten(_ns(s2, density=rho, wavelength=lam))
    _compare(G, case, "%s=%s@%r" % (s1, s2, rho), lam_id(lam), "spelling", a, b, ref,
             "%s and %s are the same composition per unit mass and must give the same results" % (s1, s2))
    R.ok(1)


def check_conv(G, R, case):
    """conversions between energy, wavelength and velocity"""
    import numpy as np
    from periodictable import nsf
    K = c03._K()
    x = case["conv"]
    xid = "%.6g" % x

    def bad(what, msg, obs, exp):
        G.violation(("conv", what), "relations:conv:%s:%s" % (what, xid), msg, case, obs, exp)

    def ne(a, b, rtol=RTOL):
        return not abs(a - b) <= rtol * max(abs(a), abs(b))

    lam = x
    E = float(nsf.neutron_energy(lam))
    E1 = float(nsf.neutron_energy(1.0))
    if ne(E * lam * lam, E1):
        bad("E_lambda2", "E*lambda^2 is not the same constant at lambda=%r and at lambda=1" % lam, E * lam * lam, E1)
    if ne(E1, c03.energy_factor()):
        bad("E_doc", "neutron_energy(1 A) is not h^2/(2 m_n lambda^2) with the package constants", E1,
            c03.energy_factor())
    back = float(nsf.neutron_wavelength(E))
    if ne(back, lam):
        bad("lambda_E_lambda", "wavelength -> energy -> wavelength is not the identity", back, lam)
    e0 = x                                      # the same number read as an energy in meV
    l0 = float(nsf.neutron_wavelength(e0))
    e_back = float(nsf.neutron_energy(l0))
    if ne(e_back, e0):
        bad("E_lambda_E", "energy -> wavelength -> energy is not the identity", e_back, e0)
    if ne(e0 * l0 * l0, E1):
        bad("E_lambda2_w", "E*neutron_wavelength(E)^2 is not the constant of neutron_energy", e0 * l0 * l0, E1)
    v = 3956.0 / x                              # a velocity of the same order as this wavelength
    lv = float(nsf.neutron_wavelength_from_velocity(v))
    l1 = float(nsf.neutron_wavelength_from_velocity(1.0))
    if ne(lv * v, l1):
        bad("v_lambda", "v*lambda is not the same constant at v=%r and at v=1" % v, lv * v, l1)
    if ne(l1, c03.velocity_factor()):
        bad("v_doc", "neutron_wavelength_from_velocity(1 m/s) is not h/(m_n v) with the package constants", l1,
            c03.velocity_factor())
    # E = 1/2 m_n v^2 ties the two conversions together
    Ev = 0.5 * K.neutron_mass * K.atomic_mass_constant * v * v / K.electron_volt * 1e3
    Elv = float(nsf.neutron_energy(lv))
    if ne(Elv, Ev, 1e-11):
        bad("E_v", "neutron_energy(neutron_wavelength_from_velocity(v)) is not 1/2 m_n v^2", Elv, Ev)
    # vectors go entry by entry
    arr = np.array([lam, 2 * lam, 0.5 * lam])
    for fn, nm in ((nsf.neutron_energy, "energy"), (nsf.neutron_wavelength, "wavelength"),
                   (nsf.neutron_wavelength_from_velocity, "from_velocity")):
        out = fn(arr)
        if np.shape(out) != (3,) or any(ne(float(out[i]), float(fn(float(arr[i])))) for i in range(3)):
            bad("vector_" + nm, "vector argument of neutron_%s does not give the scalar results entry by entry" % nm,
                repr(out), [float(fn(float(t))) for t in arr])
    R.ok(9)


def check_anchor(G, R):
    from periodictable import nsf
    for nm, got, want, tol in (("energy(1.798)", float(nsf.neutron_energy(1.798)), 25.3, 0.05),
                               ("wavelength(25.3)", float(nsf.neutron_wavelength(25.3)), 1.798, 5e-4),
                               ("from_velocity(2200)", float(nsf.neutron_wavelength_from_velocity(2200)), 1.798, 5e-4)):
        R.ok(1)
        if not abs(got - want) < tol:
            G.violation(("anchor", nm), "relations:anchor:%s" % nm,
                        "documented anchor 1.798 A = 2200 m/s = 25.3 meV is not reproduced within %g" % tol,
                        {"anchor": nm}, got, want)


PAIRS = [("H2O", "(H2O)1"), ("2H2O", "H4O2"), ("H2O", "OH2"), ("CaCO3", "(CaCO3)3"), ("Gd2O3", "O3Gd2"),
         ("Gd2O3", "Gd4O6"), ("C6H12O6", "(CH2O)6"), ("D2O", "H[2]2O"), ("Fe{2+}O{2-}", "O{2-}2Fe{2+}2"),
         ("Sm[149]2O3", "(O3Sm[149]2)3"), ("(HO)2Ca", "CaO2H2"), ("Al2(SO4)3", "Al2S3O12"), ("CH3(CH2)2CH3", "C4H10")]


def random_regroup(rng, atoms):
    """a nested structure (repr form) with the same total counts: permuted, counts split, groups with multipliers"""
    items = []
    for nm, c in atoms:
        if rng.random() < 0.3:
            items.append([c * 0.25, nm])
            items.append([c * 0.75, nm])
        else:
            items.append([c, nm])
    rng.shuffle(items)
    out = []
    i = 0
    while i < len(items):
        n = rng.randint(1, 3)
        chunk = items[i:i + n]
        i += n
        if rng.random() < 0.5:
            m = rng.choice([1, 2, 4, 0.5, 8])
            inner = [[c / m, nm] for c, nm in chunk]
            if rng.random() < 0.3 and len(inner) > 1:
                m2 = rng.choice([2, 0.5])
                inner = [inner[0], [m2, [[c / m2, nm] for c, nm in inner[1:]]]]
            out.append([m, inner])
        else:
            out.extend(chunk)
    return out


def random_case(rng, names, ions):
    atoms = c03.random_atoms(rng, names, ions, [1, 2, 3, 0.5, 1.25, 10, 7, 4, 12, 0.25, 0.001, 1e3])
    lam = rng.choice([0.05, 50.0, c03.LAMBDA0]) if rng.random() < 0.1 else (
        rng.uniform(0.35, 3.0) if rng.random() < 0.4 else c03.log_uniform(rng, 0.05, 50.0))
    L = rng.choice([1, 2, 7])
    vec = [rng.uniform(0.35, 3.0) if rng.random() < 0.5 else c03.log_uniform(rng, 0.05, 50.0) for _ in range(L)]
    return {"atoms": atoms, "density": c03.log_uniform(rng, 1e-3, 25.0), "value": lam,
            "regroup": random_regroup(rng, atoms), "vec": vec, "container": rng.choice(["array", "list"])}


def run_case(G, R, case):
    if "pair" in case:
        check_pair(G, R, case)
    elif "conv" in case:
        check_conv(G, R, case)
    elif "anchor" in case:
        check_anchor(G, R)
    else:
        check_case(G, R, case)


def task_relations(tier, seed, arg):
    n = 300 if tier == "quick" else 10000
    rng = random.Random(seed)
    R = Result("%d seeded random compounds (1-6 atoms: elements, isotopes, ions, energy-dependent rare earths; density "
               "log-uniform in [1e-3,25]; wavelength in [0.05,50]); per compound: density x{0.5,2,10}, all counts "
               "x{2,0.5,7}, a random regrouping/permutation/splitting of the same atoms as a nested structure, energy= "
               "vs wavelength=, a vector of 1/2/7 wavelengths (numpy array or list) vs the scalar calls entry by entry "
               "with the shape of each of the 7 outputs, signs of every result; %d hand-written spelling pairs x 3 "
               "(density, wavelength); conversion identities at %d values (E*lambda^2 and v*lambda constant and equal to "
               "h^2/2m_n and h/m_n, round trips, E = m_n v^2/2, vectors) and the three documented anchors.  %s.  Bounded "
               "sample; distinct = distinct (#atoms, energy-dependent, ion, vector length, container) classes + pairs "
               "+ conversion values" % (n, len(PAIRS), 40 if tier == "quick" else 400, RULE_TOL))
    G = Grouped(R, per=2)
    names, ions = c03.compound_pool()
    run_case(G, R, {"anchor": True})
    for s1, s2 in PAIRS:
        for rho, lam in ((1.0, c03.LAMBDA0), (7.3, 0.9), (0.2, 12.0)):
            case = {"pair": [s1, s2], "density": rho, "value": lam}
            try:
                run_case(G, R, case)
            except Exception as e:
                G.violation(("pair_exception",), "relations:pair_exception:%s=%s" % (s1, s2), "raised", case,
                            "%s: %s" % (type(e).__name__, e))
            R.distinct.add(("pair", s1, s2))
    for i in range(40 if tier == "quick" else 400):
        x = [1.798, 25.3, 1.0, 0.05, 50.0][i] if i < 5 else c03.log_uniform(rng, 0.01, 1e3)
        run_case(G, R, {"conv": x})
        R.distinct.add(("conv", x))
    for i in range(n):
        case = random_case(rng, names, ions)
        try:
            run_case(G, R, case)
        except Exception as e:
            G.violation(("exception", type(e).__name__), "relations:exception:%s:%s" % (
                compound_id(case["atoms"], case["density"]), lam_id(case["value"])),
                "a relation raised %s" % type(e).__name__, case, "%s: %s" % (type(e).__name__, e))
        R.distinct.add((len(case["atoms"]), any(nm.split("{")[0] in c03.EDEP for nm, _ in case["atoms"]),
                        any("{" in nm for nm, _ in case["atoms"]), len(case["vec"]), case["container"]))
        if i < 3:
            R.sample(case)
    return G.done()


def task_replay(tier, seed, arg):
    arg = arg or {}
    case = arg.get("input")
    if isinstance(case, dict) and any(k in case for k in ("pair", "conv", "anchor", "atoms")):
        R = Result("replay of one recorded case (all relations of that case); " + RULE_TOL)
        G = Grouped(R, per=60)
        case = {k: v for k, v in case.items() if k != "k"}
        run_case(G, R, case)
        return G.done()
    return task_relations("quick", seed, None)
