"""Native side (runner interpreter, /venv/bin/python): dispatch one task and print its JSON result."""
import argparse
import importlib
import json
import os
import sys
import traceback

HERE = os.path.dirname(os.path.abspath(__file__))
sys.path.insert(0, os.path.dirname(HERE))
repo = os.environ.get("VERIF_REPO", "/repo")
sys.path.insert(0, repo)


def main():
    ap = argparse.ArgumentParser()
    ap.add_argument("module")
    ap.add_argument("task")
    ap.add_argument("--tier", default="quick")
    ap.add_argument("--seed", type=int, default=0)
    ap.add_argument("--arg", default=None)
    a = ap.parse_args()
    arg = json.loads(a.arg) if a.arg else None
    try:
        mod = importlib.import_module("runner." + a.module)
        fn = getattr(mod, "task_" + a.task)
        res = fn(a.tier, a.seed, arg)
    except Exception:
        res = {"error": traceback.format_exc()[-3000:], "violations": [], "evaluations": 0}
    res.setdefault("task", a.task)
    res.setdefault("violations", [])
    print(json.dumps(res, default=str))


if __name__ == "__main__":
    main()
