"""Native side (runner interpreter, /venv/bin/python): dispatch one task and print its JSON result."""
import argparse
import importlib
import json
import os
import sys
import traceback

HERE = os.path.dirname(os.path.abspath(__file__))
sys.path.insert(0, os.path.dirname(HERE))
repo = os.environ.get("VERIF_REPO", "/repo")
sys.path.insert(0, repo)


def main():
    ap = argparse.ArgumentParser()
    ap.add_argument("module")
    ap.add_argument("task")
    ap.add_argument("--tier", default="quick")
    ap.add_argument("--seed", type=int, default=0)
    ap.add_argument("--arg", default=None)
    a = ap.parse_args()
    arg = json.loads(a.arg) if a.arg else None
    try:
        mod = importlib.import_module("runner." + a.module)
        fn = getattr(mod, "task_" + a.task)
        res = fn(a.tier, a.seed, arg)
    except Exception as exc:
        tb = traceback.extract_tb(sys.exc_info()[2])
        inside = [f for f in tb if os.sep + "periodictable" + os.sep in f.filename and os.path.abspath(f.filename).startswith(os.path.abspath(repo))]
        if inside and os.path.abspath(repo) != "/repo":
            # the code under test (a tree other than /repo's reference: a changed tree) raised where the task expects a value for
            # an input of the documented domain: reported as a finding of this task, not as a failure of the checker.  On /repo
            # itself a crash stays a checker error (exit 3): every task is known to run through there.
            last = inside[-1]
            res = {"evaluations": 1, "distinct": 1, "exhaustive": False, "rule": "task stopped by an exception raised inside the library",
                   "violations": [{"key": "crash:%s:%s:%s" % (a.task, type(exc).__name__, last.name),
                                   "what": "the library raised %s (%s) in %s (%s:%d) for an input of the task's documented domain; the task could not "
                                           "continue" % (type(exc).__name__, str(exc)[:160], last.name, os.path.basename(last.filename), last.lineno),
                                   "input": {"task": a.task, "traceback_tail": traceback.format_exc()[-800:]}, "observed": type(exc).__name__,
                                   "expected": "a value"}],
                   "notes": ["task aborted: " + traceback.format_exc()[-400:]]}
        else:
            res = {"error": traceback.format_exc()[-3000:], "violations": [], "evaluations": 0}
    res.setdefault("task", a.task)
    res.setdefault("violations", [])
    print(json.dumps(res, default=str))


if __name__ == "__main__":
    main()
