"""C19 native side: the Hill form of a formula is a canonical, composition-preserving normal form.

Oracle (written here; nothing is expected by calling _hill_key, _convert_to_hill_notation or .hill):

* composition: `nat.count_atoms` on the structure the formula was built from (counts are dyadic rationals, so every
  regrouping used here has *exactly* the same counts in floating point);
* order: an atom is read as (symbol, mass number or "natural", charge).  Atoms whose symbol is 'C' come first,
  then atoms whose symbol is 'H', then all others alphabetically by symbol; atoms with the same symbol are ordered
  natural element first, then by increasing mass number.  "Alphabetically" is dictionary order (letter case does not
  rank; for the table's symbols, which are one capital plus lower-case letters, this is plain string order, except
  for the neutron 'n', which belongs between 'N' and 'Na'; N versus n themselves are left undecided).
  Deuterium and tritium carry the symbols 'D' and 'T': per the statement ("alphabetically by symbol") they are
  placed among the other atoms at 'D' (after Cu/Cs, before Db/Dy) and at 'T' (before Ta), not next to 'H';
  H[1] has the symbol 'H' and is placed with hydrogen.  The statement does not rank ions of one element or
  isotope against each other, so any relative order of them is accepted by the order clause; canonicity
  (a single Hill form per composition) is what constrains them.

Violations are grouped by cause (key prefix), at most three listed per cause, totals in `notes`.
"""
import hashlib
import random

from . import nat
from .nat import Result, atom_name

PER_FAMILY = 3
COUNTS = [1, 2, 3, 4, 6, 8, 0.5, 1.5, 2.5, 10]     # dyadic: sums, halves and doublings are exact
ISO_BOUNDARY = [None, 1, 2, 9, 10, 99, 100, 999]

POOL_NAMES = [
    # carbon, hydrogen and their isotopes / ions
    "C", "C[12]", "C[13]", "C[14]", "C{4+}", "C{4-}", "C[13]{4+}", "H", "H[1]", "D", "T", "H{1+}", "H{1-}", "H[1]{1+}",
    "D{1+}", "D{1-}", "T{1+}",
    # neighbours of C, H, D, T in the alphabet
    "B", "B[10]", "B[11]", "Ba", "Be", "Br", "Ca", "Cd", "Ce", "Cl", "Cl[35]", "Cl[37]", "Cl{1-}", "Cl{5+}", "Co", "Cr", "Cs",
    "Cu", "Cu{1+}", "Cu{2+}", "Db", "Dy", "He", "Hf", "Hg", "Ho", "Ta", "Tb", "Ti", "Tl", "S", "Si", "Sn",
    # several ions and isotopes of one element
    "Fe", "Fe{2+}", "Fe{3+}", "Fe{6+}", "Fe{2-}", "Fe[54]", "Fe[56]", "Fe[57]", "Fe[56]{2+}", "Fe[56]{3+}", "Fe[54]{2+}",
    "O", "O{2-}", "O{1-}", "O[16]", "O[17]", "O[18]", "O[18]{2-}", "N", "N{3-}", "N[15]", "Na", "Na{1+}", "Ne", "Ni", "Ni{2+}",
    "Ni{3+}", "Ni[58]", "Ni[58]{2+}", "U", "U[235]", "U[238]", "U{4+}", "U{6+}", "Mn{2+}", "Mn{4+}", "Mn{7+}", "P", "K", "I",
    "W", "V", "Y", "Zn", "Zr",
]


# ----------------------------------------------------------------------------------------------
# bookkeeping
# ----------------------------------------------------------------------------------------------
class Families:
    def __init__(self, R):
        self.R = R
        self.count = {}

    def add(self, family, input_id, what, input=None, observed=None, expected=None):
        if len(input_id) > 72:
            input_id = input_id[:48] + "~" + hashlib.sha1(input_id.encode()).hexdigest()[:10]
        n = self.count.get(family, 0) + 1
        self.count[family] = n
        if n <= PER_FAMILY:
            self.R.violation("%s:%s" % (family, input_id), what, input, observed, expected)
        else:
            self.R.nviol += 1

    def finish(self):
        for fam in sorted(self.count):
            self.R.notes.append("family %s: %d failing inputs (at most %d listed)" % (fam, self.count[fam], PER_FAMILY))


def _exc(e):
    return "%s: %s" % (type(e).__name__, e)


def resolve(name):
    """table atom of a nat.atom_name spelling ('D', 'T' allowed, also with a charge); mass numbers that the table
    does not have give a free-standing Isotope object (used only by order_total's boundary carrier)"""
    import re
    import periodictable
    import periodictable.core as core
    m = re.match(r"^([A-Za-z]+)(?:\[(\d+)\])?(?:\{(\d+)([+-])\})?$", name)
    if not m:
        raise ValueError("bad atom name " + name)
    sym, iso, q, sign = m.groups()
    a = periodictable.elements.symbol(sym)
    if iso:
        k = int(iso)
        a = a[k] if k in a.isotopes else core.Isotope(a, k)
    if q:
        a = a.ion[int(q) * (1 if sign == "+" else -1)]
    return a


def name_of(a):
    """like nat.atom_name, but D and T keep their symbols"""
    import periodictable.core as core
    base = a.element if core.ision(a) else a
    if isinstance(base, core.Isotope):
        s = base.symbol if "symbol" in base.__dict__ else "%s[%d]" % (base.element.symbol, base.isotope)
    else:
        s = base.symbol
    if core.ision(a):
        s += "{%d%s}" % (abs(a.charge), "+" if a.charge > 0 else "-")
    return s


def fid(struct):
    out = ""
    for c, frag in struct:
        if isinstance(frag, (tuple, list)):
            out += "(%s)%r" % (fid(frag), c)
        else:
            out += name_of(frag) + ("" if (c == 1 and isinstance(c, int)) else repr(c))
    return out


def struct_repr(struct):
    return [[c, struct_repr(f) if isinstance(f, (list, tuple)) else name_of(f)] for c, f in struct]


def struct_from_repr(rep):
    return tuple((c, struct_from_repr(f) if isinstance(f, list) else resolve(f)) for c, f in rep)


# ----------------------------------------------------------------------------------------------
# order oracle
# ----------------------------------------------------------------------------------------------
def reading(a):
    """(symbol, mass number or 0 for the natural element, charge)"""
    import periodictable.core as core
    q = a.charge if core.ision(a) else 0
    base = a.element if core.ision(a) else a
    if isinstance(base, core.Isotope):
        return base.symbol, base.isotope, q
    return base.symbol, 0, q


def oracle_cmp(a, b):
    """-1 / +1: the statement puts a before / after b; 0: the statement does not decide (ions of one element or
    isotope; symbols that differ only in letter case)"""
    sa, ia, _ = reading(a)
    sb, ib, _ = reading(b)
    ca = 0 if sa == "C" else 1 if sa == "H" else 2
    cb = 0 if sb == "C" else 1 if sb == "H" else 2
    if ca != cb:
        return -1 if ca < cb else 1
    if sa == sb:
        return (ia > ib) - (ia < ib)
    # "alphabetically by symbol": plain string order of the symbols.  Every chemical symbol starts with a
    # capital, for which this is the usual alphabetical order; the only lower-case symbol is the neutron 'n',
    # which the formula grammar cannot name, and whose place the statement does not fix.
    if not sa[0].isupper() or not sb[0].isupper():
        return 0
    return -1 if sa < sb else 1


def order_cause(a, b):
    sa, ia, _ = reading(a)
    sb, ib, _ = reading(b)
    if sa == sb:
        return "isotope"
    if (sa in ("C", "H")) != (sb in ("C", "H")) or {sa, sb} == {"C", "H"}:
        return "carbon_hydrogen_first"
    if not sa[0].isupper() or not sb[0].isupper():
        return "lowercase_symbol"
    return "symbol"


def oracle_sorted(atoms):
    """one sequence in the order of the statement (ties by charge, only to have a definite string)"""
    def k(a):
        s, i, q = reading(a)
        return (0 if s == "C" else 1 if s == "H" else 2, s, i, q)
    return sorted(atoms, key=k)


def has_ties(atoms):
    atoms = list(atoms)
    return any(oracle_cmp(a, b) == 0 for i, a in enumerate(atoms) for b in atoms[i + 1:])


# ----------------------------------------------------------------------------------------------
# hill
# ----------------------------------------------------------------------------------------------
def regroup(rng, atoms):
    """a structure with exactly the counts `atoms`, in another order and grouping"""
    items = []
    for a, n in atoms.items():
        r = rng.random()
        if r < 0.3:
            items += [(n / 2, a), (n / 2, a)]
        elif r < 0.45 and isinstance(n, int) and n >= 2:
            k = rng.randint(1, n - 1)
            items += [(k, a), (n - k, a)]
        else:
            items.append((n, a))
    rng.shuffle(items)
    if len(items) >= 2 and rng.random() < 0.6:
        i = rng.randint(0, len(items) - 2)
        j = rng.randint(i + 1, len(items))
        m = rng.choice([2, 4, 0.5])
        items = items[:i] + [(m, tuple((c / m, a) for c, a in items[i:j]))] + items[j:]
        if rng.random() < 0.3:
            items = [(1, tuple(items))]
    return tuple(items)


def flat_atoms(structure):
    """the atoms of a flat structure in order, or None if a fragment is a group"""
    import periodictable.core as core
    out = []
    for _, frag in structure:
        if not core.isatom(frag):
            return None
        out.append(frag)
    return out


def check_hill(R, F, inp):
    """inp = {"struct": repr, "variants": [repr, ...]}: composition, order, idempotence of the Hill form of `struct`,
    and equality of the Hill forms of the variants (same counts, other order/grouping/insertion order)"""
    from periodictable.formulas import formula
    struct = struct_from_repr(inp["struct"])
    atoms = nat.count_atoms(struct)
    ident = fid(struct)
    tie = has_ties(atoms)
    try:
        f = formula(struct)
        h = f.hill
        # same atom counts
        R.ok(1)
        if h.atoms != f.atoms or h.atoms != atoms:
            F.add("hill:atoms", ident, "the Hill form does not have exactly the atom counts of the formula", inp,
                  {name_of(a): n for a, n in h.atoms.items()}, {name_of(a): n for a, n in atoms.items()})
        # order
        R.ok(1)
        seq = flat_atoms(h.structure)
        if seq is None or len(seq) != len(set(seq)) or set(seq) != set(atoms):
            F.add("hill:not_flat", ident, "the Hill form is not a flat list with one entry per atom", inp, str(h), None)
        else:
            for x, y in zip(seq, seq[1:]):
                if oracle_cmp(x, y) > 0:
                    F.add("hill:order:" + order_cause(x, y), ident + "|" + name_of(x) + ">" + name_of(y),
                          "the Hill form lists %s before %s, against 'carbon first, hydrogen second, others alphabetically by "
                          "symbol, isotopes of one element by mass number'" % (name_of(x), name_of(y)), inp,
                          [name_of(a) for a in seq], [name_of(a) for a in oracle_sorted(atoms)])
                    break
        # idempotence
        R.ok(1)
        hh = h.hill
        if not (hh == h) or str(hh) != str(h):
            F.add("hill:idempotent", ident, "taking the Hill form twice changes the formula", inp, str(hh), str(h))
        # the Hill form is a function of the current atoms: operations applied AFTER a Hill form was taken
        # (n*f, f+g, f+=g) must be reflected by the Hill forms of their results
        R.ok(3)
        for nm, g2, want in (("n*f", 3 * f, {a: 3 * n for a, n in atoms.items()}),
                             ("f+f", f + f, {a: 2 * n for a, n in atoms.items()})):
            if g2.hill.atoms != want:
                F.add("hill:stale_after:" + nm, ident, "after f.hill was taken, the Hill form of %s does not have the atoms of %s"
                      % (nm, nm), inp, {name_of(a): n for a, n in g2.hill.atoms.items()}, {name_of(a): n for a, n in want.items()})
        f3 = formula(struct)
        _ = f3.hill
        f3 += f
        if f3.hill.atoms != {a: 2 * n for a, n in atoms.items()}:
            F.add("hill:stale_after:f+=g", ident, "after f.hill was taken, f+=g is not reflected by f.hill", inp,
                  {name_of(a): n for a, n in f3.hill.atoms.items()}, None)
        # canonicity
        for vrep in inp.get("variants", []):
            g = struct_from_repr(vrep) if isinstance(vrep, list) else None
            if g is None:        # {"dict": [names in insertion order]}
                order = [resolve(nm) for nm in vrep["dict"]]
                gf = formula({a: atoms[a] for a in order})
                gid = "dict:" + ",".join(vrep["dict"])
            else:
                if nat.count_atoms(g) != atoms:
                    continue     # not an exact regrouping (cannot happen with dyadic counts; checked, not assumed)
                gf = formula(g)
                gid = fid(g)
            R.ok(1)
            gh = gf.hill
            if not (gh == h) or str(gh) != str(h):
                fam = "hill:canonical:charge" if tie else "hill:canonical:other"
                why = ("two formulas with equal atom counts have different Hill forms: ions of one element in different charge "
                       "states keep the order in which they were met" if tie else
                       "two formulas with equal atom counts have different Hill forms")
                F.add(fam, ident + "|" + gid, why, {"struct": inp["struct"], "variants": [vrep]},
                      {"hill of the formula": str(h), "hill of the regrouping": str(gh), "equal": gh == h}, "equal Hill forms")
                break
    except Exception as e:
        F.add("hill:exception:%s" % type(e).__name__, ident, "taking a Hill form raised %s" % _exc(e), inp, _exc(e), "no exception")


def write_atom(a, n):
    """the grammar's spelling of count*atom"""
    s, i, q = reading(a)
    out = s if s in ("D", "T") else (s + ("[%d]" % i if i else ""))
    if q:
        out += "{%s%s}" % ("" if abs(q) == 1 else str(abs(q)), "+" if q > 0 else "-")
    if not (n == 1):
        out += "%g" % n
    return out


def check_parsed(R, F, inp):
    """inp = {"string": s, "sequence": [[count, atom name], ...]}: s is flat and already in Hill order (sequence is what
    it must parse to); then formula(s) == formula(s).hill"""
    from periodictable.formulas import formula
    want = [(c, resolve(nm)) for c, nm in inp["sequence"]]
    # the same string with each form of the density tag: the tag changes the density, never the parsed structure
    for tag in ("", "@1.5", "@1.5n", "@1.5i"):
        _check_parsed_one(R, F, dict(inp, string=inp["string"] + tag), want)


def _check_parsed_one(R, F, inp, want):
    from periodictable.formulas import formula
    s = inp["string"]
    R.ok(1)
    try:
        p = formula(s)
        if list(p.structure) != want or not isinstance(p.structure, tuple):
            F.add("hill:parsed_eq:precondition", s, "the Hill-ordered string does not parse to the flat sequence it spells", inp,
                  str(p.structure), str(want))
            return
        h = p.hill
        if p == h and h == p:
            return
        same_content = [tuple(x) for x in h.structure] == [tuple(x) for x in p.structure]
        if same_content:
            F.add("hill:parsed_eq:container_type", s,
                  "a formula parsed from a string already in Hill order is not equal to its own Hill form: the entries are the "
                  "same but the Hill form's structure is a %s and the parsed one a %s, and Formula equality compares structures"
                  % (type(h.structure).__name__, type(p.structure).__name__), inp,
                  {"formula == hill": p == h, "hill.structure": str(h.structure), "structure": str(p.structure)}, True)
        else:
            F.add("hill:parsed_eq:content", s, "a formula parsed from a string already in Hill order differs from its Hill form",
                  inp, str(h.structure), str(p.structure))
    except Exception as e:
        F.add("hill:exception:%s" % type(e).__name__, s, "parsing or taking the Hill form raised %s" % _exc(e), inp, _exc(e),
              "no exception")


def task_hill(tier, seed, arg):
    n = 600 if tier == "quick" else 20000
    rng = random.Random(seed)
    R = Result("seeded random nested structures (depth<=2, <=5 entries per level, dyadic counts %r) over a pool of %d atoms: "
               "elements around C/H/D/T in the alphabet, isotopes of one element (C, H incl. D and T, O, Fe, B, Cl, U), several "
               "charge states of one element (Fe, Cu, Ni, Mn, O, U, H, D) and isotope ions (the neutron is covered by "
               "order_total only); per formula: Hill atoms == atoms == independent count; order of hill.structure against the "
               "oracle (D and T are placed alphabetically at 'D' and 'T', H[1] with hydrogen; ions of one element in any "
               "relative order); idempotence; 4 regroupings (splitting, shuffling, grouping with factors 2, 4, 0.5, exact in "
               "floats) and 2 dict insertion orders (reverse and forward name order) must have == Hill forms with equal strings; plus one flat string in the "
               "oracle's order per case (no two atoms that the statement leaves unordered) for formula(s) == formula(s).hill; "
               "bounded: %d cases; distinct = distinct atom sets with >= 2 atoms" % (COUNTS, len(POOL_NAMES), n))
    F = Families(R)
    pool = [resolve(nm) for nm in POOL_NAMES]
    fixed = [[[1, "Fe{2+}"], [1, "Fe{3+}"], [2, "O"]], [[1, "Fe{3+}"], [1, "Fe{2+}"], [2, "O"]],
             [[1, "C"], [4, "H"]], [[2, "D"], [1, "O"]], [[1, "O"], [1, "T"], [1, "H"], [1, "D"], [1, "C[13]"], [1, "C"]]]
    for i in range(n + len(fixed)):
        if i < len(fixed):
            struct = struct_from_repr(fixed[i])
        else:
            struct = nat.random_structure(rng, pool, depth=rng.randint(0, 2), maxlen=5, counts=COUNTS)
        atoms = nat.count_atoms(struct)
        keys = sorted(atoms, key=name_of)      # two insertion orders that do not depend on the seed come first
        variants = [{"dict": [name_of(a) for a in reversed(keys)]}, {"dict": [name_of(a) for a in keys]}]
        variants += [struct_repr(regroup(rng, atoms)) for _ in range(4)]
        inp = {"struct": struct_repr(struct), "variants": variants}
        check_hill(R, F, inp)
        if len(atoms) >= 2:
            R.distinct.add(frozenset(name_of(a) for a in atoms))
        if i < 2:
            R.sample({"struct": inp["struct"], "oracle order": [name_of(a) for a in oracle_sorted(atoms)], "variants": len(variants)})
    # strings already in Hill order
    named = [("CH4", [[1, "C"], [4, "H"]]), ("C2H6O", [[2, "C"], [6, "H"], [1, "O"]]), ("H2O4S", [[2, "H"], [4, "O"], [1, "S"]]),
             ("D2O", [[2, "D"], [1, "O"]]), ("CC[13]H[1]DO", [[1, "C"], [1, "C[13]"], [1, "H[1]"], [1, "D"], [1, "O"]])]
    for s, seq in named:
        check_parsed(R, F, {"string": s, "sequence": seq})
    for i in range(n):
        k = rng.randint(1, 6)
        chosen = []
        for a in rng.sample(pool, k):
            if all(oracle_cmp(a, b) != 0 for b in chosen):
                chosen.append(a)
        seq = [(rng.choice([1, 2, 3, 4, 6, 10, 0.5, 2.5]), a) for a in oracle_sorted(chosen)]
        s = "".join(write_atom(a, c) for c, a in seq)
        inp = {"string": s, "sequence": [[c, name_of(a)] for c, a in seq]}
        check_parsed(R, F, inp)
        if i < 2:
            R.sample(inp)
    F.finish()
    return R.done()


# ----------------------------------------------------------------------------------------------
# order_total
# ----------------------------------------------------------------------------------------------
def code_order():
    """(key function or None, pair comparison through the code's own sort)"""
    import periodictable.formulas as pf
    key = getattr(pf, "_hill_key", None)
    conv = getattr(pf, "_convert_to_hill_notation", None)

    def first_of(a, b):
        if conv is not None:
            return conv({a: 1, b: 1})[0][1]
        return pf.formula({a: 1, b: 1}).hill.structure[0][1]

    def behaviour(a, b):
        """-1 / +1 if the code's sort puts a before / after b whatever the insertion order, 0 if it depends on it"""
        x, y = first_of(a, b), first_of(b, a)
        if x is a and y is a:
            return -1
        if x is b and y is b:
            return 1
        return 0
    return key, behaviour


def carrier():
    import periodictable
    import periodictable.core as core
    neutral, seen = [], set()

    def add(a):
        if id(a) not in seen:
            seen.add(id(a))
            neutral.append(a)
    for el in periodictable.elements:
        for k in ISO_BOUNDARY:
            if k is None:
                add(el)
            else:
                add(el[k] if k in el.isotopes else core.Isotope(el, k))
    add(periodictable.elements.D)
    add(periodictable.elements.T)
    return neutral


def check_pair(R, F, inp, key=None, behaviour=None):
    """inp = {"a": name, "b": name}: the code's sort orders the pair as the oracle does, and never treats two distinct
    atoms as equal"""
    if key is None and behaviour is None:
        key, behaviour = code_order()
    a, b = resolve(inp["a"]), resolve(inp["b"])
    if a is b:
        return
    _pair(R, F, a, b, key, behaviour, inp)


def _pair(R, F, a, b, key, behaviour, inp=None):
    o = oracle_cmp(a, b)
    if key is not None:
        ka, kb = key(a), key(b)
        c = (ka > kb) - (ka < kb)
        obs = {"key(a)": ka, "key(b)": kb}
    else:
        c = behaviour(a, b)
        obs = {"sorted": "a first" if c < 0 else "b first" if c > 0 else "depends on the insertion order"}
    if c == 0:
        ra, rb = reading(a), reading(b)
        inp = inp or {"a": name_of(a), "b": name_of(b)}
        if ra[:2] == rb[:2]:
            return "charge", inp, obs
        F.add("order_total:key_collision:other", "%s,%s" % (name_of(a), name_of(b)),
              "two distinct atoms get equal sort keys, so their order in a Hill form depends on the order in which they were met "
              "and the Hill form is not canonical", inp, obs, "distinct keys")
        return None
    if o != 0 and c != o:
        x, y = (a, b) if o < 0 else (b, a)
        F.add("order_total:order:" + order_cause(a, b), "%s,%s" % (name_of(a), name_of(b)),
              "the sort key puts %s after %s, but the statement lists %s first (carbon, hydrogen, then alphabetically by symbol, "
              "isotopes of one element by mass number)" % (name_of(x), name_of(y), name_of(x)),
              inp or {"a": name_of(a), "b": name_of(b)}, obs, "%s before %s" % (name_of(x), name_of(y)))
    return None


def task_order_total(tier, seed, arg):
    import periodictable.core as core
    rng = random.Random(seed)
    key, behaviour = code_order()
    neutral = carrier()
    R = Result("exhaustive over the finite carrier: every symbol of the table (119 incl. the neutron 'n') x mass number in %r "
               "(table isotopes where they exist, free-standing Isotope objects otherwise; H[2] is D) plus D and T = %d neutral "
               "atoms, all unordered pairs: the code's sort key (%s) orders the pair as the oracle does and is never equal; then "
               "for every neutral atom of an element with ions, the atom and all its charge states (el.ions) pairwise: keys must "
               "differ; plus a sample of pairs through formula({a:1,b:1}).hill in both insertion orders to confirm that the key "
               "is the one the Hill form uses; distinct = pairs on which the oracle decides an order"
               % (ISO_BOUNDARY, len(neutral), "periodictable.formulas._hill_key" if key else "observed through "
                  "_convert_to_hill_notation on two-atom dicts, both insertion orders"), exhaustive=True)
    F = Families(R)
    decided = 0
    keys = [key(a) for a in neutral] if key else None
    ocls = [reading(a) for a in neutral]
    for i, a in enumerate(neutral):
        for j in range(i + 1, len(neutral)):
            b = neutral[j]
            R.evaluations += 1
            if keys is not None:
                # fast path: same decision as _pair, without building messages for the passing pairs
                o = oracle_cmp(a, b)
                ka, kb = keys[i], keys[j]
                c = (ka > kb) - (ka < kb)
                if o != 0:
                    decided += 1
                if c != 0 and (o == 0 or c == o):
                    continue
            elif oracle_cmp(a, b) != 0:
                decided += 1
            _pair(R, F, a, b, key, behaviour)
    # charge states
    groups = 0
    for base in neutral:
        ions = getattr(base, "ions", ())
        if not ions:
            continue
        group = [base] + [base.ion[q] for q in ions]
        groups += 1
        collide = []
        for i, a in enumerate(group):
            for b in group[i + 1:]:
                R.evaluations += 1
                r = _pair(R, F, a, b, key, behaviour)
                if r is not None:
                    collide.append((name_of(a), name_of(b), r[2]))
        if collide:
            F.add("order_total:key_collision:charge", name_of(base),
                  "charge states of one %s get equal sort keys (the charge is not part of the key), so formulas with the same "
                  "atom counts that meet them in different orders have different Hill forms"
                  % ("isotope" if isinstance(base, core.Isotope) else "element"),
                  {"a": collide[0][0], "b": collide[0][1]},
                  {"colliding pairs": len(collide), "first": list(collide[0][:2]), "keys": collide[0][2]}, "distinct keys")
    R.notes.append("%d groups (neutral atom + its charge states) checked for key collisions" % groups)
    # the key is the one in use
    m = 1500 if tier == "quick" else 40000
    from periodictable.formulas import formula
    pool = [a for a in neutral] + [resolve(nm) for nm in POOL_NAMES]
    for _ in range(m):
        a, b = rng.sample(pool, 2)
        if a is b:
            continue
        R.evaluations += 1
        s1 = [x for _, x in formula({a: 1, b: 1}).hill.structure]
        s2 = [x for _, x in formula({b: 1, a: 1}).hill.structure]
        if key is not None:
            ka, kb = key(a), key(b)
            want1 = [a, b] if ka <= kb else [b, a]
            want2 = [b, a] if kb <= ka else [a, b]
            if s1 != want1 or s2 != want2:
                F.add("order_total:key_not_used", "%s,%s" % (name_of(a), name_of(b)),
                      "the Hill form of a two-atom formula is not in the (stable) order of the sort key examined here",
                      {"a": name_of(a), "b": name_of(b)}, [[name_of(x) for x in s1], [name_of(x) for x in s2]],
                      [[name_of(x) for x in want1], [name_of(x) for x in want2]])
    R.distinct = set(range(decided))
    R.sample({"carrier": len(neutral), "pairs": len(neutral) * (len(neutral) - 1) // 2, "decided by the oracle": decided})
    R.sample({"a": "D", "b": "Dy", "oracle": oracle_cmp(resolve("D"), resolve("Dy")),
              "keys": [key(resolve("D")), key(resolve("Dy"))] if key else None})
    R.sample({"a": "C[999]", "b": "H", "oracle": oracle_cmp(resolve("C[999]"), resolve("H")),
              "keys": [key(resolve("C[999]")), key(resolve("H"))] if key else None})
    F.finish()
    return R.done()


# ----------------------------------------------------------------------------------------------
# replay
# ----------------------------------------------------------------------------------------------
def task_replay(tier, seed, arg):
    arg = arg or {}
    inp, key = arg.get("input"), arg.get("key", "")
    R = Result("replay of one recorded input through the same check function")
    F = Families(R)
    if not isinstance(inp, dict):
        R.notes.append("nothing to replay: no input")
        return R.done()
    if "struct" in inp:
        check_hill(R, F, inp)
    elif "string" in inp:
        check_parsed(R, F, inp)
    elif "a" in inp and "b" in inp:
        k, beh = code_order()
        a, b = resolve(inp["a"]), resolve(inp["b"])
        R.ok(1)
        r = _pair(R, F, a, b, k, beh, inp)
        if r is not None:
            base = a.element if hasattr(a, "charge") and a.charge else a
            F.add("order_total:key_collision:charge", key.rsplit(":", 1)[-1] if key.startswith("order_total:key_collision:charge:")
                  else name_of(base), "charge states of one element or isotope get equal sort keys (the charge is not part of "
                  "the key)", inp, r[2], "distinct keys")
    else:
        R.notes.append("unrecognised input for key %r" % key)
    R.sample(inp)
    F.finish()
    return R.done()
