"""C11 (native, BOUNDED): mixtures keep the requested mass / volume proportions and a consistent density.

Tasks
  pairs    seeded random calls of mix_by_weight / mix_by_volume (1..6 components; compounds with and
           without density; components that are mixtures; quantities over 12 orders of magnitude incl. 0;
           the same component with a rescaled formula unit) against the documented mixing rule.
  strings  mixture strings rendered from reference derivations (every unit spelling, wt%/vol% with the
           remainder to the last part, nesting <= 3, repeated groups, total_mass / thickness) against
           the reference meaning and against the corresponding mix_by_* call.
  replay   arg = {"input": <input of a violation>, "key": k}
"""
import re
import time
import random

from runner import ref_formula as R
from runner.c01 import tables, info, real_formula

REL = 1e-9
TINY = 1e-13      # shares below this (of all atoms) are treated as absent: float noise of 100 - sum


def _mixers():
    from periodictable import mix_by_weight, mix_by_volume
    return {"weight": mix_by_weight, "volume": mix_by_volume}


def _norm_msg(exc):
    msg = "%s:%s" % (type(exc).__name__, str(exc))
    msg = re.sub(r"\(at char.*", "", msg)
    msg = re.sub(r"found '.*?'", "found ...", msg)
    msg = re.sub(r"density of .*", "density of ...", msg)
    msg = re.sub(r"[0-9]+", "N", msg)
    return msg.strip()[:80]


def fractions_of(atoms):
    tot = sum(atoms.values())
    return {a: n / tot for a, n in atoms.items()} if tot else {}


def composition_diff(got, want, rel=REL):
    """compare two normalised compositions; an atom missing on one side counts as share 0"""
    for a in set(got) | set(want):
        x, y = got.get(a, 0.0), want.get(a, 0.0)
        if max(x, y) > TINY and abs(x - y) > rel * max(x, y):
            return (R.atom_name(a), x, y)
    return None


def has_ion(atoms):
    return any(getattr(a, "charge", 0) for a in atoms)


# ---------------------------------------------------------------------------------------------
# pairs: component specs (JSON-able) -> real argument + reference meaning
# ---------------------------------------------------------------------------------------------
COMPOUNDS_D = ["H2O@1", "D2O@1n", "NaCl@2.16", "Fe", "Ni", "Si", "Au", "C2H6O@0.789", "CaCO3@2.71",
               "SiO2@2.2", "Fe[56]", "D2O@1.112i", "HO((CH2)2O)6H@1.12", "Na{+}Cl{-}@2.16", "Al2O3@3.95",
               "U[235]O2@10.9", "Pb", "Li[6]F@2.6"]
COMPOUNDS_N = ["NaCl", "H2O", "C6H12O6", "CaCO3+6H2O", "D2O", "Fe2O3", "KBr", "P{5+}O{2-}4"]
MIXTURE_STRINGS_D = ["10wt% NaCl@2.16 // H2O@1", "20vol% Fe // Ni", "5g NaCl@2.16 // 50mL H2O@1",
                     "1 um Si // 5 nm Cr // 10 nm Au", "(30wt% Co // Ni)@8.5"]
MIXTURE_STRINGS_N = ["10wt% NaCl // H2O@1", "5g KBr // 50mL H2O@1"]


def _scaled_text(text, k):
    """the same compound with its formula unit written k times: 'H2O@1' -> '2H2O@1' or '(CaCO3+6H2O)2'"""
    ast = R.parse(text)
    if not isinstance(ast, R.Compound):
        return None
    dens = ast.density
    body = R.Compound(ast.groups, ast.seps, None)
    g = R.Group(True, str(k), body.groups, body.seps)
    if len(ast.groups) == 1 and not ast.groups[0].explicit and ast.groups[0].count is None:
        g = R.Group(False, str(k), ast.groups[0].items)
    return R.render(R.Compound([g], None, dens))


def realise(spec, T):
    """(argument for mix_by_*, reference Meaning) of one component spec"""
    import periodictable
    if "mix" in spec:
        sub = spec["mix"]
        args, means = [], []
        for c, q in zip(sub["components"], sub["quantities"]):
            a, m = realise(c, T)
            args += [a, q]
            means.append(m)
        f = _mixers()[sub["by"]](*args, table=T)
        m = R.mix_meaning(means, sub["quantities"], sub["by"])
        return f, m
    text = spec["text"]
    m = R.meaning(R.parse(text), T)
    how, k = spec.get("how", "string"), spec.get("scale")
    if how == "string":
        return text, m
    if how == "formula":
        return periodictable.formula(text, table=T), m
    if how == "scaled_string":
        return _scaled_text(text, k), m.scaled(k)
    if how == "scaled_formula":
        return k * periodictable.formula(text, table=T), m.scaled(k)
    raise ValueError(how)


def rescale_spec(spec, rng):
    """another spelling of the same material with a different formula unit"""
    if "mix" in spec:
        return spec
    new = dict(spec)
    k = rng.choice([2, 3, 10, 0.5, 1.25, 1000, 1e-3])
    ast = R.parse(spec["text"])
    if isinstance(ast, R.Compound) and k in (2, 3, 10) and rng.random() < 0.5 and spec.get("how", "string") == "string":
        new.update(how="scaled_string", scale=k)
    else:
        new.update(how="scaled_formula", scale=k)
    return new


def random_quantity(rng):
    r = rng.random()
    if r < 0.12:
        return 0
    if r < 0.4:
        return rng.choice([1, 2, 5, 10, 50, 100, 0.5, 1.25])
    return float("%.3g" % (rng.uniform(1, 10) * 10.0 ** rng.randint(-6, 6)))


def random_component(rng, need_density, depth):
    r = rng.random()
    if depth > 0 and r < 0.15:
        by = rng.choice(["weight", "volume"])
        n = rng.randint(1, 3)
        nd = need_density or by == "volume"
        comps = [random_component(rng, nd, depth - 1) for _ in range(n)]
        qs = [random_quantity(rng) or 1 for _ in range(n)]
        return dict(mix=dict(by=by, components=comps, quantities=qs))
    if r < 0.3:
        pool = MIXTURE_STRINGS_D if (need_density or rng.random() < 0.6) else MIXTURE_STRINGS_N
        return dict(text=rng.choice(pool), how=rng.choice(["string", "formula"]))
    pool = COMPOUNDS_D if (need_density or rng.random() < 0.6) else COMPOUNDS_N
    return dict(text=rng.choice(pool), how=rng.choice(["string", "string", "formula"]))


def random_case(rng, i):
    by = "weight" if i % 2 == 0 else "volume"
    n = rng.choice([1, 2, 2, 3, 3, 4, 5, 6])
    missing = by == "volume" and rng.random() < 0.08
    comps = [random_component(rng, by == "volume", 2) for _ in range(n)]
    if missing:
        comps[rng.randrange(n)] = dict(text=rng.choice(COMPOUNDS_N[:6]), how="string")
    qs = [random_quantity(rng) for _ in range(n)]
    kw = {}
    r = rng.random()
    if not any(q > 0 for q in qs):
        r = 1.0       # an empty mixture has no density to set (0/0), outside the property
    if r < 0.08:
        kw["density"] = rng.choice([1.5, 2.25, 0.9])
    elif r < 0.16:
        kw["natural_density"] = rng.choice([1.5, 2.25, 0.9])
    elif r < 0.22:
        kw["name"] = "mix %d" % i
    return dict(by=by, components=comps, quantities=qs, kw=kw,
                table="private" if i % 7 == 3 else "public")


def expected_pairs(case, T):
    """reference Meaning of the call, or ('raises', reason)"""
    args, means = [], []
    for c, q in zip(case["components"], case["quantities"]):
        a, m = realise(c, T)
        args += [a, q]
        means.append(m)
    try:
        m = R.mix_meaning(means, case["quantities"], case["by"])
    except R.RefMixError as exc:
        return args, means, ("raises", str(exc))
    kw = case.get("kw") or {}
    if kw.get("natural_density"):
        nat = sum(n * R.natural_mass(a) for a, n in m.atoms.items())
        m.density = kw["natural_density"] / (nat / m.mass)
    if kw.get("density"):
        m.density = kw["density"]
    return args, means, m


def check_pairs(case, rng=None):
    """list of (cause, observed, expected) for one mix_by_* call (plus its rescaled twin)"""
    tabs = tables()
    T = tabs[case.get("table", "public")]
    by = case["by"]
    out = []
    try:
        args, means, exp = expected_pairs(case, T)
    except Exception as exc:
        # a component could not even be built (e.g. a nested mixture that raises): report as such
        return [("%s:component_raises:%s" % (by, _norm_msg(exc)), "%s: %s" % (type(exc).__name__, exc),
                 "the component formulas can be built")], 0
    kw = dict(case.get("kw") or {})
    n_eval = 1
    try:
        f = _mixers()[by](*args, table=T, **kw)
    except Exception as exc:
        if isinstance(exp, tuple):
            if not isinstance(exc, ValueError):
                out.append(("%s:missing_density_wrong_exception" % by, type(exc).__name__, "ValueError"))
            return out, n_eval
        return [("%s:exception:%s" % (by, _norm_msg(exc)), "%s: %s" % (type(exc).__name__, str(exc)[:150]),
                 "a mixture")], n_eval
    if isinstance(exp, tuple):
        return [("%s:missing_density_accepted" % by, dict(atoms=R.atoms_json(f.atoms), density=f.density),
                 "ValueError (%s)" % exp[1])], n_eval
    got = fractions_of(f.atoms)
    d = composition_diff(got, exp.fractions())
    if d:
        out.append(("%s:proportions" % by, dict(atom=d[0], share=d[1]), dict(atom=d[0], share=d[2])))
    # masses / volumes per component, when the components have no atom in common
    live = [(m, q) for m, q in zip(means, case["quantities"]) if q > 0]
    keys = [set(m.atoms) for m, _ in live]
    disjoint = all(not (keys[i] & keys[j]) for i in range(len(keys)) for j in range(i))
    if disjoint and live and not d:
        amounts = []
        for m, q in live:
            mass = sum(f.atoms.get(a, 0) * a.mass for a in m.atoms)
            amounts.append(mass if by == "weight" else mass / m.density)
        tot, qt = sum(amounts), sum(q for _, q in live)
        for (m, q), amt in zip(live, amounts):
            if not R.close(amt / tot, q / qt, REL):
                out.append(("%s:component_amount_ratio" % by, amt / tot, q / qt))
                break
    # zero-quantity components vanish
    gone = set()
    for m, q in zip(means, case["quantities"]):
        if not q > 0:
            gone |= set(m.atoms)
    for m, q in live:
        gone -= set(m.atoms)
    present = [a for a in gone if a in f.atoms]
    if present:
        out.append(("%s:zero_quantity_component_present" % by, [R.atom_name(a) for a in present], []))
    if not R.close(f.density, exp.density, REL):
        kind = "density"
        if kw.get("natural_density"):
            kind = "natural_density_keyword" + ("_with_ion" if has_ion(exp.atoms) else "")
        elif kw.get("density"):
            kind = "density_keyword"
        out.append(("%s:%s" % (by, kind), f.density, exp.density))
    if kw.get("name") and (f.name != kw["name"] or str(f) != kw["name"]):
        out.append(("%s:name_keyword" % by, [f.name, str(f)], kw["name"]))
    if any(getattr(a, "table", None) and _table_of(a) is not T for a in f.atoms):
        out.append(("%s:table_keyword" % by, "atoms of another table", case.get("table")))
    # the same materials with rescaled formula units
    if rng is not None and live:
        twin = dict(case)
        twin["components"] = [rescale_spec(c, rng) for c in case["components"]]
        if twin["components"] != case["components"]:
            n_eval += 1
            try:
                args2, _, _ = expected_pairs(twin, T)
                f2 = _mixers()[by](*args2, table=T, **kw)
                d2 = composition_diff(fractions_of(f2.atoms), got)
                if d2:
                    out.append(("%s:depends_on_formula_unit" % by,
                                dict(atom=d2[0], share=d2[1], components=twin["components"]),
                                dict(atom=d2[0], share=d2[2])))
                elif not R.close(f2.density, f.density, REL):
                    out.append(("%s:density_depends_on_formula_unit" % by,
                                dict(density=f2.density, components=twin["components"]), f.density))
            except Exception as exc:
                out.append(("%s:rescaled_exception:%s" % (by, _norm_msg(exc)),
                            dict(error="%s: %s" % (type(exc).__name__, exc), components=twin["components"]),
                            "same mixture"))
    return out, n_eval


def _table_of(atom):
    el, _, _ = R._species(atom)
    from periodictable import core
    if el.table == core.PUBLIC_TABLE_NAME:
        import periodictable
        return periodictable.elements
    return core.PRIVATE_TABLES.get(el.table)


def check_odd(by, T):
    try:
        f = _mixers()[by]("H2O@1", 1, "NaCl@2.16", table=T)
    except Exception:
        return []
    return [("%s:odd_argument_count_accepted" % by, str(f), "an exception")]


PAIRS_WHAT = {
    "proportions": "the composition is not sum_i (q_i/m_i) atoms_i [weight] / sum_i (q_i rho_i/m_i) atoms_i "
                   "[volume] up to one common factor",
    "component_amount_ratio": "the masses (volumes) n_i m_i (/rho_i) of the components are not in the ratio "
                              "of the quantities",
    "zero_quantity_component_present": "a component with quantity 0 is present in the result",
    "density": "density is not sum q / sum (q/rho_i) [weight] / sum q rho_i / sum q [volume] "
               "(None when a density is unknown)",
    "density_keyword": "density= keyword not applied",
    "natural_density_keyword": "natural_density= keyword: density is not natural_density / (natural mass / mass)",
    "natural_density_keyword_with_ion": "natural_density= keyword with ions: density is not natural_density / "
                                        "(natural mass / mass) with the natural mass keeping the charge "
                                        "(natural_mass_ratio defect of C12)",
    "name_keyword": "name= keyword not applied",
    "missing_density_accepted": "mix_by_volume with an unknown component density returns a formula; "
                                "ValueError is documented",
    "depends_on_formula_unit": "the result changes by more than a common factor when a component is given "
                               "with a rescaled formula unit (e.g. 'H2O' vs '2H2O' / k*formula)",
}


def _group(groups, cause, s_key, inp, observed, expected, prio=2):
    """collect one failure under its cause; examples ordered by (priority, length): fixed systematic inputs
    first so that the key of a cause is the same in both tiers"""
    g = groups.setdefault(cause, dict(count=0, examples=[]))
    g["count"] += 1
    ex = g["examples"]
    e = dict(id=s_key, input=inp, observed=observed, expected=expected, prio=prio)
    k = (prio, len(s_key), s_key)
    if all(x["id"] != s_key for x in ex) and (len(ex) < 6 or k < (ex[-1]["prio"], len(ex[-1]["id"]), ex[-1]["id"])):
        ex.append(e)
        ex.sort(key=lambda x: (x["prio"], len(x["id"]), x["id"]))
        del ex[6:]


def case_id(case):
    def cid(c):
        if "mix" in c:
            return "%s(%s)" % (c["mix"]["by"][0], ",".join("%s:%g" % (cid(x), q) for x, q in
                                                           zip(c["mix"]["components"], c["mix"]["quantities"])))
        s = c["text"]
        if c.get("scale"):
            s = "%g*[%s]" % (c["scale"], s)
        return s
    return "%s[%s]%s" % (case["by"], ",".join("%s:%g" % (cid(c), q) for c, q in
                                             zip(case["components"], case["quantities"])),
                         "".join(",%s=%s" % kv for kv in sorted((case.get("kw") or {}).items())))


def task_pairs(tier, seed, arg):
    t0 = time.time()
    rng = random.Random(seed)
    n_cases = 30000 if tier == "thorough" else 2500
    groups, evals, seen, samples = {}, 0, set(), []
    tabs = tables()
    for by in ("weight", "volume"):
        for tname, T in tabs.items():
            evals += 1
            for cause, obs, exp in check_odd(by, T):
                _group(groups, cause, "%s odd %s" % (by, tname), dict(odd=True, by=by, table=tname), obs, exp)
    fixed = [
        dict(by="weight", components=[dict(text="H2O@1"), dict(text="D2O@1n")], quantities=[2, 1]),
        dict(by="volume", components=[dict(text="H2O@1"), dict(text="D2O@1n")], quantities=[2, 1]),
        dict(by="weight", components=[dict(text="H2O@1"), dict(text="NaCl@2.16")], quantities=[1e6, 1e-6]),
        dict(by="volume", components=[dict(text="Fe"), dict(text="NaCl")], quantities=[1, 1]),
        dict(by="volume", components=[dict(text="Fe"), dict(text="NaCl")], quantities=[1, 0]),
        dict(by="weight", components=[dict(text="Fe"), dict(text="Ni")], quantities=[0, 0]),
        dict(by="weight", components=[dict(text="Na{+}Cl{-}@2.16"), dict(text="H2O@1")], quantities=[1, 9],
             kw=dict(natural_density=1.1)),
    ]
    for i in range(n_cases):
        case = fixed[i] if i < len(fixed) else random_case(rng, i)
        case.setdefault("kw", {})
        case.setdefault("table", "public")
        cid = case_id(case)
        res, n = check_pairs(case, rng)
        evals += n
        seen.add(cid)
        if len(samples) < 5 and i % 401 == 0:
            samples.append(dict(case=case, violations=len(res)))
        for cause, obs, exp in res:
            _group(groups, cause, cid, case, obs, exp, 0 if i < len(fixed) else 2)
    violations = []
    for cause, g in sorted(groups.items()):
        first = g["examples"][0]
        clause = cause.split(":")[1] if ":" in cause else cause
        violations.append(dict(
            key="pairs:%s:%s" % (cause, first["id"]), what=PAIRS_WHAT.get(clause, cause),
            input=first["input"], observed=first["observed"], expected=first["expected"], count=g["count"],
            examples=[e["id"] for e in g["examples"][:3]]))
    return dict(evaluations=evals, distinct=len(seen),
                rule="seeded random mix_by_weight / mix_by_volume calls: 1..6 components drawn from compounds "
                     "with/without density, mixture strings and nested mix_by_* results (depth <= 2); "
                     "quantities 0 or 1e-6..1e7; every call repeated with rescaled formula units; keywords "
                     "density/natural_density/name; public and private table; odd argument counts; "
                     "comparisons rel %g on normalised composition (shares below %g ignored)" % (REL, TINY),
                exhaustive=False, samples=samples, violations=violations[:60],
                notes=["BOUNDED sample of %d calls" % evals, "runtime %.1f s" % (time.time() - t0)])


# ---------------------------------------------------------------------------------------------
# strings
# ---------------------------------------------------------------------------------------------
def _part_argument(p, T):
    """a component of the corresponding call: compounds as strings, parenthesised mixtures as the Formula
    of the inner mixture string with the density tag applied through the documented keywords"""
    import periodictable
    if isinstance(p, R.GroupedMixture):
        kw = {}
        if p.density is not None:
            kw["natural_density" if p.density[1] == "n" else "density"] = float(R.cval(p.density[0]))
        return periodictable.formula(R.render(p.mixture), table=T, **kw)
    return R.render(p)


def corresponding_call(ast, T):
    """the mix_by_* call the guide says the string is equivalent to: (by, args); raises if a component
    cannot be built on its own (then there is nothing to compare with)"""
    top = ast.mixture if isinstance(ast, R.GroupedMixture) else ast
    if isinstance(top, R.Percentage):
        pcts = [R.cval(c) for c, _ in top.items]
        args = []
        for (c, p), v in zip(top.items, pcts):
            args += [_part_argument(p, T), float(v)]
        args += [_part_argument(top.base, T), float(100 - sum(pcts))]
        return ("weight" if top.kind == "wt" else "volume"), args
    parts, amounts = R._quantity_amounts(top, T)
    args = []
    for it, amt in zip(top.items, amounts):
        if isinstance(it, R.QRepeat):
            import periodictable
            args += [periodictable.formula(R.render(it.quantity), table=T), amt]
        else:
            args += [_part_argument(it.part, T), amt]
    return ("volume" if top.family == "length" else "weight"), args


def features(ast, style=None):
    top = ast.mixture if isinstance(ast, R.GroupedMixture) else ast
    fam = top.kind if isinstance(top, R.Percentage) else top.family
    toks = R.tokens(ast, style)
    rep = any(t[0] == "mclose" and isinstance(t[2], R.QRepeat) for t in toks)
    rep_len = any(t[0] == "mclose" and isinstance(t[2], R.QRepeat) and t[2].quantity.family == "length"
                  for t in toks)
    # a percent sign that ends the keyword (bare '%', or '%wt', '%v' ...) then white space then a part with
    # a leading count
    pct_space_count = None
    for i, t in enumerate(toks):
        k = t[1].strip()
        if t[0] == "kw" and (k == "%" or not k.endswith("%")) and t[1].endswith(" ") \
                and i + 1 < len(toks) and toks[i + 1][0] == "lcount":
            if k == "%":
                pct_space_count = "bare_percent"
            elif pct_space_count is None:
                pct_space_count = "percent_first_keyword"
    # an ion inside a part whose density is given as natural density
    nat_ion = False
    for t in toks:
        if t[0] == "dens" and t[1].endswith("n"):
            try:
                sub = t[2] if isinstance(t[2], R.Compound) else t[2]
                nat_ion = nat_ion or any(x[0] == "ion" for x in R.tokens(sub))
            except Exception:
                pass
    return dict(fam=fam, rep=rep, rep_len=rep_len, pct_space_count=pct_space_count, nat_ion=nat_ion)


def exception_cause(exc, feat):
    msg = _norm_msg(exc)
    if "absthick" in msg:
        return "exception:" + msg + ":parenthesised_layer_group"
    if isinstance(exc, ValueError) and "unknown element L" in str(exc):
        return "exception:" + msg + ":litre_unit_first_in_list"
    if isinstance(exc, TypeError) and "NoneType" in str(exc) and "float" in str(exc):
        return "exception:" + msg + ":single_isotope_of_element_without_density"
    if type(exc).__name__ == "ParseException":
        if feat["pct_space_count"]:
            return "exception:ParseException:%s_then_space_then_counted_part" % feat["pct_space_count"]
        return "exception:ParseException:other"
    return "exception:" + msg


def check_string(ast, style, T, with_call=True, literal=None):
    """(string, [(cause, observed, expected)])"""
    s = literal if literal is not None else R.render(ast, style)
    feat = features(ast, style)
    fam = feat["fam"]
    suffix = (":natural_density_tag_with_ion" if feat["nat_ion"] else "") + \
             (":repeated_group" if feat["rep"] else "")
    out = []
    try:
        m = R.meaning(ast, T)
        exp_err = None
    except R.RefMixError as exc:
        m, exp_err = None, str(exc)
    try:
        back = R.meaning(R.parse(s), T)
        if m is not None and (composition_diff(back.fractions(), m.fractions(), 1e-12)
                              or not R.close(back.density, m.density, 1e-12)):
            return s, [("HARNESS:reference_inconsistent", None, None)]
    except R.RefMixError:
        if m is not None:
            return s, [("HARNESS:reference_inconsistent", None, None)]
    except R.RefError as exc:
        return s, [("HARNESS:reference_cannot_read:%s" % type(exc).__name__, str(exc), None)]
    try:
        f = real_formula(s, T)
    except Exception as exc:
        if exp_err is not None:
            return s, out
        return s, [(exception_cause(exc, feat), "%s: %s" % (type(exc).__name__, str(exc)[:150]),
                    dict(composition=R.atoms_json(m.fractions()), density=m.density, total_mass=m.total_mass,
                         thickness=m.thickness))]
    if exp_err is not None:
        return s, [("should_raise:%s" % exp_err, dict(returned=str(f), density=f.density), "an exception")]
    for clause, obs, exp in R.compare_mixture(f, m, REL):
        if clause == "composition":
            d = composition_diff(fractions_of(f.atoms), m.fractions())
            if not d:
                continue
            obs, exp = dict(atom=d[0], share=d[1]), dict(atom=d[0], share=d[2])
        out.append(("%s:%s%s" % (clause, fam, suffix), obs, exp))
    if with_call and not out:
        try:
            by, args = corresponding_call(ast, T)
        except Exception:
            return s, out      # a component does not stand on its own: nothing to compare with
        shown = [by] + [a if isinstance(a, (str, float, int)) else str(a) for a in args]
        try:
            h = _mixers()[by](*args, table=T)
            d = composition_diff(fractions_of(h.atoms), fractions_of(f.atoms))
            top_tag = ast.density if isinstance(ast, R.GroupedMixture) else None
            if d:
                out.append(("string_vs_call:composition:%s%s" % (fam, suffix),
                            dict(call=shown, atom=d[0], share=d[1]), dict(atom=d[0], share=d[2])))
            elif top_tag is None and not R.close(h.density, f.density, REL):
                out.append(("string_vs_call:density:%s%s" % (fam, suffix), dict(call=shown, density=h.density),
                            f.density))
        except Exception as exc:
            out.append(("string_vs_call:call_raises:%s%s" % (_norm_msg(exc), suffix),
                        dict(call=shown, error="%s: %s" % (type(exc).__name__, str(exc)[:120])),
                        "same mixture as the string"))
    return s, out


def systematic_strings():
    """reference derivations covering every documented unit and keyword spelling, the guide's
    examples, exact-100 percentages, negative remainders, missing densities and repeated groups"""
    P = R.simple_compound
    out = []
    units = list(R.MASS_UNITS) + list(R.VOLUME_UNITS)
    for i, u in enumerate(units):
        for j, v in enumerate(units):
            out.append(R.Quantity([R.QItem(["5", "1.25", ".5", "50", "1000"][(i + j) % 5], u, P("NaCl@2.16")),
                                   R.QItem(["50", "1", "2.", "0.25"][(i * 3 + j) % 4], v, P("H2O@1"))]))
    for i, u in enumerate(R.LENGTH_UNITS):
        for j, v in enumerate(R.LENGTH_UNITS):
            out.append(R.Quantity([R.QItem(["1", "5", "2.5", "100"][(i + j) % 4], u, P("Si")),
                                   R.QItem("5", v, P("Cr")), R.QItem("10", "nm", P("Au"))]))
    for u in R.ALL_UNITS:
        out.append(R.Quantity([R.QItem("3", u, P("Fe"))]))
    for kind, kws in (("wt", R.WEIGHT_KEYWORDS), ("vol", R.VOLUME_KEYWORDS)):
        for pcts in (["10"], ["10", "15"], ["50", "50"], ["33.3", "66.7"], ["0.1", "99.9"], ["70.1", "29.9"],
                     ["12.5", "87.5"], ["100"], ["60", "50"], ["100.5"], ["0.01"], ["99.99"], ["20", "30", "40"],
                     ["33.3", "33.3", "33.4"], ["1.", ".5"]):
            parts = [P(x) for x in ("Fe", "Co", "Ni", "Cu")]
            out.append(R.Percentage(kind, list(zip(pcts, parts)), parts[len(pcts)]))
        out.append(R.Percentage(kind, [("10", P("Fe")), ("15", P("2H2O@1"))], P("Ni")))
        out.append(R.Percentage(kind, [("10", P("2H2O@1"))], P("2NaCl@2.16")))
        out.append(R.Percentage(kind, [("10", P("NaCl@2.16"))], P("H2O@1")))
        out.append(R.Percentage(kind, [("10", P("NaCl"))], P("H2O@1")))
        out.append(R.Percentage(kind, [("10", P("NaCl@2.16"))], P("H2O")))
    # guide examples
    for text in ["10wt% Fe // 15% Co // Ni", "10vol% Fe // Ni", "5g NaCl // 50mL H2O@1",
                 "1 um Si // 5 nm Cr // 10 nm Au", "20vol% (10 wt% NaCl@2.16 // H2O@1) // D2O@1n"]:
        out.append(R.parse(text))
    # missing densities
    out.append(R.Quantity([R.QItem("5", "mL", P("NaCl")), R.QItem("5", "g", P("Fe"))]))
    out.append(R.Quantity([R.QItem("5", "nm", P("NaCl")), R.QItem("5", "nm", P("Fe"))]))
    # repeated groups
    lay = R.Quantity([R.QItem("1", "um", P("Si")), R.QItem("5", "nm", P("Cr"))])
    mas = R.Quantity([R.QItem("5", "g", P("NaCl")), R.QItem("50", "mL", P("H2O@1"))])
    for cnt in ("3", None, "2", "1.5", ".5", "10", "1"):
        out.append(R.Quantity([R.QRepeat(lay, cnt), R.QItem("10", "nm", P("Au"))]))
        out.append(R.Quantity([R.QItem("10", "nm", P("Au")), R.QRepeat(lay, cnt)]))
        out.append(R.Quantity([R.QRepeat(lay, cnt)]))
        out.append(R.Quantity([R.QRepeat(mas, cnt), R.QItem("2", "g", P("KCl"))]))
        out.append(R.Quantity([R.QItem("2", "g", P("KCl")), R.QRepeat(mas, cnt)]))
        out.append(R.Quantity([R.QRepeat(mas, cnt)]))
        out.append(R.Quantity([R.QRepeat(R.Quantity([R.QRepeat(mas, cnt), R.QItem("1", "mg", P("Fe"))]), "2"),
                               R.QItem("1", "kg", P("H2O@1"))]))
        out.append(R.Quantity([R.QRepeat(R.Quantity([R.QRepeat(lay, cnt), R.QItem("1", "nm", P("Fe"))]), "2"),
                               R.QItem("1", "mm", P("Si"))]))
    # grouped mixtures with density tags, nested
    inner = R.Percentage("wt", [("10", P("NaCl@2.16"))], P("H2O@1"))
    for tag in (None, ("1.07", ""), ("1.07", "i"), ("1.07", "n")):
        g = R.GroupedMixture(inner, tag)
        out.append(g)
        out.append(R.Percentage("vol", [("20", g)], P("D2O@1n")))
        out.append(R.Quantity([R.QItem("5", "mL", g), R.QItem("1", "g", P("Fe"))]))
        out.append(R.Quantity([R.QItem("5", "um", g), R.QItem("1", "nm", P("Fe"))]))
        g2 = R.GroupedMixture(R.Percentage("vol", [("20", g)], P("D2O@1n")), tag)
        out.append(R.Percentage("wt", [("1", g2)], P("Si")))
        g3 = R.GroupedMixture(R.Quantity([R.QItem("1", "g", g2), R.QItem("1", "g", P("Au"))]), None)
        out.append(R.Percentage("wt", [("5", g3)], P("Si")))
    return out


STRINGS_EXPLAIN = {
    "parenthesised_layer_group": "convert_by_layer reads p1.absthick, an attribute nothing sets (the recorded "
                                 "amount is `thickness`): every '( layers ) n' group raises AttributeError",
    "litre_unit_first_in_list": "the unit 'L' is listed in the guide, but when 'count L' starts the string or "
                                "follows '(' the compound alternative is tried first, reads 'L' as an element "
                                "symbol and its parse action raises ValueError, which aborts the parse "
                                "('1 L H2O@1' fails, '3 mL Fe // 1 L Fe' works)",
    "bare_percent_then_space_then_counted_part": "guide: later items 'can use a bare %' ('10wt% Fe // 15% Co // "
                                                 "Ni'); after a bare '%' white space is not consumed, so a part "
                                                 "that starts with a count ('15% 2H2O@1') is rejected",
    "percent_first_keyword_then_space_then_counted_part": "with the keyword spelled '%wt' / '%vol' (accepted by the "
                                                          "code's regexes, not shown in the guide) white space "
                                                          "is not consumed, so a part that starts with a count "
                                                          "is rejected; 'wt%'/'vol%' consume the space and work",
    "single_isotope_of_element_without_density": "a part that is a single isotope (ion) of an element of unknown "
                                                 "density: the single-atom density default raises (C06/C01 root "
                                                 "cause), instead of leaving the density unknown",
    "natural_density_tag_with_ion": "a part with '@dn' that contains ions: natural_mass_ratio defect of C12",
}
STRINGS_WHAT = {
    "exception": "a mixture string of the documented grammar is rejected",
    "should_raise": "the guide says this mixture is impossible (missing density / percentages above 100) but a "
                    "formula is returned",
    "composition": "the normalised composition differs from the documented reading of the string",
    "density": "the density differs from total mass / total volume of the components (or from the '@' tag)",
    "total_mass": "total_mass is not the sum of the stated masses in grams (volumes: litres*1000*density)",
    "thickness": "thickness is not the sum of the stated layer thicknesses in metres",
    "string_vs_call": "the string does not mean the same as the corresponding mix_by_* call",
}


def strings_plan(tier, seed):
    rng = random.Random(seed)
    inf = info()
    sys_asts = systematic_strings()
    for i, ast in enumerate(sys_asts):
        styles = R.STYLES if tier == "thorough" else [R.STYLES[0], R.STYLES[(i * 7 + 1) % len(R.STYLES)],
                                                        R.STYLES[(i * 11 + 5) % len(R.STYLES)]]
        for st in styles:
            yield "systematic", ast, st
    n = 40000 if tier == "thorough" else 1500
    for i in range(n):
        depth = i % 4
        ast = R.random_mixture(rng, depth, inf if i % 3 == 0 else None)
        if rng.random() < 0.1:
            ast = R.GroupedMixture(ast, rng.choice([None, ("2.5", ""), ("1.5", "n"), ("3", "i")]))
        yield "random", ast, R.STYLES[rng.randrange(len(R.STYLES))]


def task_strings(tier, seed, arg):
    t0 = time.time()
    tabs = tables()
    groups, evals, seen, samples = {}, 0, set(), []
    harness, extension, n_ext = {}, {}, 0
    covered_units, covered_kw, max_depth, n_rep = set(), set(), 0, 0
    for i, (family, ast, style) in enumerate(strings_plan(tier, seed)):
        tname = "private" if i % 9 == 4 else "public"
        s, res = check_string(ast, style, tabs[tname], with_call=(i % 2 == 0))
        if res and res[0][0].startswith("HARNESS"):
            harness.setdefault(res[0][0], []).append(s)
            continue
        if isinstance(ast, R.GroupedMixture):
            # '( mixture )@d' as a whole formula is accepted by the code's grammar but is not in the
            # guide's EBNF (`formula :: compound | mixture | nothing`): observations only
            n_ext += 1
            for cause, obs, exp in res:
                ext = extension.setdefault(cause, [0, []])
                ext[0] += 1
                if len(ext[1]) < 3:
                    ext[1].append(s)
            continue
        evals += 1
        seen.add(s)
        for t in R.tokens(ast, style):
            if t[0] == "unit":
                covered_units.add(t[1].strip())
            elif t[0] == "kw":
                covered_kw.add(t[1].strip())
            elif t[0] == "rcount":
                n_rep += 1
        max_depth = max(max_depth, R.mixture_depth(ast))
        if len(samples) < 5 and i % 307 == 0:
            samples.append(dict(string=s, table=tname, violations=[r[0] for r in res]))
        prio = 2 if family != "systematic" else (0 if style is R.STYLES[0] else 1)
        for cause, obs, exp in res:
            _group(groups, cause, s, dict(string=s, table=tname), obs, exp, prio)
    violations = []
    for cause, g in sorted(groups.items()):
        first = g["examples"][0]
        violations.append(dict(
            key="strings:%s:%s" % (cause, first["id"]),
            what=STRINGS_WHAT.get(cause.split(":")[0], cause) + "".join(
                " [" + v + "]" for k, v in STRINGS_EXPLAIN.items() if k in cause),
            input=first["input"], observed=first["observed"], expected=first["expected"], count=g["count"],
            examples=[e["id"] for e in g["examples"][:3]]))
    notes = ["BOUNDED: %d strings; units seen %s; percent keywords seen %s; nesting up to %d; %d counted "
             "repeated groups" % (evals, sorted(covered_units), sorted(covered_kw), max_depth, n_rep),
             "the guide calls the recorded layer thickness *total_thickness*; the code and the property use "
             "`thickness`, which is what is checked",
             "shares below %g of all atoms are treated as absent (the remainder 100 - sum of the percentages "
             "is formed in floating point)" % TINY]
    if n_ext:
        notes.append("observation (not in the EBNF, not counted): %d whole-string parenthesised mixtures "
                     "'( mixture )@d' were also tried; failures: %s"
                     % (n_ext, {k: dict(count=v[0], examples=v[1]) for k, v in sorted(extension.items())} or "none"))
    for k, v in harness.items():
        notes.append("%s: %d strings skipped, e.g. %r" % (k, len(v), v[:3]))
    notes.append("runtime %.1f s" % (time.time() - t0))
    return dict(evaluations=evals, distinct=len(seen),
                rule="mixture strings rendered from reference derivations: all pairs of mass/volume units, all "
                     "pairs of length units, every unit alone, every wt/vol keyword spelling, exact-100 and "
                     "over-100 percentages, missing densities, repeated groups '( ... )n' for layers and masses "
                     "(nested twice), grouped mixtures with @d/@di/@dn, the guide's examples - each in several "
                     "spacing styles - plus seeded random mixtures of nesting <= 3; every second string is also "
                     "compared with the corresponding mix_by_* call; rel %g" % REL,
                exhaustive=False, samples=samples, violations=violations[:60], notes=notes)


def task_replay(tier, seed, arg):
    inp = (arg or {}).get("input") or {}
    key = (arg or {}).get("key", "")
    out = dict(evaluations=1, distinct=1, rule="replay of one input", exhaustive=False, samples=[inp],
               violations=[], notes=[])
    tabs = tables()
    if "string" in inp:
        T = tabs[inp.get("table", "public")]
        try:
            ast = R.parse(inp["string"])
        except R.RefError as exc:
            out["notes"].append("the reference reading does not derive this string: %s" % exc)
            return out
        if isinstance(ast, (R.Compound, R.Empty)):
            out["notes"].append("not a mixture string")
            return out
        s, res = check_string(ast, None, T, with_call=True, literal=inp["string"])
        prefix = "strings"
    elif inp.get("odd"):
        res = check_odd(inp["by"], tabs[inp.get("table", "public")])
        prefix = "pairs"
    else:
        res, _ = check_pairs(inp, random.Random(seed))
        prefix = "pairs"
    for cause, obs, exp in res:
        out["violations"].append(dict(key=key or "%s:%s:replay" % (prefix, cause),
                                      what=(STRINGS_WHAT if prefix == "strings" else PAIRS_WHAT).get(
                                          cause.split(":")[0 if prefix == "strings" else 1], cause),
                                      input=inp, observed=obs, expected=exp))
    if not res:
        out["notes"].append("property holds for this input")
    return out
