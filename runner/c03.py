"""C03 native side: periodictable.neutron_scattering (and Neutron.scattering/.sld) against the equations of the
neutron_scattering documentation, evaluated by an oracle written here from the documented equations only.

The oracle `doc_scattering` is shared with c04/c16/c17.  It reads only per-atom table fields (b_c, absorption,
total, nsf_table, mass) and the physical constants; every formula below is transcribed from the docstring."""
import bisect
import math
import random

from . import nat
from .nat import Result, atom_name, atom_from_name

OUT = ["real_sld", "imag_sld", "incoh_sld", "coh_xs", "abs_xs", "incoh_xs", "penetration"]
LAMBDA0 = 1.798           # documented tabulation wavelength of the absorption cross section
RTOL = 1e-10              # C03 tolerance for well-conditioned outputs
CANCEL = 1e-12            # tolerance at operand scale for outputs that are differences of nearly equal numbers


# ----------------------------------------------------------------------------------------------------------
# oracle
# ----------------------------------------------------------------------------------------------------------
def _K():
    import periodictable.constants as K
    return K


def energy_factor():
    """E(meV)*lambda(A)^2 = h^2/(2 m_n) in meV A^2 (h in eV s, m_n in u): E = h^2/(2 m_n lambda^2)"""
    K = _K()
    h_J = K.plancks_constant * K.electron_volt
    m_kg = K.neutron_mass * K.atomic_mass_constant
    return h_J ** 2 / (2 * m_kg) / K.electron_volt * 1e3 * 1e20


def velocity_factor():
    """v(m/s)*lambda(A) = h/m_n in m/s A"""
    K = _K()
    return K.plancks_constant * K.electron_volt / (K.neutron_mass * K.atomic_mass_constant) * 1e10


def wavelength_of_energy(e_meV):
    return math.sqrt(energy_factor() / e_meV)


def energy_of_wavelength(lam):
    return energy_factor() / lam ** 2


def split_atom(a):
    """(base element-or-isotope, charge)"""
    import periodictable.core as core
    if core.ision(a):
        return a.element, a.charge
    return a, 0


def atom_mass(a):
    base, q = split_atom(a)
    return base.mass - q * _K().electron_mass


def natural_atom_mass(a):
    """mass of the same position with the isotope replaced by the element at natural abundance (charge kept)"""
    import periodictable.core as core
    base, q = split_atom(a)
    if core.isisotope(base):
        base = base.element
    return base.mass - q * _K().electron_mass


def has_data(a):
    """tabulated scattering length, total and absorption cross sections and a mass are present"""
    base, _ = split_atom(a)
    n = getattr(base, "neutron", None)
    return (n is not None and n.b_c is not None and n.total is not None and n.absorption is not None
            and getattr(base, "mass", None) is not None)


def safe_density(a):
    """atom.density, None when it is unknown (isotopes of elements without density raise in the library)"""
    try:
        return a.density
    except TypeError:
        return None


def interp_clamped(x, xs, ys):
    """own piecewise-linear interpolation with constant extrapolation (xs ascending)"""
    n = len(xs)
    if x <= xs[0]:
        return complex(ys[0])
    if x >= xs[n - 1]:
        return complex(ys[n - 1])
    i = bisect.bisect_right(xs, x) - 1
    x0, x1 = float(xs[i]), float(xs[i + 1])
    y0, y1 = complex(ys[i]), complex(ys[i + 1])
    return y0 + (y1 - y0) / (x1 - x0) * (x - x0)


_TABLE_CACHE = {}


def atom_b_sigma(a, lam):
    """(complex b_c, sigma_s) of one atom at wavelength lam from the tabulated fields"""
    base, _ = split_atom(a)
    n = base.neutron
    if n.nsf_table is not None:
        key = id(n)
        if key not in _TABLE_CACHE:
            _TABLE_CACHE[key] = ([float(v) for v in n.nsf_table[0]], [complex(v) for v in n.nsf_table[1]])
        xs, ys = _TABLE_CACHE[key]
        b = interp_clamped(lam, xs, ys)
        return b, 4 * math.pi * abs(b) ** 2 / 100
    b = complex(n.b_c, -n.absorption / (2000 * LAMBDA0))
    return b, float(n.total)


def doc_scattering(atom_counts, density, wavelength):
    """The documented equations for {atom: n}, mass density (g/cm^3) and ONE wavelength (A).

    Returns a dict with the seven documented outputs (names in OUT) and the intermediate quantities
    N, sigma_s, sigma_c, b, mass, natoms, re_scale (10 N sum n_k|Re b_k|/sum n_k)."""
    K = _K()
    lam = float(wavelength)
    ntot = 0.0
    mass = 0.0
    bsum = 0j
    ssum = 0.0
    re_abs = 0.0
    for a, n in atom_counts.items():
        bk, sk = atom_b_sigma(a, lam)
        ntot += n
        mass += n * atom_mass(a)
        bsum += n * bk
        ssum += n * sk
        re_abs += abs(n * bk.real)
    b = bsum / ntot
    sigma_s = ssum / ntot
    N = ntot * density * K.avogadro_number / (mass * 1e24)
    sigma_c = 4 * math.pi * abs(b) ** 2 / 100
    sigma_i = max(sigma_s - sigma_c, 0.0)
    sigma_a = 2000 * abs(b.imag) * lam
    coh, ab, inc = N * sigma_c, N * sigma_a, N * sigma_i
    tot = N * sigma_s + ab
    return {
        "real_sld": 10 * N * b.real,
        "imag_sld": 10 * N * abs(b.imag),
        "incoh_sld": 10 * N * math.sqrt(100 * sigma_i / (4 * math.pi)),
        "coh_xs": coh, "abs_xs": ab, "incoh_xs": inc,
        "penetration": (1 / tot) if tot != 0 else math.inf,
        "N": N, "sigma_s": sigma_s, "sigma_c": sigma_c, "b": b, "mass": mass, "natoms": ntot,
        "re_scale": 10 * N * re_abs / ntot,
    }


def natural_to_density(atom_counts, natural_density):
    """density of the formula whose natural-abundance version (same cell volume) has the given density"""
    m = sum(n * atom_mass(a) for a, n in atom_counts.items())
    mn = sum(n * natural_atom_mass(a) for a, n in atom_counts.items())
    return natural_density * m / mn


# ----------------------------------------------------------------------------------------------------------
# comparison
# ----------------------------------------------------------------------------------------------------------
def flatten(res):
    """library result ((re, im, inc), (coh, abs, inc), pen) -> list of 7"""
    sld, xs, pen = res
    return [sld[0], sld[1], sld[2], xs[0], xs[1], xs[2], pen]


def entry(v, i):
    """i-th entry of a library output (None = scalar call)"""
    import numpy as np
    if i is None:
        return float(v)
    return float(np.asarray(v).reshape(-1)[i])


def mismatch(name, obs, exp, ref, rtol=RTOL, cancel=CANCEL):
    """True if observed value `obs` of output `name` differs from `exp`; `ref` = doc_scattering dict giving the
    operand scales (N, sigma_s) for the cancellation-aware outputs."""
    if obs is None or (isinstance(obs, float) and math.isnan(obs)):
        return True
    if math.isinf(exp) or math.isinf(obs):
        return obs != exp
    N, ss = ref["N"], ref["sigma_s"]
    if name == "incoh_xs":
        return abs(obs - exp) > max(rtol * abs(exp), cancel * N * ss)
    if name == "incoh_sld":
        # rho_inc^2 = 100 N^2 * 100 sigma_i/(4 pi): compare the squares at the scale of sigma_s
        scale = 100 * N * N * 100 * ss / (4 * math.pi)
        return obs < 0 or abs(obs * obs - exp * exp) > max(2 * rtol * exp * exp, cancel * scale)
    if name == "real_sld":
        return abs(obs - exp) > max(rtol * abs(exp), cancel * ref["re_scale"])
    return abs(obs - exp) > rtol * max(abs(obs), abs(exp))


RULE_TOL = ("rtol 1e-10 on every output, except differences of nearly equal numbers which are compared at the "
            "scale of their operands: sigma_i = sigma_s - sigma_c, so Sigma_inc within max(1e-10*|Sigma_inc|, "
            "1e-12*N*sigma_s), rho_inc through its square within max(2e-10*rho_inc^2, 1e-12*100*N^2*100*sigma_s/4pi), "
            "rho_re within max(1e-10*|rho_re|, 1e-12*10*N*mean|n_k Re b_k|)")


class Grouped:
    """Result wrapper: at most `per` listed violations per group, totals reported in notes"""

    def __init__(self, R, per=3):
        self.R = R
        self.per = per
        self.count = {}

    def violation(self, group, key, what, input=None, observed=None, expected=None, per=None):
        c = self.count.get(group, 0)
        self.count[group] = c + 1
        if c < (per or self.per):
            self.R.violation(key, what, input, observed, expected)
        else:
            self.R.nviol += 1

    def done(self):
        for g in sorted(self.count, key=str):
            if self.count[g] > 1:
                self.R.notes.append("group %s: %d failing inputs (at most %d listed)" % (g, self.count[g], self.per))
        return self.R.done()


# ----------------------------------------------------------------------------------------------------------
# cases
# ----------------------------------------------------------------------------------------------------------
def fmt_count(c):
    if float(c) == int(c) and abs(c) < 1e15:
        return str(int(c))
    return repr(float(c))


def compound_id(atoms, density=None, mode="density"):
    s = "".join(nm + ("" if c == 1 else fmt_count(c)) for nm, c in atoms)
    if density is not None:
        s += "@%s%s" % (repr(float(density)), "n" if mode == "natural_density" else "")
    return s


def formula_string(atoms):
    """formula text in the documented grammar (counts are short decimals here)"""
    return "".join(nm + ("" if c == 1 else fmt_count(c)) for nm, c in atoms)


def lam_id(v):
    if isinstance(v, list):
        return "[" + ",".join("%.6g" % x for x in v) + "]"
    return "%.6g" % v


def neutron_atoms():
    """(atoms with has_sld, atoms with tabulated data but has_sld False, atoms without data)"""
    import periodictable
    good, tabulated_only, missing = [], [], []
    for el in periodictable.elements:
        for a in [el] + [el[i] for i in el.isotopes]:
            n = a.neutron
            if n.has_sld():
                good.append(a)
            elif has_data(a):
                tabulated_only.append(a)
            else:
                missing.append(a)
    return good, tabulated_only, missing


def _call(case):
    """run periodictable.neutron_scattering as the case says; returns (result, list of oracle wavelengths,
    is_vector, atom dict, oracle density)"""
    import numpy as np
    import periodictable
    atoms = [(atom_from_name(nm), c) for nm, c in case["atoms"]]
    d = {}
    for a, c in atoms:
        d[a] = d.get(a, 0) + c
    compound = d if case.get("as", "dict") == "dict" else formula_string(case["atoms"])
    kw = {}
    if case.get("dens_mode", "density") == "natural_density":
        kw["natural_density"] = case["density"]
        rho = natural_to_density(d, case["density"])
    else:
        kw["density"] = case["density"]
        rho = case["density"]
    val = case.get("value")
    if val is None:
        lams, vec = [LAMBDA0], False
    else:
        vec = isinstance(val, list)
        vals = val if vec else [val]
        arg = (np.array(val, dtype=float) if case.get("container", "array") == "array" else list(val)) if vec else val
        if case.get("wl_mode", "wavelength") == "energy":
            kw["energy"] = arg
            lams = [wavelength_of_energy(e) for e in vals]
        else:
            kw["wavelength"] = arg
            lams = list(vals)
    res = periodictable.neutron_scattering(compound, **kw)
    return res, lams, vec, d, rho


def check_compound(G, R, case, rtol=RTOL):
    """one neutron_scattering call against the oracle, output by output, entry by entry"""
    import numpy as np
    cid = compound_id(case["atoms"], case["density"], case.get("dens_mode", "density"))
    lid = lam_id(case["value"]) if case.get("value") is not None else "default"
    if case.get("wl_mode") == "energy":
        lid = "E" + lid
    fam = "%s/%s" % (case.get("dens_mode", "density"), case.get("wl_mode", "wavelength"))
    try:
        res, lams, vec, d, rho = _call(case)
    except Exception as e:
        G.violation(("exception", type(e).__name__), "sample:exception:%s:%s" % (cid, lid),
                    "neutron_scattering raised %s for a compound whose atoms all have neutron data; the property "
                    "promises the documented values for every such compound, density and wavelength" % type(e).__name__,
                    case, "%s: %s" % (type(e).__name__, e), None)
        return
    refs = [doc_scattering(d, rho, lam) for lam in lams]
    R.ok(len(lams))
    if not (isinstance(res, tuple) and len(res) == 3 and res[0] is not None and res[2] is not None):
        G.violation(("result_none", compound_id(case["atoms"])), "sample:result_none:%s:%s" % (cid, lid),
                    "all atoms have tabulated scattering length, cross sections and mass and a density is given, yet "
                    "no scattering values are returned", case, repr(res),
                    {k: refs[0][k] for k in OUT}, per=1)
        return
    obs = flatten(res)
    want_shape = np.shape(case["value"]) if vec else ()
    bad = []
    for name, o in zip(OUT, obs):
        if np.shape(o) != want_shape:
            G.violation(("shape", name), "sample:shape:%s:%s:%s" % (name, cid, lid),
                        "output %s is not shaped like the wavelength/energy argument" % name, case,
                        list(np.shape(o)), list(want_shape))
            continue
        for i, ref in enumerate(refs):
            ov = entry(o, i if vec else None)
            if mismatch(name, ov, ref[name], ref, rtol):
                bad.append((name, i, ov, ref[name]))
                break
    if not bad:
        return
    # one wrong effective density shows up as the same factor on every SLD and cross section (and its inverse
    # on the penetration depth): report that once instead of seven times
    k = density_factor(obs, refs, vec)
    if k is not None:
        G.violation(("density_scale", fam, any("{" in nm for nm, _ in case["atoms"])),
                    "sample:density_scale:%s:%s" % (cid, lid),
                    "all SLDs and cross sections are the documented values times one common factor (and the "
                    "penetration depth divided by it): the mass density used by the code is not the %s of the "
                    "call%s" % (case.get("dens_mode", "density"),
                                " converted at constant cell volume with the natural-abundance masses of the same "
                                "(charged) atoms" if case.get("dens_mode") == "natural_density" else ""),
                    case, {"factor": k, "outputs": {b[0]: b[2] for b in bad}},
                    {"factor": 1.0, "density": rho, "outputs": {b[0]: b[3] for b in bad}})
        return
    for name, i, ov, ev in bad:
        G.violation((name, fam), "sample:%s:%s:%s" % (name, cid, lid),
                    "%s differs from the documented equation evaluated on the tabulated b_c, cross sections "
                    "and masses (entry %d, lambda=%r)" % (name, i, lams[i]), case, ov, ev)


def density_factor(obs, refs, vec):
    """common factor k with obs = k*expected for real/imag SLD and coherent/absorption cross sections and
    penetration = expected/k at every entry (all factors within 1e-12 + 1e-3|k-1| of each other), |k-1| > 5e-11; else None"""
    ks = []
    for j, name in enumerate(OUT):
        if name in ("incoh_sld", "incoh_xs"):
            continue
        for i, ref in enumerate(refs):
            try:
                ov = entry(obs[j], i if vec else None)
            except Exception:
                return None
            ev = ref[name]
            if ev == 0 or ov == 0 or math.isinf(ev) or math.isinf(ov):
                continue
            ks.append(ev / ov if name == "penetration" else ov / ev)
    if len(ks) < 3:
        return None
    k = ks[0]
    if abs(k - 1) < 5e-11 or any(abs(x - k) > 1e-12 + 1e-3 * abs(k - 1) for x in ks):
        return None
    return k


def check_atom(G, R, case):
    """atom.neutron.scattering/.sld(wavelength=) equal the one-atom compound at atom.density"""
    a = atom_from_name(case["atom"])
    lam = case["value"]
    rho = a.density
    ref = doc_scattering({a: 1}, rho, lam)
    R.ok(2)
    try:
        res = a.neutron.scattering(wavelength=lam)
        sld = a.neutron.sld(wavelength=lam)
    except Exception as e:
        G.violation(("atom_exception",), "sample:atom_exception:%s:%s" % (case["atom"], lam_id(lam)),
                    "atom.neutron.scattering raised", case, "%s: %s" % (type(e).__name__, e), None)
        return
    if res[0] is None:
        G.violation(("atom_none",), "sample:atom_none:%s:%s" % (case["atom"], lam_id(lam)),
                    "atom with neutron data returns no values when queried directly", case, repr(res), None)
        return
    obs = flatten(res)
    for name, o in zip(OUT, obs):
        if mismatch(name, float(o), ref[name], ref):
            G.violation(("atom", name), "sample:atom.%s:%s:%s" % (name, case["atom"], lam_id(lam)),
                        "atom.neutron.scattering(wavelength) %s differs from the one-atom compound at the atom's "
                        "density (%r g/cm^3)" % (name, rho), case, float(o), ref[name])
    for name, o in zip(OUT[:3], sld):
        if mismatch(name, float(o), ref[name], ref):
            G.violation(("atom_sld", name), "sample:atom.sld.%s:%s:%s" % (name, case["atom"], lam_id(lam)),
                        "atom.neutron.sld(wavelength) %s differs from the one-atom compound at the atom's density"
                        % name, case, float(o), ref[name])


def check_missing(G, R, case):
    """a compound containing an atom without neutron data gives (None, None, None)"""
    import periodictable
    atoms = {atom_from_name(nm): c for nm, c in case["atoms"]}
    cid = compound_id(case["atoms"], case["density"])
    R.ok(1)
    try:
        res = periodictable.neutron_scattering(atoms, density=case["density"], wavelength=case["value"])
    except Exception as e:
        G.violation(("missing_exception",), "sample:missing_exception:%s:%s" % (cid, lam_id(case["value"])),
                    "compound with an atom without neutron data raised instead of returning (None, None, None)",
                    case, "%s: %s" % (type(e).__name__, e), [None, None, None])
        return
    if not (isinstance(res, tuple) and len(res) == 3 and all(v is None for v in res)):
        G.violation(("missing",), "sample:missing:%s:%s" % (cid, lam_id(case["value"])),
                    "compound with an atom without neutron data does not give (None, None, None)", case,
                    repr(res), [None, None, None])


def run_case(G, R, case):
    kind = case.get("check", "compound")
    if kind == "compound":
        check_compound(G, R, case)
    elif kind == "atom":
        check_atom(G, R, case)
    elif kind == "missing":
        check_missing(G, R, case)


# pools --------------------------------------------------------------------------------------------------
COUNTS_NICE = [1, 2, 3, 0.5, 1.25, 10, 7, 4, 12, 0.25]
COUNTS_WILD = [1, 2, 3, 0.5, 1.25, 10, 7, 0.001, 1e6]
EDEP = ["Sm", "Sm[149]", "Eu", "Eu[151]", "Gd", "Gd[155]", "Gd[157]", "Dy[164]", "Er", "Er[167]", "Yb",
        "Yb[168]", "Yb[174]", "Lu", "Lu[176]"]


def compound_pool():
    """names of atoms (elements, isotopes, ions, isotope ions) all of which have neutron data"""
    good, _, _ = neutron_atoms()
    names = [atom_name(a) for a in good]
    ions = []
    for a in nat.atom_pool():
        base, q = split_atom(a)
        if q and base.neutron.has_sld():
            ions.append(atom_name(a))
    import periodictable
    for sym, iso, q in (("Gd", None, 3), ("Sm", 149, 3), ("Lu", 176, 3), ("Er", None, 3), ("O", None, -2),
                        ("Li", 6, 1), ("B", 10, 3), ("Cd", None, 2), ("Eu", None, 2)):
        el = periodictable.elements.symbol(sym)
        a = el[iso] if iso else el
        try:
            ions.append(atom_name(a.ion[q]))
        except Exception:
            pass
    return names, sorted(set(ions))


def random_atoms(rng, names, ions, counts, allow_repeat=True):
    k = rng.randint(1, 6)
    out = []
    for _ in range(k):
        r = rng.random()
        if r < 0.15:
            nm = rng.choice(EDEP)
        elif r < 0.35:
            nm = rng.choice(ions)
        elif r < 0.55:
            nm = rng.choice(["H", "D", "H[1]", "C", "N", "O", "Si", "Fe", "Ni", "B", "Li", "Cd", "T"])
        else:
            nm = rng.choice(names)
        c = rng.choice(counts) if rng.random() < 0.7 else round(rng.uniform(0.01, 20), 3)
        if not allow_repeat and any(nm == x for x, _ in out):
            continue
        out.append([nm, c])
    return out


def log_uniform(rng, lo, hi):
    return math.exp(rng.uniform(math.log(lo), math.log(hi)))


def random_case(rng, names, ions):
    as_string = rng.random() < 0.25
    atoms = random_atoms(rng, names, ions, COUNTS_NICE if as_string else COUNTS_WILD)
    if as_string:
        atoms = [[nm, c if c in COUNTS_NICE else round(c, 2) or 1] for nm, c in atoms]
    case = {"check": "compound", "atoms": atoms, "as": "string" if as_string else "dict"}
    case["density"] = 25.0 if rng.random() < 0.03 else log_uniform(rng, 1e-3, 25.0)
    case["dens_mode"] = "natural_density" if rng.random() < 0.25 else "density"
    r = rng.random()
    n = 1 if r < 0.7 else rng.randint(1, 5)
    lams = [rng.choice([0.05, 50.0, LAMBDA0]) if rng.random() < 0.1 else
            (rng.uniform(0.35, 3.0) if rng.random() < 0.4 else log_uniform(rng, 0.05, 50.0)) for _ in range(n)]
    energy = rng.random() < 0.3
    vals = [energy_of_wavelength(x) for x in lams] if energy else lams
    case["wl_mode"] = "energy" if energy else "wavelength"
    if r < 0.7:
        case["value"] = vals[0]
    else:
        case["value"] = vals
        case["container"] = rng.choice(["array", "list"])
    return case


def case_class(case):
    a = case.get("atoms", [])
    return (case.get("check"), len(a), case.get("dens_mode"), case.get("wl_mode"), case.get("as"),
            isinstance(case.get("value"), list) and len(case["value"]), any(nm in EDEP or nm.split("{")[0] in EDEP
                                                                          for nm, _ in a),
            any("{" in nm for nm, _ in a), any("[" in nm or nm in ("D", "T") for nm, _ in a))


def task_sample(tier, seed, arg):
    n = 400 if tier == "quick" else 20000
    rng = random.Random(seed)
    R = Result("(a) every element/isotope with tabulated neutron data as a one-atom compound at 3 wavelengths "
               "(0.7, 1.798, 6.0 A; energy-dependent atoms also at 3 wavelengths inside their table) at an explicit "
               "density, and queried directly (atom.neutron.scattering/.sld) against the one-atom compound at "
               "atom.density; (b) %d seeded random compounds of 1-6 atoms (elements, isotopes, ions, isotope ions, "
               "energy-dependent rare earths mixed with ordinary atoms; repeated atoms allowed), density log-uniform "
               "in [1e-3,25] given as density= or natural_density=, wavelength in [0.05,50] or the equivalent energy=, "
               "scalar or vector (length 1-5, array or list), compound as dict or string; (c) compounds containing an "
               "atom without neutron data; (d) default wavelength.  Oracle: documented equations on the tabulated "
               "fields with own end-clamped linear interpolation of the energy tables.  %s.  Bounded sample; distinct "
               "= distinct (check, #atoms, density mode, wavelength mode, container, vector length, energy-dependent, "
               "ion, isotope) classes" % (n, RULE_TOL))
    G = Grouped(R)
    good, tab_only, missing = neutron_atoms()
    # (a) one-atom compounds and direct queries
    for a in good + tab_only:
        nm = atom_name(a)
        lams = [0.7, LAMBDA0, 6.0]
        if a.neutron.nsf_table is not None:
            xs = a.neutron.nsf_table[0]
            lams += [float(xs[0]) * 1.0001, float(xs[len(xs) // 2]) * 1.003, 0.5 * (float(xs[-2]) + float(xs[-1]))]
        for lam in lams:
            case = {"check": "compound", "atoms": [[nm, 1]], "density": 2.5, "dens_mode": "density",
                    "wl_mode": "wavelength", "value": lam, "as": "dict"}
            run_case(G, R, case)
            R.distinct.add(("one-atom", nm, lam))
            if safe_density(a) is not None:
                case = {"check": "atom", "atom": nm, "value": lam}
                run_case(G, R, case)
                R.distinct.add(("atom", nm, lam))
        if not R.samples:
            R.sample({"one_atom": nm, "wavelengths": lams})
    # (b) random compounds
    names, ions = compound_pool()
    for i in range(n):
        case = random_case(rng, names, ions)
        run_case(G, R, case)
        R.distinct.add(case_class(case))
        if i < 3:
            R.sample(case)
    # (c) atoms without data
    some_missing = missing if tier != "quick" else missing[::max(1, len(missing) // 150)]
    for a in some_missing:
        try:
            nm = atom_name(a)
            if a.mass is None:
                continue
        except Exception:
            continue
        case = {"check": "missing", "atoms": [[nm, 1], ["O", 2]], "density": 5.0, "value": LAMBDA0}
        run_case(G, R, case)
        R.distinct.add(("missing", nm))
        R.ok(2)
        if a.neutron.sld() != (None, None, None) or a.neutron.scattering() != (None, None, None):
            G.violation(("missing_atom",), "sample:missing_atom:%s" % nm,
                        "atom without neutron data does not give (None, None, None) when queried directly", case)
    # (d) default wavelength
    for atoms, rho in ([["H", 2], ["O", 1]], 1.0), ([["Gd", 1], ["O", 1.5]], 7.4), ([["Ni", 1]], 8.9):
        case = {"check": "compound", "atoms": atoms, "density": rho, "dens_mode": "density", "value": None,
                "as": "dict"}
        run_case(G, R, case)
        R.distinct.add(("default", compound_id(atoms)))
    R.notes.append("%d atoms with data, %d with tabulated data but no usable record (has_sld False), %d without data"
                   % (len(good), len(tab_only), len(missing)))
    return G.done()


def task_replay(tier, seed, arg):
    arg = arg or {}
    R = Result("replay of one recorded case against the documented equations; " + RULE_TOL)
    G = Grouped(R, per=60)
    case = arg.get("input")
    if isinstance(case, dict) and "check" in case:
        run_case(G, R, case)
        if case.get("check") == "missing" and str(arg.get("key", "")).startswith("sample:missing_atom:"):
            a = atom_from_name(case["atoms"][0][0])
            R.ok(2)
            if a.neutron.sld() != (None, None, None) or a.neutron.scattering() != (None, None, None):
                G.violation(("missing_atom",), arg["key"], "atom without neutron data does not give "
                            "(None, None, None) when queried directly", case)
        return G.done()
    return task_sample("quick", seed, None)
