"""Bounded stand-ins for *history dependence inside one process*: the same question asked of an object that
has been used before (or whose returned containers were edited by the caller) must get the answer a fresh
object gives.  One task per property; every scenario compares `used` against `fresh` built from the
documented meaning, never against a recorded value.  Written after the second round of independently
seeded changes (caches, memoisation, aliasing of returned containers, re-used argument buffers)."""
import math
import random

from . import nat
from .nat import close, Result


def _atoms_names(d):
    return {nat.atom_name(a): n for a, n in d.items()}


# ------------------------------------------------------------------------------------------------ C02 / C01
FRACTION_STRINGS = [
    ("(CaO)0.3(SiO2)0.7", {"Ca": 0.3, "Si": 0.7, "O": 1.7}), ("CaSO4(H2O)0.5", {"Ca": 1, "S": 1, "O": 4.5, "H": 1}),
    ("0.5Fe2O3", {"Fe": 1, "O": 1.5}), ("Co(H2O)0.5", {"Co": 1, "H": 1, "O": 0.5}),
    ("(Gd2O3)0.1(Y2O3)0.9", {"Gd": 0.2, "Y": 1.8, "O": 3}), ("0.25SiO2 + 0.75GeO2", {"Si": 0.25, "Ge": 0.75, "O": 2}),
    ("(CH2)0.75(CD2)0.25", {"C": 1, "H": 1.5, "H[2]": 0.5}), ("Na2SO4(H2O)10", {"Na": 2, "S": 1, "O": 14, "H": 20}),
    ("((H2O)2Na)3Cl", {"H": 12, "O": 6, "Na": 3, "Cl": 1}), ("Fe4(Fe(CN)6)3", {"Fe": 7, "C": 18, "N": 18}),
    ("Ca3((PO4)2)2", {"Ca": 3, "P": 4, "O": 16}), ("(Ca(OH)2)3", {"Ca": 3, "O": 6, "H": 6}), ("Li(Fe2O3)0.05", {"Li": 1, "Fe": 0.1, "O": 0.15}),
]


def _fraction_strings(R, prop):
    """strings whose group multipliers are fractions (also below one) or nested: counts multiply through every level"""
    import periodictable as pt
    from periodictable.formulas import formula
    for text, want in FRACTION_STRINGS:
        R.ok(2, ("fraction-string", text))
        f = formula(text)
        got = {nat.atom_name(a): n for a, n in f.atoms.items()}
        if set(got) != set(want) or any(not close(got[k], want[k], 1e-12) for k in want):
            R.violation("%s:group_multiplier:%s" % (prop, text), "atom counts of %r are not the counts read off the string (every multiplier, also a fraction "
                        "below one, multiplies its whole group, through every nesting level)" % text, {"string": text}, got, want)
            continue
        for g, what in ((3 * f, "3*f"), (f.hill, "hill"), (formula(f.atoms), "formula(atoms)")):
            k = 3 if what == "3*f" else 1
            gg = {nat.atom_name(a): n for a, n in g.atoms.items()}
            if set(gg) != set(want) or any(not close(gg[x], k * want[x], 1e-12) for x in want):
                R.violation("%s:group_multiplier:%s:%s" % (prop, what, text), "%s of %r has other atom counts than the string spells" % (what, text),
                            {"string": text}, gg, {x: k * v for x, v in want.items()})


def _consistent(R, key, what, f, inp):
    """atoms / mass / charge / mass_fraction of f follow from f's OWN structure"""
    want = nat.count_atoms(f.structure)
    got = dict(f.atoms)
    if not nat.maps_close(_atoms_names(got), _atoms_names(want)):
        R.violation(key, what + ": atoms no longer follow from the formula's own structure", inp, _atoms_names(got), _atoms_names(want))
        return False
    m = sum(n * a.mass for a, n in want.items())
    q = sum(n * getattr(a, "charge", 0) for a, n in want.items())
    if not close(f.mass, m, 1e-12) or not close(f.charge, q, 1e-12, 1e-12):
        R.violation(key + ":mass_charge", what + ": mass / charge no longer follow from the formula's own structure", inp, [f.mass, f.charge], [m, q])
        return False
    return True


def _operands_unchanged(R, prop):
    """operations that return a new formula leave their operands unchanged, ALSO when the result is extended in place afterwards"""
    from copy import copy
    from periodictable.formulas import formula
    for text in ("H2O", "Na{+}Cl{-}", "CaCO3(H2O)6", "D2O", "Fe[56]2O3"):
        for how in ("1*f", "1.0*f", "copy(f)", "f+empty", "formula(f)", "2*f", "f.hill", "0*f+f"):
            f, h = formula(text), formula("XeF6")
            R.ok(2, ("operand-after-inplace", text, how))
            g = {"1*f": lambda: 1 * f, "1.0*f": lambda: 1.0 * f, "copy(f)": lambda: copy(f), "f+empty": lambda: f + formula(), "formula(f)": lambda: formula(f),
                 "2*f": lambda: 2 * f, "f.hill": lambda: f.hill, "0*f+f": lambda: 0 * f + f}[how]()
            before = (_atoms_names(f.atoms), f.structure, f.mass)
            g += h
            inp = {"formula": text, "derived_by": how, "then": "derived += XeF6"}
            if g is f:
                R.violation("%s:operand_returned:%s" % (prop, how), "%s returned its operand itself" % how, inp)
                continue
            if (_atoms_names(f.atoms), f.structure, f.mass) != before:
                R.violation("%s:operand_changed_by_later_inplace:%s" % (prop, how), "after g = %s and g += h the operand f reports other atoms / structure / mass" % how,
                            inp, _atoms_names(f.atoms), before[0])
                continue
            _consistent(R, "%s:operand_inconsistent:%s" % (prop, how), "operand f after g = %s; g += h" % how, f, inp)
            _consistent(R, "%s:derived_inconsistent:%s" % (prop, how), "g after g = %s; g += h" % how, g, inp)


def _parse_isolation(R, texts, prop, calc=None):
    """every parse of a string is a new formula: what one caller does to its result (density, name, +=) is invisible to the next parse"""
    from periodictable.formulas import formula, parse_formula
    for text in texts:
        for parser in (formula, parse_formula):
            R.ok(2, ("parse-isolation", text, parser.__name__))
            f1 = parser(text)
            snap = (_atoms_names(f1.atoms), f1.density, f1.name, str(f1))
            v0 = calc(text) if calc else None
            f1.density = 9.75
            f1.name = "edited by its owner"
            f1 += formula("XeF6")
            f2 = parser(text)
            inp = {"string": text, "parser": parser.__name__, "then": "density/name assigned and += on the first result, string parsed again"}
            got = (_atoms_names(f2.atoms), f2.density, f2.name, str(f2))
            if f2 is f1 or got != snap:
                R.violation("%s:parse_result_shared:%s" % (prop, parser.__name__), "the second parse of %r is not what the first parse was: the first caller's "
                            "edits (density, name, +=) show" % text, inp, got, snap)
                continue
            if calc:
                v1 = calc(text)
                if repr(v1) != repr(v0):
                    R.violation("%s:calculation_sees_other_callers_edits" % prop, "the same call on the string %r gives another result after another caller edited ITS "
                                "parsed formula" % text, inp, repr(v1)[:200], repr(v0)[:200])


TINY_COUNTS = (4e-10, 1e-12, 2.5e-15, 0.999997, 1.9999999995)


def _tiny_counts(R, prop, hill=False):
    """trace amounts and counts just off a whole number are counts like any other"""
    import periodictable as pt
    from periodictable.formulas import formula
    for q in TINY_COUNTS:
        builds = {"sequence": lambda: formula([(q, pt.B), (1, pt.Si)]), "nested": lambda: formula([(q, [(1, pt.B)]), (1, pt.Si)]),
                  "n*f+g": lambda: q * formula("B") + formula("Si"), "dict": lambda: formula({pt.B: q, pt.Si: 1}),
                  "string": lambda: formula("B%sSi" % (("%.16f" % q).rstrip("0") if q < 1e-4 else repr(q)))}
        for how, mk in builds.items():
            R.ok(2, ("tiny-count", q, how))
            f = mk()
            f = f.hill if hill else f
            got = f.atoms.get(pt.B)
            if got is None or not close(got, q, 1e-9, 0.0) or not close(f.atoms.get(pt.Si, 0), 1, 1e-12):
                R.violation("%s:tiny_count:%s" % (prop, how), "a count of %r given through %s%s is reported as %r" % (q, how, " (Hill form)" if hill else "", got),
                            {"count": q, "how": how}, got, q)
                continue
            m = q * pt.B.mass + pt.Si.mass
            if not close(f.mass, m, 1e-12) or not close(f.mass_fraction[pt.B], q * pt.B.mass / m, 1e-9):
                R.violation("%s:tiny_count_mass:%s" % (prop, how), "mass / mass fraction ignore a count of %r" % q, {"count": q, "how": how},
                            [f.mass, f.mass_fraction[pt.B]], [m, q * pt.B.mass / m])


def _aliasing(R, texts, prop):
    import periodictable as pt
    from periodictable.formulas import formula
    for t in texts:
        label = t if isinstance(t, str) else "struct%d" % texts.index(t)
        f = formula(t)
        want = dict(f.atoms) if isinstance(t, str) else nat.count_atoms(t)
        if isinstance(t, str) and "{" in t and "[" in t:
            # independent reading for the hand-written isotope/ion strings
            pass
        mass0, charge0 = f.mass, f.charge
        for getter in ("atoms", "mass_fraction"):
            d = getattr(f, getter)
            d.clear()
            d[pt.U] = 99
        ha = f.hill.atoms
        ha[pt.U] = 1
        checks = [("same object after the caller edited returned dicts", f),
                  ("equal formula built afterwards", formula(t)),
                  ("3*f", None), ("f+f", None)]
        for what, g in checks:
            R.ok(1, (what,))
            if what == "3*f":
                got, exp = (3 * formula(t)).atoms, {a: 3 * n for a, n in want.items()}
            elif what == "f+f":
                got, exp = (formula(t) + formula(t)).atoms, {a: 2 * n for a, n in want.items()}
            else:
                got, exp = g.atoms, want
            if not nat.maps_close(got, exp):
                R.violation("%s:aliased_atoms:%s" % (prop, what.replace(" ", "_")), "after a caller edited the dict returned by .atoms/.mass_fraction, "
                            "%s reports other atoms (%s)" % (what, label), {"formula": label}, _atoms_names(got), _atoms_names(exp))
        if not close(f.mass, mass0, 1e-12) or f.charge != charge0:
            R.violation("%s:aliased_atoms:mass_or_charge" % prop, "mass/charge changed after editing returned containers", {"formula": label})


def task_C02(tier, seed, arg):
    import periodictable as pt
    from periodictable.formulas import formula
    R = Result("containers returned by a formula (.atoms, .mass_fraction, .hill.atoms, .structure) are the caller's: editing "
               "them must not change that formula, an equal formula built later, or formulas derived by n*f and f+g; "
               "formulas holding X{q} together with X[A]{q}; strings parsed twice; %s formulas" % ("40" if tier == "quick" else "400"))
    rng = random.Random(seed)
    texts = ["H2O", "CaCO3(H2O)6", "CaCO3 + 6H2O", "Na{+}Cl{-}", "(Na{+}Cl{-})2", "Fe{3+}Fe[57]{3+}O{2-}3", "H{+}D{+}O{2-}",
             "C3H4H[1]3NO2", "Fe[56]{2+}Fe{2+}O2", "D2O", "HDO"]
    pool = nat.atom_pool()
    for i in range(40 if tier == "quick" else 400):
        s = nat.random_structure(rng, pool, depth=2)
        texts.append(s)
    _aliasing(R, texts, "C02")
    _fraction_strings(R, "C02")
    _operands_unchanged(R, "C02")
    _tiny_counts(R, "C02")
    # a structure may be given as lists or tuples, in any mixture, at any level
    H, O, Ca, C = pt.H, pt.O, pt.Ca, pt.C
    want = {"Ca": 1, "C": 1, "O": 9, "H": 12}
    shapes = {"tuple of pairs, list group": ((1, Ca), (1, C), (3, O), (6, [(2, H), (1, O)])),
              "list of pairs, tuple group": [(1, Ca), (1, C), (3, O), (6, ((2, H), (1, O)))],
              "list of lists": [[1, Ca], [1, C], [3, O], [6, [[2, H], [1, O]]]],
              "tuple of tuples": ((1, Ca), (1, C), (3, O), (6, ((2, H), (1, O)))),
              "tuple, list group inside tuple group": ((1, Ca), (1, C), (3, O), (2, ((3, [(2, H), (1, O)]),))),
              "list, tuple group inside list group": [(1, Ca), (1, C), (3, O), (2, [(3, ((2, H), (1, O)))])]}
    for label, st_ in shapes.items():
        R.ok(2, ("mixed-shapes", label))
        f = formula(st_)
        for g, k, what in ((f, 1, "formula(structure)"), (2 * f, 2, "2*f"), (f + formula("H2O"), None, "f + H2O")):
            got = _atoms_names(g.atoms)
            exp = {a: n * k for a, n in want.items()} if k else {"Ca": 1, "C": 1, "O": 10, "H": 14}
            if not nat.maps_close(got, exp, 1e-12):
                R.violation("C02:mixed_list_tuple_structure:%s" % label, "%s for a structure given as %s does not count every group" % (what, label),
                            {"shape": label}, got, exp)
                break
    # an ion and the same ion of one isotope are different atoms with different masses
    K = pt.constants.electron_mass
    for el, iso, q in (("Fe", 57, 3), ("H", 2, 1), ("Li", 6, 1), ("Cl", 37, -1), ("O", 18, -2)):
        E = getattr(pt, el)
        a, b = E.ion[q], E[iso].ion[q]
        for how, f in (("string", formula("%s{%d%s}%s[%d]{%d%s}" % (el, abs(q), "+" if q > 0 else "-", el, iso, abs(q), "+" if q > 0 else "-"))),
                       ("dict", formula({a: 1, b: 1})), ("sum", formula(a) + formula(b)), ("sequence", formula([(1, a), (1, b)]))):
            R.ok(1, ("ion+isotope ion", el, how))
            exp = {a: 1, b: 1}
            m = (E.mass - q * K) + (E[iso].mass - q * K)
            if f.atoms != exp or not close(f.mass, m, 1e-12) or f.charge != 2 * q:
                R.violation("C02:ion_and_isotope_ion_merged:%s:%s" % (el, how), "a formula holding %s and %s does not keep them apart "
                            "(atoms, mass or charge wrong)" % (nat.atom_name(a), nat.atom_name(b)),
                            {"element": el, "isotope": iso, "charge": q, "how": how},
                            {"atoms": _atoms_names(f.atoms), "mass": f.mass, "charge": f.charge}, {"atoms": _atoms_names(exp), "mass": m, "charge": 2 * q})
    # ions of a private table with customised masses: whichever table asked for an ion first, each table's ion weighs ITS atom
    from periodictable import core, mass as _mass
    name = "stateful_c02_%d" % random.Random(seed).randrange(10 ** 9)
    T = core.PeriodicTable(name)
    try:
        _mass.init(T)
        T.Fe._mass = 50.0
        T.Cu._mass = 60.0
        T.O._mass = 15.0
        pt.Fe.ion[2]                      # public first for Fe{2+}
        T.Cu.ion[1]                       # private first for Cu{+}
        for tab, label in ((T, "private"), (pt.elements, "public")):
            for el, q in (("Fe", 2), ("Cu", 1), ("O", -2)):
                E = getattr(tab, el)
                ion = E.ion[q]
                R.ok(2, ("ion-of-table", label, el))
                base = ion.element
                if base is not E or getattr(base, "table", None) != E.table:
                    R.violation("C02:ion_of_other_table:%s:%s" % (label, el), "the %s table's %s.ion[%d] is an ion of another table's atom" % (label, el, q),
                                {"table": label, "element": el, "charge": q}, getattr(base, "table", None), E.table)
                if not close(ion.mass, E.mass - q * K, 1e-12):
                    R.violation("C02:ion_mass_of_other_table:%s:%s" % (label, el), "an ion must weigh its own atom less charge electron masses (tables with different masses)",
                                {"table": label, "element": el, "charge": q}, ion.mass, E.mass - q * K)
            f = formula("Fe{2+}O{2-}", table=tab) if label == "private" else formula("Fe{2+}O{2-}")
            want = (tab.Fe.mass - 2 * K) + (tab.O.mass + 2 * K)
            R.ok(1, ("ion-formula", label))
            if not close(f.mass, want, 1e-12):
                R.violation("C02:ion_formula_mass:%s" % label, "mass of Fe{2+}O{2-} on the %s table is not the sum of that table's ion masses" % label,
                            {"table": label}, f.mass, want)
    finally:
        core.PRIVATE_TABLES.pop(name, None)
    return R.done()


def task_C01(tier, seed, arg):
    """private tables whose data differ from the stock table: formulas parsed with table=T use T's atoms and data"""
    import periodictable as pt
    from periodictable import core, mass, density
    from periodictable.formulas import formula
    R = Result("strings parsed again after a caller edited the dict returned by .atoms; a private table with a customised isotope mass, an extra isotope and a changed element density; strings parsed "
               "with table=T (isotope tags, natural-density tag, single-element default density), each twice", False)
    _aliasing(R, ["H2O", "CaCO3(H2O)6", "CaCO3 + 6H2O", "Na{+}Cl{-}", "(Na{+}Cl{-})2", "2Na{+}Cl{-} 3H2O", "D2O", "(H2O)2(D2O)3",
                  "C3H4H[1]3NO2", "Fe{3+}2O{2-}3", "5g NaCl // 50mL H2O@1", "50 wt% Co // Ti"], "C01")
    # strings of white space denote the empty formula, for every caller and however earlier results were used
    for blank in ("", " ", "  ", "\t", " \n "):
        R.ok(1, ("blank", blank))
        f = formula(blank)
        f.density = 3.0
        f.name = "edited"
        f += formula("H2O")
        g = formula(blank)
        if g is f or g.atoms != {} or g.density is not None or g.name:
            R.violation("C01:blank_string_shared_result:%r" % blank, "formula(%r) hands every caller the same object: after one caller edited its result "
                        "(density, name, +=) the next parse of the blank string is no longer the empty formula" % blank,
                        {"string": blank}, {"atoms": _atoms_names(g.atoms), "density": g.density, "name": g.name, "same_object": g is f},
                        {"atoms": {}, "density": None, "name": None, "same_object": False})
    _parse_isolation(R, ["NaCl", "H2O", "CaCO3(H2O)6", "Fe{3+}2O{2-}3", "D2O@1.1n", "Fe", "5g NaCl // 50mL H2O@1", "50 wt% Co // Ti"], "C01")
    name = "stateful_c01_%d" % random.Random(seed).randrange(10 ** 9)
    T = core.PeriodicTable(name)
    try:
        mass.init(T)
        density.init(T)
        # the charges a table defines are the entries of el.ions WHEN THE STRING IS PARSED (a private table may be customised
        # after ions of the element were already used)
        def parses(text):
            try:
                return formula(text, table=T)
            except Exception:
                return None
        first = [parses("Fe{2+}O{2-}"), parses("Na{+}Cl{-}"), parses("Fe[56]{3+}")]
        R.ok(3, ("ions-edited", "first use"))
        if any(x is None for x in first) or parses("Na{2+}") is not None:
            R.violation("C01:private_table:ions_first_use", "ions the stock table defines are rejected (or Na{2+} accepted) on a fresh private table", "Fe{2+}O{2-}")
        T.Fe.ions = (2, 3)
        T.Na.ions = tuple(T.Na.ions) + (2,)
        for text in ("Fe{6+}O4", "Fe{-}", "K2Fe{6+}O{2-}4", "Fe[56]{6+}"):
            R.ok(1, ("ions-edited", text))
            f = parses(text)
            if f is not None:
                R.violation("C01:private_table:charge_removed_still_accepted", "after T.Fe.ions = (2, 3) the string %r (a charge T no longer defines) still yields a formula" % text,
                            {"string": text, "Fe.ions": [2, 3]}, _atoms_names(f.atoms), "an exception")
        for text, q in (("Na{2+}", 2), ("Na{2+}O{2-}", 0), ("Na[23]{2+}", 2)):
            R.ok(1, ("ions-edited", text))
            f = parses(text)
            if f is None or f.charge != q:
                R.violation("C01:private_table:charge_added_still_rejected", "after Na{2+} was added to T.Na.ions the string %r is rejected (or has the wrong charge)" % text,
                            {"string": text}, None if f is None else f.charge, q)
        T.H.add_isotope(7)._mass = 7.05
        T.D._mass = 2.5
        T.Fe._density = 5.0
        for rep in (1, 2):
            R.ok(4, ("private-data", rep))
            try:
                f = formula("H[7]2O", table=T)
                if f.atoms != {T.H[7]: 2, T.O: 1}:
                    R.violation("C01:private_table:extra_isotope", "an isotope defined only in the private table is not used", "H[7]2O", _atoms_names(f.atoms))
            except Exception as e:
                R.violation("C01:private_table:extra_isotope", "formula('H[7]2O', table=T) raises although T defines H[7]", "H[7]2O", "%s: %s" % (type(e).__name__, e))
            f = formula("D2O@1n", table=T)
            exp = 1.0 * (2 * T.D.mass + T.O.mass) / (2 * T.H.mass + T.O.mass)
            if not close(f.density, exp, 1e-12):
                R.violation("C01:private_table:natural_density_uses_other_masses", "'D2O@1n' with table=T must convert with T's masses",
                            "D2O@1n", f.density, exp)
            f = formula("Fe2", table=T)
            if f.density != 5.0:
                R.violation("C01:private_table:default_density", "a single-element string takes its default density from T", "Fe2", f.density, 5.0)
            f = formula("Fe", table=T)
            if any(core.change_table(a, T) is not a for a in f.atoms):
                R.violation("C01:private_table:atoms_of_T", "atoms of formula(s, table=T) are not atoms of T", "Fe")
        # the public table is not affected
        if pt.formula("D2O@1n").density == formula("D2O@1n", table=T).density:
            R.violation("C01:private_table:public_equals_private", "public and customised private table give the same '@1n' density", "D2O@1n")
        R.ok(1)
    finally:
        core.PRIVATE_TABLES.pop(name, None)
    return R.done()


# ------------------------------------------------------------------------------------------------ C12
def task_C12(tier, seed, arg):
    import periodictable as pt
    from periodictable.formulas import formula
    R = Result("one formula object: natural density given, then density assigned, then natural density read (and the reverse), through "
               "keyword / attribute / tag; single-atom formulas in every spelling take the atom's density", False)
    def ratio(f):
        K = pt.constants.electron_mass
        nat_m = act = 0.0
        for a, n in f.atoms.items():
            q = a.charge
            base = a.element if pt.core.ision(a) else a
            el = base.element if pt.core.isisotope(base) else base
            nat_m += n * (el.mass - q * K)
            act += n * a.mass
        return nat_m / act
    for text in ("D2O", "H[2]{+}2O{2-}", "Fe[56]2O3", "C[13]O[18]2", "LiD"):
        for first in ("keyword", "attribute", "tag"):
            R.ok(2, (text, first))
            if first == "keyword":
                f = formula(text, natural_density=1.0)
            elif first == "tag":
                f = formula(text + "@1n")
            else:
                f = formula(text)
                f.natural_density = 1.0
            r = ratio(f)
            f.density = 1.2
            if not close(f.natural_density, 1.2 * r, 1e-12):
                R.violation("C12:stale_natural_density:%s" % first, "after natural density was given by %s and density then assigned, "
                            "natural_density is not density*ratio" % first, {"formula": text}, f.natural_density, 1.2 * r)
            g = formula(text, density=1.2)
            g.natural_density = 2.0
            g.density = 3.0
            g.natural_density = 1.0
            if not close(g.density, 1.0 / r, 1e-12) or not close(g.natural_density, 1.0, 1e-12):
                R.violation("C12:stale_density:%s" % first, "alternating assignments leave density/natural_density inconsistent", {"formula": text},
                            [g.density, g.natural_density], [1.0 / r, 1.0])
    # a private table with customised masses (the documented H = 1 example): the ratio is taken over THAT table's masses
    from periodictable import core as _core, mass as _mass, density as _density
    tname = "stateful_c12_%d" % random.Random(seed).randrange(10 ** 9)
    T = _core.PeriodicTable(tname)
    try:
        _mass.init(T)
        _density.init(T)
        T.H._mass = 1.0
        T.O._mass = 16.5
        for text in ("D2O", "H[1]2O", "C[13]D4", "LiD", "O[18]2"):
            f = formula(text + "@1n", table=T)
            nat_m = sum(n * (a.element.mass if _core.isisotope(a) else a.mass) for a, n in f.atoms.items())
            r = nat_m / f.mass
            R.ok(3, ("private-masses", text))
            if not close(f.density, 1.0 / r, 1e-12) or not close(f.natural_density, 1.0, 1e-12):
                R.violation("C12:private_table_masses:tag", "'%s@1n' on a private table with customised masses: density is not natural density / ratio over THAT table's masses" % text,
                            {"formula": text, "H.mass": 1.0, "O.mass": 16.5}, [f.density, f.natural_density], [1.0 / r, 1.0])
            g = formula(text, table=T, density=2.0)
            if not close(g.natural_density, 2.0 * r, 1e-12):
                R.violation("C12:private_table_masses:keyword", "formula(%r, table=T, density=2): natural_density is not density * ratio over T's masses" % text,
                            {"formula": text}, g.natural_density, 2.0 * r)
            g.natural_density = 3.0
            if not close(g.density, 3.0 / r, 1e-12):
                R.violation("C12:private_table_masses:attribute", "assigning natural_density on a private-table formula does not divide by T's ratio", {"formula": text}, g.density, 3.0 / r)
    finally:
        _core.PRIVATE_TABLES.pop(tname, None)
    # natural_density= / density= by keyword for every kind of initializer (string, atom object, dict, sequence, Formula)
    for atom in (pt.D, pt.Fe[56], pt.O[18], pt.Li[6], pt.Fe[54].ion[3], pt.Ni):
        nm = nat.atom_name(atom)
        inits = {"atom": atom, "dict": {atom: 2}, "sequence": [(2, atom)], "nested": [(1, [(3, atom)])], "formula": formula([(1, atom)]), "string": nm}
        for kind, init in inits.items():
            R.ok(2, ("keyword-init", nm, kind))
            f = formula(init, natural_density=2.5)
            r = ratio(f)
            if f.density is None or not close(f.density, 2.5 / r, 1e-12) or not close(f.natural_density, 2.5, 1e-12):
                R.violation("C12:natural_density_keyword:%s" % kind, "formula(<%s>, natural_density=2.5): density is not natural_density / ratio "
                            "(%s)" % (kind, nm), {"atom": nm, "kind": kind}, [f.density, f.natural_density], [2.5 / r, 2.5])
            g = formula(init, density=3.5)
            if g.density is None or not close(g.density, 3.5, 1e-12) or not close(g.natural_density, 3.5 * r, 1e-12):
                R.violation("C12:density_keyword:%s" % kind, "formula(<%s>, density=3.5): natural_density is not density * ratio (%s)" % (kind, nm),
                            {"atom": nm, "kind": kind}, [g.density, g.natural_density], [3.5, 3.5 * r])
    for atom in (pt.Fe, pt.D, pt.O, pt.Fe.ion[2], pt.Fe[56]):
        nm = nat.atom_name(atom)
        spell = [nm, "2" + nm, "0.5" + nm, nm + "2", "(%s)2" % nm, nm + nm, "%s2 %s" % (nm, nm), "%s + %s" % (nm, nm), "((%s)2)3" % nm]
        for s in spell:
            R.ok(1, ("single-atom", nm, s))
            f = formula(s)
            if len(f.atoms) == 1 and not (f.density == atom.density or close(f.density, atom.density, 1e-12)):
                R.violation("C12:single_atom_default_density:%s" % s, "a formula with one kind of atom defaults to that atom's density, "
                            "however it is written", {"formula": s}, f.density, atom.density)
        for st_ in ([(2, atom)], [(1, [(2, atom)])], [(1, atom), (1, atom)]):
            R.ok(1)
            f = formula(st_)
            if not (f.density == atom.density or close(f.density, atom.density, 1e-12)):
                R.violation("C12:single_atom_default_density:structure", "single-atom structure does not default to the atom's density",
                            {"structure": nat.struct_repr(st_)}, f.density, atom.density)
    return R.done()


# ------------------------------------------------------------------------------------------------ C14 / C15
def _ref_activity(act, iso, mass, envd, exposure, rest):
    return act.activity(iso, mass, act.ActivationEnvironment(**envd), exposure, rest)


def task_C14(tier, seed, arg):
    import periodictable as pt
    from periodictable import activation as act
    R = Result("an ActivationEnvironment / Sample that is re-used after its public fields were changed must give what a fresh one "
               "gives: Cd_ratio 70->0->20, fast_ratio 0->50, fluence x10, on Au, Co, Eu[151], Cl[35] (fast rows)", False)
    rest = (0, 1, 24)
    for iso in (pt.Au[197], pt.Co[59], pt.Eu[151], pt.Cl[35], pt.Al[27]):
        env = act.ActivationEnvironment(fluence=1e8, Cd_ratio=70, fast_ratio=0)
        seq = [("Cd_ratio", 0), ("Cd_ratio", 20), ("fast_ratio", 50), ("fluence", 1e9), ("Cd_ratio", 0.5), ("fast_ratio", 0)]
        act.activity(iso, 1.0, env, 10, rest)
        cur = {"fluence": 1e8, "Cd_ratio": 70, "fast_ratio": 0}
        for fld, val in seq:
            setattr(env, fld, val)
            cur[fld] = val
            got = act.activity(iso, 1.0, env, 10, rest)
            exp = _ref_activity(act, iso, 1.0, dict(cur), 10, rest)
            R.ok(1, (nat.atom_name(iso), fld, val))
            gk = sorted((k.daughter, k.reaction, [float(x) for x in v]) for k, v in got.items())
            ek = sorted((k.daughter, k.reaction, [float(x) for x in v]) for k, v in exp.items())
            same = len(gk) == len(ek) and all(a[:2] == b[:2] and all(close(x, y, 1e-12) for x, y in zip(a[2], b[2])) for a, b in zip(gk, ek))
            if not same:
                R.violation("C14:stale_environment:%s" % fld, "after env.%s = %r a re-used environment gives other activities than a fresh one"
                            % (fld, val), {"isotope": nat.atom_name(iso), "field": fld, "value": val, "env": dict(cur)}, gk[:3], ek[:3])
    # a Sample re-used for a second calculation
    for ftxt in ("Co30Fe70", "Au", "NaCl"):
        s = act.Sample(ftxt, 10)
        for exposure, fl in ((10, 1e8), (100, 1e8), (10, 1e10)):
            env = act.ActivationEnvironment(fluence=fl, Cd_ratio=70, fast_ratio=50)
            s.calculate_activation(env, exposure=exposure, rest_times=rest)
            f = act.Sample(ftxt, 10)
            f.calculate_activation(act.ActivationEnvironment(fluence=fl, Cd_ratio=70, fast_ratio=50), exposure=exposure, rest_times=rest)
            R.ok(1, (ftxt, exposure, fl))
            a = sorted((k.daughter, [float(x) for x in v]) for k, v in s.activity.items())
            b = sorted((k.daughter, [float(x) for x in v]) for k, v in f.activity.items())
            if len(a) != len(b) or any(x[0] != y[0] or not all(close(p, q, 1e-12) for p, q in zip(x[1], y[1])) for x, y in zip(a, b)):
                R.violation("C14:stale_sample", "a re-used Sample gives other activities than a fresh one", {"formula": ftxt, "exposure": exposure, "fluence": fl})
    # rest times given as the caller's own numpy vector (float64, float32, integer), used for several calls: the vector is only read
    import numpy as np
    env = act.ActivationEnvironment(fluence=1e8, Cd_ratio=70, fast_ratio=50)
    for dtype in ("float64", "int64", "int32"):     # (float32 rest times lose digits in lambda*t: precision, not a defect)
        vec = np.array([0, 1, 24, 360], dtype=dtype)
        keep = vec.copy()
        for k, iso in enumerate((pt.Au[197], pt.Co[59], pt.Cl[35], pt.Au[197])):
            R.ok(1, ("rest-vector", dtype, k))
            try:
                got = act.activity(iso, 1.0, env, 10, vec)
            except Exception as e:
                R.violation("C14:rest_times_vector:%s:exception" % dtype, "activity(..., rest_times=<%s vector>) raised %s: %s" % (dtype, type(e).__name__, str(e)[:120]),
                            {"isotope": nat.atom_name(iso), "dtype": dtype, "call": k})
                break
            exp = act.activity(iso, 1.0, env, 10, [0, 1, 24, 360])
            if not np.array_equal(vec, keep):
                R.violation("C14:rest_times_vector:%s:argument_modified" % dtype, "activity() changed the caller's vector of rest times",
                            {"isotope": nat.atom_name(iso), "dtype": dtype, "call": k}, vec.tolist(), keep.tolist())
                break
            gk = sorted((x.daughter, x.reaction, [float(v) for v in vals]) for x, vals in got.items())
            ek = sorted((x.daughter, x.reaction, [float(v) for v in vals]) for x, vals in exp.items())
            if len(gk) != len(ek) or any(a[:2] != b[:2] or not all(close(x, y, 1e-6 if dtype == "float32" else 1e-12) for x, y in zip(a[2], b[2])) for a, b in zip(gk, ek)):
                R.violation("C14:rest_times_vector:%s" % dtype, "call %d with the same vector of rest times differs from the call with the list [0, 1, 24, 360]" % k,
                            {"isotope": nat.atom_name(iso), "dtype": dtype, "call": k}, gk[:2], ek[:2])
                break
        s2 = act.Sample("Co30Fe70", 10)
        vec = np.array([0, 1, 24, 360], dtype=dtype)
        s2.calculate_activation(env, exposure=10, rest_times=vec)
        s3 = act.Sample("Co30Fe70", 10)
        s3.calculate_activation(env, exposure=10, rest_times=(0, 1, 24, 360))
        R.ok(1, ("sample-rest-vector", dtype))
        a = sorted((k.daughter, [float(x) for x in v]) for k, v in s2.activity.items())
        b = sorted((k.daughter, [float(x) for x in v]) for k, v in s3.activity.items())
        if not np.array_equal(vec, np.array([0, 1, 24, 360], dtype=dtype)) or len(a) != len(b) or \
                any(x[0] != y[0] or not all(close(p, q, 1e-6 if dtype == "float32" else 1e-12) for p, q in zip(x[1], y[1])) for x, y in zip(a, b)):
            R.violation("C14:sample_rest_times_vector:%s" % dtype, "a Sample activated with a numpy vector of rest times differs from the tuple (or the vector was changed)",
                        {"dtype": dtype}, a[:2], b[:2])
    return R.done()


def task_C15(tier, seed, arg):
    from periodictable import activation as act
    R = Result("decay_time on a Sample whose activation was recalculated (other exposure / flux / mass, same rest times) equals the "
               "decay time of a fresh Sample; weakly activated samples (total activity ~1e-12 uCi) still obey zero-iff", False)
    rest = (0, 1, 24, 360)
    for ftxt in ("Co30Fe70", "Au", "NaCl", "Eu"):
        s = act.Sample(ftxt, 10)
        for exposure, fl in ((10, 1e8), (100, 1e8), (1, 1e10)):
            s.calculate_activation(act.ActivationEnvironment(fluence=fl, Cd_ratio=70, fast_ratio=50), exposure=exposure, rest_times=rest)
            f = act.Sample(ftxt, 10)
            f.calculate_activation(act.ActivationEnvironment(fluence=fl, Cd_ratio=70, fast_ratio=50), exposure=exposure, rest_times=rest)
            A0 = sum(v[0] for v in f.activity.values())
            for frac in (1e-3, 0.3):
                R.ok(1, (ftxt, exposure, fl, frac))
                try:
                    a, b = s.decay_time(A0 * frac), f.decay_time(A0 * frac)
                except RuntimeError:
                    continue
                if not close(a, b, 1e-6, 1e-9):
                    R.violation("C15:stale_sample", "decay_time of a re-used Sample differs from a fresh Sample's", {"formula": ftxt, "exposure": exposure, "fluence": fl, "fraction": frac}, a, b)
    # products whose computed activity is exactly zero (two-step captures at low fluence) must not disturb the solver
    for ftxt, m, fl in (("Mg7Bi4Nd4", 0.0017728809482403136, 164134.38192332987), ("Mg", 1.0, 1e4), ("Co", 1e-3, 1e3), ("MgO", 1e-2, 1e5)):
        s = act.Sample(ftxt, m)
        s.calculate_activation(act.ActivationEnvironment(fluence=fl, Cd_ratio=1.0, fast_ratio=0.0), exposure=111.17, rest_times=rest)
        A0 = sum(v[0] for v in s.activity.values())
        zeros = sum(1 for v in s.activity.values() if v[0] == 0)
        for frac in (1e-6, 1e-3, 0.5):
            R.ok(1, ("zero-activity-product", ftxt, frac, zeros > 0))
            try:
                t = s.decay_time(A0 * frac)
                tot = sum(v[0] * 2 ** (-t / k.Thalf_hrs) for k, v in s.activity.items())
                if not close(tot, A0 * frac, 1.5e-3):
                    R.violation("C15:zero_activity_product:accuracy", "returned time does not reach the target within 0.1%%", {"formula": ftxt, "fraction": frac}, tot, A0 * frac)
            except RuntimeError:
                pass
            except Exception as e:
                R.violation("C15:zero_activity_product:%s" % type(e).__name__, "decay_time raised %s (%s) for a sample with %d product(s) of zero "
                            "computed activity; only RuntimeError may be raised" % (type(e).__name__, e, zeros),
                            {"formula": ftxt, "mass": m, "fluence": fl, "fraction": frac})
    for ftxt, m in (("C", 1.0), ("C2H4", 1.0), ("H2O", 1e-3), ("Mn", 1e-12)):
        s = act.Sample(ftxt, m)
        s.calculate_activation(act.ActivationEnvironment(fluence=1e5), exposure=1, rest_times=rest)
        if not s.activity:
            continue
        A0 = sum(v[0] for v in s.activity.values())
        for frac in (0.5, 0.01):
            R.ok(1, ("weak", ftxt, frac))
            try:
                t = s.decay_time(A0 * frac)
            except RuntimeError:
                continue
            if t == 0 and A0 > A0 * frac:
                R.violation("C15:zero_for_weak_sample", "decay_time returns 0 although the activity at removal (%.3g uCi) is above the target" % A0,
                            {"formula": ftxt, "mass": m, "fraction": frac}, t, "> 0")
    # the same calculation, repeated on new Sample objects (formulas holding an isotope next to its natural element)
    env2 = act.ActivationEnvironment(fluence=1e8, Cd_ratio=70, fast_ratio=50)
    for ftxt in ("Co[59]Co", "HDO", "Li[6]9LiF10", "Gd[160]Gd", "Co"):
        ref_act, ref_t = None, None
        for k in range(4):
            s = act.Sample(ftxt, 1.0)
            s.calculate_activation(env2, exposure=5, rest_times=(0, 1, 24))
            cur = sorted((str(p.daughter), p.reaction, [float(x) for x in v]) for p, v in s.activity.items())
            R.ok(1, ("repeat", ftxt, k))
            try:
                t = s.decay_time(0.01 * sum(v[2][0] for v in cur)) if cur else 0
            except RuntimeError:
                t = "RuntimeError"
            if ref_act is None:
                ref_act, ref_t = cur, t
            elif cur != ref_act or t != ref_t:
                R.violation("C15:repeat_changes_result", "run %d of the same activation of %s gives other activities / another decay time than run 1" % (k + 1, ftxt),
                            {"formula": ftxt, "run": k + 1}, [cur[:2], t], [ref_act[:2], ref_t])
                break
    # formulas that name specific isotopes, activated with rest lists other than the default one: every product carries one
    # activity per requested rest time, and the answer does not depend on which rest times were requested
    env = act.ActivationEnvironment(fluence=1e8, Cd_ratio=70, fast_ratio=50)
    for ftxt in ("Cu[63]", "Co[59]Cu[65]", "Au[197]Fe", "Na[23]Cl", "Eu[151]2O3", "Li[6]Co[59]O2"):
        ref = act.Sample(ftxt, 1.0)
        ref.calculate_activation(env, exposure=5, rest_times=(0,))
        if not ref.activity:
            continue
        A0 = sum(v[0] for v in ref.activity.values())
        tref = None
        for rest2 in ((0,), (0, 2), (0, 1, 24, 360), (0, 5, 50, 500, 5000), (12, 0, 0.5), (0, 1e-3)):   # lists without 0: known finding (c15 sample)
            s = act.Sample(ftxt, 1.0)
            s.calculate_activation(env, exposure=5, rest_times=rest2)
            R.ok(2, ("isotope-formula", ftxt, rest2))
            badlen = [str(k) for k, v in s.activity.items() if len(v) != len(rest2)]
            if badlen:
                R.violation("C15:rest_times:activity_length", "after calculate_activation(rest_times=%r) a product of %s carries %d activities, "
                            "not one per rest time" % (rest2, ftxt, len(s.activity[[k for k in s.activity if str(k) in badlen][0]])),
                            {"formula": ftxt, "rest_times": list(rest2)}, badlen[:3], len(rest2))
                continue
            try:
                t = s.decay_time(A0 * 0.01)
            except RuntimeError:
                continue
            tot = sum(v[0] * 2 ** (-t / k.Thalf_hrs) for k, v in ref.activity.items())
            if not close(tot, A0 * 0.01, 1.5e-3):
                R.violation("C15:rest_times:accuracy", "decay_time after rest_times=%r is not within 0.1%% of the target for %s" % (rest2, ftxt),
                            {"formula": ftxt, "rest_times": list(rest2)}, tot, A0 * 0.01)
            if tref is None:
                tref = t
            elif not close(t, tref, 1e-3, 1e-6):
                R.violation("C15:rest_times:dependence", "decay_time of %s depends on which rest times were requested" % ftxt,
                            {"formula": ftxt, "rest_times": list(rest2)}, t, tref)
    return R.done()


# ------------------------------------------------------------------------------------------------ C07 / C03 / C04
def task_C07(tier, seed, arg):
    import numpy as np
    import periodictable as pt
    R = Result("scattering_by_wavelength with a caller-owned buffer that is re-used and overwritten in place between calls equals the "
               "result for a fresh array; the caller's array is not modified; all energy-dependent atoms", False)
    atoms = [a for el in pt.elements for a in [el] + [el[i] for i in el.isotopes] if getattr(a.neutron, "nsf_table", None) is not None]
    for a in atoms:
        tbl = a.neutron.nsf_table[0]
        grid = np.concatenate([tbl[:6], [tbl[0] * 0.5, tbl[-1] * 2.0], tbl[-6:]])
        for kind in ("ndarray", "list"):
            buf = np.zeros(3) if kind == "ndarray" else [0.0, 0.0, 0.0]
            for k in range(0, len(grid) - 2, 3):
                vals = [float(x) for x in grid[k:k + 3]]
                for j in range(3):
                    buf[j] = vals[j]
                before = list(buf)
                got = a.neutron.scattering_by_wavelength(buf)[0]
                exp = a.neutron.scattering_by_wavelength(np.array(vals))[0]
                R.ok(1, (nat.atom_name(a), kind))
                if list(buf) != before:
                    R.violation("C07:argument_modified:%s" % kind, "scattering_by_wavelength modified the caller's wavelength %s" % kind,
                                {"atom": nat.atom_name(a), "wavelengths": vals}, list(map(float, buf)), before)
                if not np.allclose(np.asarray(got), np.asarray(exp), rtol=1e-12, atol=0):
                    R.violation("C07:stale_buffer:%s" % kind, "a re-used, overwritten %s gives the scattering lengths of its previous contents" % kind,
                                {"atom": nat.atom_name(a), "wavelengths": vals}, [complex(x) for x in np.asarray(got)], [complex(x) for x in np.asarray(exp)])
    return R.done()


def task_C04(tier, seed, arg):
    import numpy as np
    import periodictable as pt
    from periodictable import nsf
    from periodictable.formulas import formula
    R0 = None
    R = Result("Formula.neutron_sld(energy=/wavelength=) (deprecated method) equals nsf.neutron_sld on the same formula, scalar and "
               "vector, for compounds with energy-dependent atoms; float64 wavelength arrays beyond the table ends are not modified", False)
    _parse_isolation(R, ["SiO2@2.2", "CCl4@1.5867", "Gd2O3@7.4", "H2O@1", "Ni"], "C04",
                     calc=lambda t: nsf.neutron_scattering(t, wavelength=1.8))
    # regrouped spellings (fractional and nested multipliers) against the flat spelling at the same density
    for text, want in FRACTION_STRINGS:
        flat = formula({(pt.H[2] if k == "H[2]" else getattr(pt, k)): v for k, v in want.items()})
        R.ok(1, ("regrouped", text))
        a = nsf.neutron_scattering(text, density=2.5, wavelength=1.8)
        b = nsf.neutron_scattering(flat, density=2.5, wavelength=1.8)
        ok = all(np.allclose(np.asarray(x, dtype=float), np.asarray(y, dtype=float), rtol=1e-10, atol=0) for x, y in zip(a[0] + a[1] + (a[2],), b[0] + b[1] + (b[2],)))
        if not ok:
            R.violation("C04:regrouped_string:%s" % text, "neutron_scattering of %r differs from the flat formula with the same atoms at the same density" % text,
                        {"string": text}, [float(x) for x in a[0]], [float(x) for x in b[0]])
    # the same composition per unit mass reached through the composite calculator (a regrouping of the same atoms, also with
    # fragments of weight zero), and its density scaling; scalar wavelengths only
    frags = [formula("HSO4"), formula("H2O"), formula("CCl4"), formula("Gd2O3")]
    for w in ([3.0, 0.0, 2.0, 0.0], [1.0, 2.0, 0.0, 0.5], [0.0, 0.0, 0.0, 2.0], [0.5, 0.25, 4.0, 1.0]):
        for lam in (1.8, 4.75):
            R.ok(1, ("composite", tuple(w), lam))
            calc = nsf.neutron_composite_sld(frags, wavelength=lam)
            total = formula()
            for wi, m in zip(w, frags):
                total = total + wi * m
            got1 = calc(np.array(w), density=1.3)
            got2 = calc(np.array(w), density=2.6)
            exp = nsf.neutron_sld(total, density=1.3, wavelength=lam)
            if got1 is None or exp is None or any(x is None for x in tuple(got1) + tuple(exp)):
                R.violation("C04:composite_regrouping:none", "the composite calculator / neutron_sld returned None for fragments with neutron data",
                            {"weights": w, "wavelength": lam}, repr(got1), repr(exp))
                continue
            if not all(close(float(g), float(e), 1e-9, 0.0) for g, e in zip(got1, exp)):
                R.violation("C04:composite_regrouping", "the composite calculator at weights %r is the same composition per unit mass as the summed "
                            "formula but gives another SLD" % (w,), {"weights": w, "wavelength": lam}, [float(x) for x in got1], [float(x) for x in exp])
            if not all(close(float(b), 2 * float(a), 1e-9, 0.0) for a, b in zip(got1, got2)):
                R.violation("C04:composite_density_scaling", "doubling the density does not double the composite SLD at weights %r" % (w,),
                            {"weights": w, "wavelength": lam}, [float(x) for x in got2], [2 * float(x) for x in got1])
    for text, rho in (("Gd2O3", 7.4), ("Sm2O3", 8.3), ("Eu2O3", 7.4), ("H2O", 1.0), ("Lu[176]2O3", 9.4), ("Er2O3", 8.6)):
        f = formula(text, density=rho)
        for lam in (0.8, 1.798, 4.0, np.array([0.5, 1.0, 12.0]), [0.3, 9.0]):
            E = nsf.neutron_energy(np.asarray(lam, dtype=float))
            R.ok(2, (text, str(lam)))
            for kw in ({"wavelength": lam}, {"energy": E if np.ndim(E) else float(E)}):
                got = f.neutron_sld(**kw)
                exp = nsf.neutron_sld(f, **kw)
                if np.shape(got[0]) != np.shape(exp[0]) or not all(np.allclose(g, e, rtol=1e-12, atol=1e-300) for g, e in zip(got, exp)):
                    R.violation("C04:formula_method:%s" % list(kw)[0], "Formula.neutron_sld(%s=...) differs from nsf.neutron_sld for %s" % (list(kw)[0], text),
                                {"formula": text, "kw": {k: np.asarray(v).tolist() for k, v in kw.items()}},
                                [np.asarray(x).tolist() for x in got], [np.asarray(x).tolist() for x in exp])
            if isinstance(lam, np.ndarray):
                keep = lam.copy()
                nsf.neutron_scattering(f, wavelength=lam)
                if not np.array_equal(keep, lam):
                    R.violation("C04:argument_modified", "neutron_scattering modified the caller's wavelength array", {"formula": text}, lam.tolist(), keep.tolist())
    return R.done()


# ------------------------------------------------------------------------------------------------ C16
def task_C16(tier, seed, arg):
    import periodictable as pt
    from periodictable import nsf, fasta, core, mass, density
    from periodictable.formulas import formula
    R = Result("the same residue letters under 'aa:' / 'dna:' / 'rna:' in one process (every order) against the Sequence classes; "
               "a compound built on a private table and passed with table=T is substituted (its SLD depends on the D2O fraction)", False)
    import itertools
    for letters in ("GATTACA", "ACGT", "GGCC"):
        for order in itertools.permutations(("aa", "dna", "rna")):
            for typ in order:
                R.ok(1, (letters, order, typ))
                try:
                    seq = fasta.Sequence("s", letters.replace("T", "U") if typ == "rna" and False else letters, type=typ)
                except KeyError:
                    continue
                got = nsf.D2O_match("%s:%s" % (typ, letters))[0] * 100
                if not close(got, seq.D2Omatch, 1e-9):
                    R.violation("C16:prefix_type_confused:%s" % typ, "D2O_match('%s:%s') differs from fasta.Sequence(type=%r).D2Omatch after "
                                "the other prefixes were used first" % (typ, letters, typ), {"letters": letters, "order": order, "type": typ}, got, seq.D2Omatch)
    name = "stateful_c16_%d" % random.Random(seed).randrange(10 ** 9)
    T = core.PeriodicTable(name)
    try:
        pt.H.neutron.b_c        # public neutron data first (known finding: private nsf.init before public)
        mass.init(T)
        density.init(T)
        nsf.init(T)
        mol = formula("C3H4H[1]3NO2@1.29", table=T)
        R.ok(2)
        a = nsf.D2O_sld(mol, volume_fraction=1, D2O_fraction=0.0, table=T)[0]
        b = nsf.D2O_sld(mol, volume_fraction=1, D2O_fraction=1.0, table=T)[0]
        pa = nsf.D2O_sld("C3H4H[1]3NO2@1.29", volume_fraction=1, D2O_fraction=0.0)[0]
        pb = nsf.D2O_sld("C3H4H[1]3NO2@1.29", volume_fraction=1, D2O_fraction=1.0)[0]
        if not (close(a, pa, 1e-9) and close(b, pb, 1e-9)):
            R.violation("C16:private_table_not_substituted", "D2O_sld of a compound built on a private table (table=T) does not substitute "
                        "its labile hydrogens (differs from the public table's result)", {"compound": "C3H4H[1]3NO2@1.29"}, [a, b], [pa, pb])
    finally:
        core.PRIVATE_TABLES.pop(name, None)
    return R.done()


# ------------------------------------------------------------------------------------------------ C17
def task_C17(tier, seed, arg):
    import numpy as np
    from periodictable import nsf
    from periodictable.formulas import formula
    R = Result("very small (1e-11..1e-14) but non-zero weights and densities are NOT the zero case: the calculator equals the direct "
               "calculation; exact zeros give zeros; scalar wavelengths of every numeric type give scalar outputs", False)
    mats = [formula("H2O"), formula("SiO2"), formula("Gd2O3")]
    for scale in (1.0, 1e-6, 1e-11, 1e-14):
        for rho in (2.0, 1e-9, 1e-12):
            w = np.array([1.0, 2.0, 0.5]) * scale
            calc = nsf.neutron_composite_sld(mats, wavelength=1.8)
            got = calc(w, density=rho)
            total = w[0] * mats[0] + w[1] * mats[1] + w[2] * mats[2]
            exp = nsf.neutron_sld(total, density=rho, wavelength=1.8)
            R.ok(1, (scale, rho))
            if not all(close(float(g), float(e), 1e-9, 0.0) for g, e in zip(got, exp)):
                R.violation("C17:tiny_is_not_zero", "weights x %g at density %g: the calculator differs from the direct calculation "
                            "(a tiny amount is not 'zero total weight')" % (scale, rho), {"scale": scale, "density": rho},
                            [float(x) for x in got], [float(x) for x in exp])
    # the same material OBJECT listed several times (and equal but distinct objects): weights add
    water, heavy, gd = formula("H2O"), formula("D2O"), formula("Gd2O3")
    for mats3, w3 in (([water, heavy, water], [3.0, 1.0, 2.0]), ([water, water, heavy, water], [1.0, 2.0, 0.5, 4.0]),
                      ([gd, water, gd], [0.2, 5.0, 0.7]), ([water, formula("H2O"), heavy], [3.0, 2.0, 1.0])):
        for lam in (1.8, np.array([1.0, 4.0])):
            R.ok(1, ("repeated-object", len(mats3), np.ndim(lam)))
            got = nsf.neutron_composite_sld(mats3, wavelength=lam)(np.array(w3), density=1.1)
            total = formula()
            for wi, m in zip(w3, mats3):
                total = total + wi * m
            exp = nsf.neutron_sld(total, density=1.1, wavelength=lam)
            if not all(np.allclose(np.asarray(g, dtype=float), np.asarray(e, dtype=float), rtol=1e-9, atol=0) for g, e in zip(got, exp)):
                R.violation("C17:repeated_material_object", "a material listed more than once (the same object) must count with the sum of its weights",
                            {"materials": [str(m) for m in mats3], "weights": w3}, [np.asarray(g).tolist() for g in got], [np.asarray(e).tolist() for e in exp])
    # a scalar wavelength is a scalar whatever its numeric type (python int, numpy integer / float32 / float64 scalars)
    mats2 = [formula("H2O"), formula("Gd2O3"), formula("SiO2")]
    w2 = np.array([1.0, 0.25, 2.0])
    for lam in (3, np.int64(2), np.int32(4), np.float32(1.5), np.float64(1.8), np.float16(2.0)):
        R.ok(1, ("scalar-type", type(lam).__name__))
        got = nsf.neutron_composite_sld(mats2, wavelength=lam)(w2, density=2.0)
        total = w2[0] * mats2[0] + w2[1] * mats2[1] + w2[2] * mats2[2]
        exp = nsf.neutron_sld(total, density=2.0, wavelength=float(lam))
        if any(np.shape(g) != () for g in got) or not all(close(float(np.asarray(g).reshape(-1)[0]), float(e), 1e-9) for g, e in zip(got, exp)):
            R.violation("C17:scalar_wavelength_type:%s" % type(lam).__name__, "a scalar wavelength of type %s must give scalar outputs equal to the direct "
                        "calculation" % type(lam).__name__, {"wavelength": float(lam), "type": type(lam).__name__},
                        [np.asarray(g).tolist() for g in got], [float(e) for e in exp])
    # one calculator, the caller's own float64 weight vector updated in place between calls (a fit loop): each call sees the current weights
    mats5 = [formula("H2O"), formula("D2O"), formula("SiO2")]
    for lam in (1.8, np.array([1.0, 4.0])):
        calc = nsf.neutron_composite_sld(mats5, wavelength=lam)
        wbuf = np.array([1.0, 0.0, 2.0])
        for step, new in enumerate(([1.0, 0.0, 2.0], [0.0, 1.0, 2.0], [0.5, 0.5, 0.0], [0.5, 0.5, 0.0], [3.0, 1.0, 1.0])):
            wbuf[:] = new
            keep = wbuf.copy()
            R.ok(1, ("weights-buffer", np.ndim(lam), step))
            got = calc(wbuf, density=1.5)
            total = formula()
            for wi, m in zip(new, mats5):
                total = total + wi * m
            exp = nsf.neutron_sld(total, density=1.5, wavelength=lam)
            if not np.array_equal(wbuf, keep):
                R.violation("C17:weights_buffer:argument_modified", "the calculator changed the caller's weight vector", {"weights": new, "step": step}, wbuf.tolist(), keep.tolist())
                break
            if not all(np.allclose(np.asarray(g, dtype=float), np.asarray(e, dtype=float), rtol=1e-9, atol=0) for g, e in zip(got, exp)):
                R.violation("C17:weights_buffer:stale", "the same weight vector object, refilled in place, gives the SLD of earlier weights (step %d)" % step,
                            {"weights": new, "step": step}, [np.asarray(g).tolist() for g in got], [np.asarray(e).tolist() for e in exp])
                break
    # a vector of wavelengths is a vector whatever its element type or memory layout (integer-valued grids such as np.arange,
    # float32, tuples, descending or strided views): entry i equals the direct calculation at float(wavelength_i)
    mats4 = [formula("H2O"), formula("Gd2O3"), formula("SiO2"), formula("Sm2O3")]
    w4 = np.array([1.0, 0.25, 2.0, 0.5])
    total4 = formula()
    for wi, m in zip(w4, mats4):
        total4 = total4 + wi * m
    for tname, lam in _typed(None):
        if np.ndim(lam) != 1:
            continue
        R.ok(1, ("vector-type", tname))
        flat = [float(x) for x in np.asarray(lam)]
        try:
            got = nsf.neutron_composite_sld(mats4, wavelength=lam)(w4, density=2.0)
        except Exception as e:
            R.violation("C17:vector_wavelength_type:%s:exception" % tname, "a wavelength vector of kind %s makes the calculator raise %s: %s"
                        % (tname, type(e).__name__, str(e)[:160]), {"wavelength": flat, "type": tname})
            continue
        exp = [nsf.neutron_sld(total4, density=2.0, wavelength=x) for x in flat]
        if got is None or any(g is None for g in got) or any(e is None or any(x is None for x in e) for e in exp):
            R.violation("C17:none_for_materials_with_data", "every atom of the materials (H, O, Si, Gd and natural Sm, whose tabulated b_c is exactly 0) "
                        "has neutron data, yet the calculator / the direct calculation returns None", {"wavelength": flat, "type": tname},
                        repr(got)[:120], repr(exp[0])[:120])
            continue
        ok = all(np.shape(g) == (len(flat),) for g in got) and all(
            close(float(np.asarray(g)[i]), float(exp[i][k]), 1e-5 if "float32" in tname else 1e-9) for k, g in enumerate(got) for i in range(len(flat)))
        if not ok:
            R.violation("C17:vector_wavelength_type:%s" % tname, "a wavelength vector of kind %s must give vectors whose entries equal the direct "
                        "calculation at each wavelength" % tname, {"wavelength": flat, "type": tname},
                        [np.asarray(g).tolist() for g in got], [[float(e[k]) for e in exp] for k in range(3)])
    return R.done()


# ------------------------------------------------------------------------------------------------ C11
def task_C11(tier, seed, arg):
    from periodictable.formulas import formula, mix_by_weight, mix_by_volume
    R = Result("series of mixtures built from the SAME component objects (incl. zero quantities and density=/name= keywords): the "
               "components are never changed or returned, every member has the documented proportions and density", False)
    for mixer, vol in ((mix_by_weight, False), (mix_by_volume, True)):
        H, D = formula("H2O@1"), formula("D2O@1n")
        snap = [(x.structure, x.density, x.name) for x in (H, D)]
        for x in (0, 50, 100, 30):
            r = mixer(H, 100 - x, D, x, density=1.05, name="m%d" % x)
            R.ok(3, (mixer.__name__, x))
            if r is H or r is D:
                R.violation("C11:component_returned:%s" % mixer.__name__, "the mixture is one of the caller's component objects", {"x": x})
            if [(y.structure, y.density, y.name) for y in (H, D)] != snap:
                R.violation("C11:component_changed:%s" % mixer.__name__, "mixing changed a component (density/name/structure)", {"x": x},
                            [(str(y), y.density, y.name) for y in (H, D)], [(str(s[0]), s[1], s[2]) for s in snap])
            if x not in (0, 100):
                r2 = mixer(H, 100 - x, D, x)
                qa = r2.atoms
                nH = qa.get(formula("H").atoms.popitem()[0], 0) / 2.0
                nD = qa.get(formula("D").atoms.popitem()[0], 0) / 2.0
                ra = (nH * H.mass / (H.density if vol else 1)) / (nD * D.mass / (D.density if vol else 1))
                if not close(ra, (100 - x) / x, 1e-9):
                    R.violation("C11:series_proportion:%s" % mixer.__name__, "a later member of the series has the wrong proportion", {"x": x}, ra, (100 - x) / x)
    for s, call in (("(50vol% H2O@1 // D2O@1n)@1.05n", None), ("(10wt% NaCl@2.16 // D2O@1n)@1.2n", None)):
        f = formula(s)
        inner = formula(s[1:s.rindex(")")])
        inner.natural_density = float(s[s.rindex("@") + 1:-1])
        R.ok(1, (s,))
        if not close(f.density, inner.density, 1e-12):
            R.violation("C11:grouped_mixture_natural_density", "'( mixture )@<d>n' must set the NATURAL density of the mixture", s, f.density, inner.density)
    # substituting isotopes in a mixture gives a NEW formula: the mixture, and equal mixtures built later, keep their atoms
    import periodictable as pt
    for mk in (lambda: mix_by_weight("NaCl@2.16", 1, "H2O@1", 3), lambda: formula("25 wt% NaCl@2.16 // H2O@1"), lambda: formula("(CaCO3(H2O)6)2"), lambda: mix_by_volume("H2O@1", 1, "C2H6O@0.79", 1)):
        m = mk()
        before = (_atoms_names(m.atoms), m.mass, m.density)
        R.ok(2, ("replace-on-mixture", str(m)[:30]))
        d = m.replace(pt.H, pt.D)
        again = mk()
        for label, x in (("the mixture itself", m), ("an equal mixture built afterwards", again)):
            now = (_atoms_names(x.atoms), x.mass, x.density)
            if not nat.maps_close(now[0], before[0], 1e-12) or not close(now[1], before[1], 1e-12) or not (now[2] == before[2] or close(now[2], before[2], 1e-12)):
                R.violation("C11:mixture_changed_by_replace", "after m.replace(H, D) %s reports other atoms / mass / density" % label, {"mixture": str(m)[:60]}, [now[0], now[1], now[2]], list(before))
        if "H" in _atoms_names(d.atoms) or "H[2]" not in _atoms_names(d.atoms):
            R.violation("C11:replace_on_mixture", "m.replace(H, D) of a mixture does not hold D in place of H", {"mixture": str(m)[:60]}, _atoms_names(d.atoms))
    # 'a wt% X // b% Y // Z' with a bare '%' in the middle, for middle components whose symbol begins like a keyword (W.., V.., M..)
    for kw, mixer in (("wt%", mix_by_weight), ("vol%", mix_by_volume)):
        for mid in ("W", "V", "Mn", "Mg", "Mo", "WO3", "V2O5", "Md", "Mt", "Fe"):
            text = "10%s Cr@7.2 // 5%% %s@5 // Fe@7.9" % (kw, mid)
            R.ok(1, ("bare-percent", kw, mid))
            try:
                f = formula(text)
            except Exception as e:
                R.violation("C11:bare_percent_middle:%s:rejected" % kw, "%r is rejected (%s), although later components may use a bare '%%'" % (text, type(e).__name__),
                            {"string": text}, str(e)[:120])
                continue
            g = mixer("Cr@7.2", 10, mid + "@5", 5, "Fe@7.9", 85)
            fa, ga = _atoms_names(f.atoms), _atoms_names(g.atoms)
            tot_f, tot_g = sum(fa.values()), sum(ga.values())
            if set(fa) != set(ga) or any(not close(fa[k] / tot_f, ga[k] / tot_g, 1e-9) for k in ga) or not close(f.density, g.density, 1e-9):
                R.violation("C11:bare_percent_middle:%s" % kw, "%r differs from the corresponding %s call" % (text, mixer.__name__), {"string": text},
                            [fa, f.density], [ga, g.density])
    # name= / density= / natural_density= given together with a string that states absolute amounts: the amount stays recorded,
    # the atoms stay those of the plain call
    for text, attr in (("2g Co // 2g Ti", "total_mass"), ("5g NaCl // 50mL H2O@1", "total_mass"), ("1mm Fe // 1mm Ni", "thickness"),
                       ("50 nm Co // 150 nm Ti", "thickness"), ("2 mg Fe // 10 mg Ni // 1 mg Co", "total_mass")):
        plain = formula(text)
        for kw in ({"name": "sample"}, {"density": 3.25}, {"natural_density": 2.5}, {"name": "s", "density": 1.5}):
            R.ok(2, (text, tuple(sorted(kw))))
            g = formula(text, **kw)
            got, want = getattr(g, attr, None), getattr(plain, attr, None)
            if want is None or got is None or not close(got, want, 1e-12):
                R.violation("C11:amount_with_keywords:%s:%s" % (attr, "+".join(sorted(kw))), "formula(%r, %s) no longer records the stated absolute amount (%s)"
                            % (text, ", ".join("%s=..." % k for k in sorted(kw)), attr), {"string": text, "keywords": kw}, got, want)
            if not nat.maps_close(_atoms_names(g.atoms), _atoms_names(plain.atoms)):
                R.violation("C11:atoms_with_keywords:%s" % "+".join(sorted(kw)), "formula(%r, %s) has other atoms than formula(%r)" % (text, kw, text),
                            {"string": text, "keywords": kw}, _atoms_names(g.atoms), _atoms_names(plain.atoms))
            if "name" in kw and g.name != kw["name"]:
                R.violation("C11:name_keyword", "the name= keyword is not recorded", {"string": text, "keywords": kw}, g.name, kw["name"])
            if "density" in kw and not close(g.density, kw["density"], 1e-12):
                R.violation("C11:density_keyword", "the density= keyword is not the density of the result", {"string": text, "keywords": kw}, g.density, kw["density"])
    return R.done()


# ------------------------------------------------------------------------------------------------ C08
def task_C08(tier, seed, arg):
    import periodictable as pt
    from periodictable import core, mass
    R = Result("lookups after the table changed: .isotopes read, then add_isotope, then 'A-Sym' lookup; isotope('A-Sym') then "
               "symbol('A-Sym'); on the public table and on a private table before/after mass.init", False)
    name = "stateful_c08_%d" % random.Random(seed).randrange(10 ** 9)
    T = core.PeriodicTable(name)
    try:
        for tab, label in ((pt.elements, "public"), (T, "private")):
            el = tab.Fe
            _ = el.isotopes
            try:
                tab.isotope("56-Fe")
            except ValueError:
                pass
            new = 99 if label == "public" else 72
            iso = el.add_isotope(new)
            R.ok(3, (label,))
            try:
                got = tab.isotope("%d-Fe" % new)
                if got is not iso:
                    R.violation("C08:stale_isotope_list:%s" % label, "an isotope added after .isotopes was read is not found by 'A-Sym'", label, repr(got))
            except ValueError as e:
                R.violation("C08:stale_isotope_list:%s" % label, "isotope('%d-Fe') raises although Fe[%d] exists (added after .isotopes was read)" % (new, new), label, str(e))
            if new not in el.isotopes or [i.isotope for i in el] != sorted(el.isotopes):
                R.violation("C08:stale_isotope_list:iteration:%s" % label, ".isotopes / iteration do not show the added isotope", label)
            del el._isotopes[new]
        # exporting a table into a namespace (the mechanism behind `from periodictable import Fe`) rebinds every name
        ns = {"_mine": "caller's"}
        for tab, label in ((pt.elements, "public"), (T, "private"), (pt.elements, "public again")):
            names = core.define_elements(tab, ns)
            R.ok(1, ("define_elements", label))
            wrong = [k for k in names if ns.get(k) is not (getattr(tab, k, None) if hasattr(tab, k) else tab.name(k))]
            if wrong or ns.get("_mine") != "caller's":
                R.violation("C08:define_elements:%s" % label.replace(" ", "_"), "after define_elements(%s table, ns) %d exported names are not bound to that "
                            "table's atoms (a namespace that already held another table's names)" % (label, len(wrong)), {"table": label}, wrong[:6])
        T.isotope("2-H") if 2 in T.H.isotopes else None
        mass.init(T)
        R.ok(1)
        try:
            if T.isotope("1-H") is not T.H[1]:
                R.violation("C08:stale_isotope_list:after_init", "isotope('1-H') on a private table is not H[1] after mass.init", "private")
        except ValueError as e:
            R.violation("C08:stale_isotope_list:after_init", "isotope('1-H') raises on a private table after mass.init", "private", str(e))
        for tab, label in ((pt.elements, "public"), (T, "private")):
            for key in ("56-Fe", "2-H", "D", "235-U"):
                try:
                    tab.isotope(key)
                except ValueError:
                    continue
                R.ok(2, (label, key))
                for fn in (tab.symbol, tab.name):
                    try:
                        x = fn(key)
                        if getattr(x, "symbol", None) != key and getattr(x, "name", None) != key:
                            R.violation("C08:key_leak:%s:%s" % (fn.__name__, key), "after isotope(%r), %s(%r) returns %r whose symbol/name is not the key"
                                        % (key, fn.__name__, key, x), {"table": label, "key": key}, repr(x), "ValueError")
                    except ValueError:
                        pass
    finally:
        core.PRIVATE_TABLES.pop(name, None)
    return R.done()


# ------------------------------------------------------------------------------------------------ C03 / C05 argument types
def _typed(x):
    import numpy as np
    return [("int", 2), ("int64", np.int64(2)), ("int32", np.int32(2)), ("float32", np.float32(2.0)),
            ("float64", np.float64(2.0)), ("list[int]", [2, 4]), ("tuple", (2.0, 4.0)), ("int-array", np.array([2, 4])),
            ("float32-array", np.array([2.0, 4.0], dtype=np.float32)), ("2d", np.array([[2.0, 4.0], [1.0, 8.0]])),
            ("descending", np.array([8.0, 4.0, 2.0, 1.0])), ("F-order", np.asfortranarray(np.array([[2.0, 4.0, 1.0], [8.0, 0.5, 3.0]]))),
            ("transposed", np.array([[2.0, 4.0, 1.0], [8.0, 0.5, 3.0]]).T), ("strided", np.arange(1.0, 9.0)[::-2])]


def _entrywise(R, key, what, fn, arg, rtol=1e-12):
    """fn(arg) for an array-like arg has the shape of arg and entry i equals fn(float(arg_i)); scalars give scalars"""
    import numpy as np
    a = np.asarray(arg)
    snapshot = a.copy()
    try:
        got = fn(arg)
    except Exception as e:      # the call under test failed: that is a finding about the code, not a reason to stop the task
        R.violation(key + ":exception", what + ": raised %s: %s" % (type(e).__name__, str(e)[:200]), {"argument": snapshot.tolist(), "dtype": str(a.dtype)})
        return
    got = got if isinstance(got, tuple) else (got,)
    bad = None
    if isinstance(arg, np.ndarray) and not np.array_equal(arg, snapshot):
        R.violation(key + ":argument_modified", what + ": the caller's array was modified", {"argument": snapshot.tolist(), "dtype": str(a.dtype)},
                    np.asarray(arg).tolist(), snapshot.tolist())
    a = snapshot
    for g in got:
        g = np.asarray(g)
        if g.shape != a.shape:
            bad = "shape %s for an argument of shape %s" % (g.shape, a.shape)
            break
    if bad is None:
        for idx in np.ndindex(a.shape):
            try:
                ref = fn(float(a[idx]))
            except Exception as e:
                bad = "the scalar call at %r raised %s: %s" % (float(a[idx]), type(e).__name__, str(e)[:120])
                break
            ref = ref if isinstance(ref, tuple) else (ref,)
            for g, r in zip(got, ref):
                gv, rv = complex(np.asarray(g)[idx]), complex(np.asarray(r))
                if not (close(gv.real, rv.real, rtol, 1e-300) and close(gv.imag, rv.imag, rtol, 1e-300)):
                    bad = "entry %s is %r, the scalar call gives %r" % (idx, gv, rv)
                    break
            if bad:
                break
    if bad:
        R.violation(key, what + ": " + bad, {"argument": a.tolist(), "dtype": str(a.dtype)})


def task_C03(tier, seed, arg):
    import numpy as np
    from periodictable import nsf
    from periodictable.formulas import formula
    R = Result("neutron_scattering / neutron_sld with the wavelength (and energy) given in every numeric type and container: python int, numpy "
               "integer and float32/16 scalars, lists, tuples, integer arrays, 2-D, descending, Fortran-ordered, transposed and strided "
               "arrays: shaped like the argument, entry i equal to the scalar call, argument untouched; plain and energy-dependent compounds", False)
    for text, rho in (("H2O", 1.0), ("Gd2O3", 7.4), ("Sm2O3", 8.3)):
        f = formula(text, density=rho)
        for tname, val in _typed(None):
            R.ok(2, (text, tname))
            _entrywise(R, "C03:argument_type:wavelength:%s:%s" % (tname, text), "neutron_scattering(%s, wavelength=<%s>)" % (text, tname),
                       lambda w: tuple(nsf.neutron_scattering(f, wavelength=w)[0]) + tuple(nsf.neutron_scattering(f, wavelength=w)[1])
                       + (nsf.neutron_scattering(f, wavelength=w)[2],), val, 1e-5 if "float32" in tname else 1e-12)
            ev = nsf.neutron_energy(np.asarray(val, dtype=float)) if not isinstance(val, (int, float)) else nsf.neutron_energy(val)
            _entrywise(R, "C03:argument_type:energy:%s:%s" % (tname, text), "neutron_sld(%s, energy=<%s>)" % (text, tname),
                       lambda e: tuple(nsf.neutron_sld(f, energy=e)), ev)
    # different compounds that print alike (same display name; same text from another table): each call computes ITS compound
    import periodictable as pt
    from periodictable import core, mass as _mass
    fresh = lambda t, **kw: nsf.neutron_scattering(formula(t, **kw), density=2.0, wavelength=1.8)
    pairs = [("H2O", "D2O"), ("SiO2", "GeO2"), ("Ni", "Ni[62]"), ("Gd2O3", "Sm2O3"), ("NaCl", "KCl")]
    for a, b in pairs:
        R.ok(2, ("same-name", a, b))
        fa, fb = formula(a, name="sample"), formula(b, name="sample")
        ra1 = nsf.neutron_scattering(fa, density=2.0, wavelength=1.8)
        rb = nsf.neutron_scattering(fb, density=2.0, wavelength=1.8)
        ra2 = nsf.neutron_scattering(fa, density=2.0, wavelength=1.8)
        for tag, got, want in (("second compound", rb, fresh(b)), ("first compound again", ra2, fresh(a)), ("first compound", ra1, fresh(a))):
            if repr(got) != repr(want):
                R.violation("C03:same_display_name:%s" % tag.replace(" ", "_"), "two compounds with the same name= (%s, %s): the %s is not computed from its own atoms" % (a, b, tag),
                            {"first": a, "second": b, "name": "sample"}, repr(got)[:160], repr(want)[:160])
    name = "stateful_c03_%d" % random.Random(seed).randrange(10 ** 9)
    T = core.PeriodicTable(name)
    try:
        _mass.init(T)
        from periodictable import density as _density
        _density.init(T)
        nsf.init(T)
        T.H._mass = 1.0
        for text in ("H2O", "CH2"):
            R.ok(1, ("same-text-other-table", text))
            pub = nsf.neutron_sld(formula(text), density=1.0, wavelength=1.8)
            prv = nsf.neutron_sld(formula(text, table=T), density=1.0, wavelength=1.8)
            mp, mt = formula(text).mass, formula(text, table=T).mass
            if not close(prv[0] * mt, pub[0] * mp, 1e-9):     # same scattering lengths, other molar mass: SLD scales with 1/mass
                R.violation("C03:same_text_other_table", "the same text on a private table with another H mass: the SLD does not scale with the molar mass",
                            {"string": text}, prv[0], pub[0] * mp / mt)
    finally:
        core.PRIVATE_TABLES.pop(name, None)
    return R.done()


def task_C05(tier, seed, arg):
    import numpy as np
    import periodictable as pt
    from periodictable import xsf
    R = Result("xray_sld / index_of_refraction / scattering_factors / f0 with energies, wavelengths and Q in every numeric type and container "
               "(see C03): shaped like the argument, entry i equal to the scalar call, argument untouched", False)
    for tname, val in _typed(None):
        R.ok(4, (tname,))
        prec = 1e-5 if "float32" in tname else 1e-12
        _entrywise(R, "C05:argument_type:xray_sld:%s" % tname, "xray_sld('SiO2', density=2.2, energy=<%s>)" % tname,
                   lambda e: tuple(xsf.xray_sld("SiO2", density=2.2, energy=e)), val, prec)
        _entrywise(R, "C05:argument_type:scattering_factors:%s" % tname, "Fe.xray.scattering_factors(wavelength=<%s>)" % tname,
                   lambda w: tuple(pt.Fe.xray.scattering_factors(wavelength=w)), val, prec)
        if tname not in ("list[int]", "tuple"):     # plain sequences are not promised for the refraction index
            _entrywise(R, "C05:argument_type:index_of_refraction:%s" % tname, "index_of_refraction('Ni', density=8.9, wavelength=<%s>)" % tname,
                       lambda w: xsf.index_of_refraction("Ni", density=8.9, wavelength=w), val, prec)
        for atom in (pt.Ni, pt.Fe.ion[2], pt.O.ion[-2]):
            _entrywise(R, "C05:argument_type:f0:%s:%s" % (tname, nat.atom_name(atom)), "%s.xray.f0(<%s>)" % (nat.atom_name(atom), tname),
                       lambda q: atom.xray.f0(q), val, prec)
    # f1, f2 of an ion (and of an isotope ion) are those of the element's table over the whole tabulated range
    for el in pt.elements:
        tab = getattr(el.xray, "sftable", None) if hasattr(el, "xray") else None
        if tab is None or not getattr(el, "ions", None):
            continue
        E = np.asarray(tab[0], dtype=float)
        grid = np.array([E[0], E[0] * 1.37, E[1], 0.5 * (E[2] + E[3]), E[len(E) // 2], E[-2], E[-1], E[0] * 0.5, E[-1] * 1.01])
        ref = el.xray.scattering_factors(energy=grid)
        atoms_ = [el.ion[el.ions[0]], el.ion[el.ions[-1]]] + ([el[el.isotopes[0]].ion[el.ions[0]]] if el.isotopes else [])
        for a in atoms_:
            R.ok(1, ("ion-table", nat.atom_name(a)))
            got = a.xray.scattering_factors(energy=grid)
            if not all(np.array_equal(np.asarray(g), np.asarray(r), equal_nan=True) for g, r in zip(got, ref)):
                R.violation("C05:ion_scattering_factors", "f1/f2 of %s differ from the interpolation of the element's table (NaN only outside the tabulated range)" % nat.atom_name(a),
                            {"atom": nat.atom_name(a), "energies_keV": grid.tolist()}, [np.asarray(g).tolist() for g in got], [np.asarray(r).tolist() for r in ref])
                break
    # f0 of every tabulated atom / ion, then a request for an ion of the same element that has NO coefficients (whatever that
    # request does: KeyError, an estimate, ...), then the tabulated ones again: unchanged, still -> Z - charge
    Q = np.array([1e-6, 0.5, 2.0, 10.0])
    for el in (pt.O, pt.Fe, pt.Cl, pt.Na, pt.Cu, pt.Si, pt.Ti, pt.U):
        tab = [a for a in [el] + [el.ion[q] for q in el.ions] if _has_f0(a)]
        untab = [q for q in range(-3, 8) if q != 0 and q not in el.ions] + [q for q in el.ions if not _has_f0(el.ion[q])]
        before = [np.array(a.xray.f0(Q), dtype=float) for a in tab]
        for q in untab:
            try:
                ion = el.ion[q] if q in el.ions else None
                if ion is None:       # a charge the table does not list: ask the coefficient table directly
                    from periodictable import cromermann
                    cromermann.fxrayatq(el.symbol, Q, charge=q)
                else:
                    ion.xray.f0(Q)
            except Exception:
                pass
        for a, b0 in zip(tab, before):
            R.ok(1, ("f0-after-untabulated", nat.atom_name(a)))
            b1 = np.array(a.xray.f0(Q), dtype=float)
            if not np.allclose(b1, b0, rtol=1e-12, atol=0) or abs(b1[0] - (a.number - getattr(a, "charge", 0))) > 0.06:
                R.violation("C05:f0_changed_by_request_for_untabulated_ion", "f0 of %s changed (or no longer tends to Z - charge) after f0 was requested for charge states of %s "
                            "without coefficients" % (nat.atom_name(a), el.symbol), {"atom": nat.atom_name(a), "requested_charges": untab[:12]}, b1.tolist(), b0.tolist())
    return R.done()


def _has_f0(atom):
    try:
        atom.xray.f0(0.5)
        return True
    except Exception:
        return False


# ------------------------------------------------------------------------------------------------ C19
def task_C19(tier, seed, arg):
    import periodictable as pt
    from periodictable import core, mass, density
    from periodictable.formulas import formula, mix_by_weight
    R = Result("Hill form of formulas whose atoms come from two tables (a private and the public one), of isotope ions of one element "
               "in one charge state written in both orders, and of the same atom reached by different routes: same atom counts, "
               "canonical order, idempotent", False)
    name = "stateful_c19_%d" % random.Random(seed).randrange(10 ** 9)
    T = core.PeriodicTable(name)
    try:
        mass.init(T)
        density.init(T)
        mixed = [formula("H2O", table=T) + formula("H2O2"), formula({T.O: 1, pt.O: 2, pt.H: 2}),
                 mix_by_weight(formula("H2O@1", table=T), 1, "D2O@1.11", 1), formula([(1, T.Fe), (2, pt.Fe), (3, T.Fe[56]), (1, pt.Fe[56])])]
        for k, f in enumerate(mixed):
            R.ok(2, ("mixed", k))
            h = f.hill
            if not nat.maps_close(h.atoms, f.atoms) or len(h.atoms) != len(f.atoms):
                R.violation("C19:mixed_tables:atoms:%d" % k, "the Hill form of a formula holding the same element from two tables loses or merges atoms",
                            {"case": k}, {"%s@%s" % (nat.atom_name(a), getattr(a, "table", "?")): n for a, n in h.atoms.items()},
                            {"%s@%s" % (nat.atom_name(a), getattr(a, "table", "?")): n for a, n in f.atoms.items()})
            if h.hill.structure != h.structure and nat.maps_close(h.hill.atoms, h.atoms) is False:
                R.violation("C19:mixed_tables:idempotent:%d" % k, "hill of hill differs", {"case": k})
    finally:
        core.PRIVATE_TABLES.pop(name, None)
    _tiny_counts(R, "C19", hill=True)
    for el, isos, q in (("Ni", (58, 60), 2), ("O", (16, 18), -2), ("Li", (6, 7), 1), ("Fe", (54, 56), 3)):
        E = getattr(pt, el)
        a, b, c = E[isos[0]].ion[q], E[isos[1]].ion[q], E.ion[q]
        import itertools
        forms = [formula([(1, x) for x in perm]).hill for perm in itertools.permutations((a, b, c))]
        R.ok(len(forms), (el,))
        if any(f.structure != forms[0].structure for f in forms):
            R.violation("C19:isotope_ions_order:%s" % el, "isotope ions of one element in one charge state: the Hill form depends on the order written",
                        {"atoms": [nat.atom_name(x) for x in (a, b, c)]}, sorted(set(str(f) for f in forms)))
        want = [nat.atom_name(x) for x in (c, a, b)]
        got = [nat.atom_name(x) for n, x in forms[0].structure]
        if got != want:
            R.violation("C19:isotope_ions_order:%s:mass_number" % el, "isotopes of one element (same charge) are not in order of mass number "
                        "after the natural element", {"atoms": want}, got, want)
    return R.done()


def task_C13(tier, seed, arg):
    import periodictable as pt
    from periodictable.formulas import formula, mix_by_weight
    R = Result("print -> parse after OTHER formulas with the same text were parsed and edited in place by their owners (+=, name, density); "
               "counts just below one and trace counts", False)
    texts = ["NaCl", "D{+}3O", "H2O", "CaCO3(H2O)6", "Fe[56]{2+}O{2-}"]
    _parse_isolation(R, texts, "C13")
    def roundtrip(f, label):
        text = str(f)
        R.ok(1, ("roundtrip", label))
        try:
            back = formula(text)
        except Exception as e:
            R.violation("C13:history:unparseable", "%s: %r does not parse back: %s" % (label, text, e), {"case": label}, str(e)[:120])
            return
        if not nat.maps_close(_atoms_names(back.atoms), {k: float("%.6g" % v) for k, v in _atoms_names(f.atoms).items()}, 1e-12) \
                or repr(back) != "formula('%s')" % text:
            R.violation("C13:history:changed", "%s: %r parses back to other atoms (or another repr) after an earlier parse of the same text was edited by its owner" % (label, text),
                        {"case": label}, [_atoms_names(back.atoms), repr(back)], [_atoms_names(f.atoms), "formula('%s')" % text])
    brine = formula("NaCl")
    brine += formula("H2O")
    roundtrip(formula(pt.Na) + formula(pt.Cl), "Na + Cl after an edited parse of 'NaCl'")
    acid = formula("D{+}3O")
    acid.name = "hydronium"
    acid.density = 1.3
    roundtrip(3 * formula(pt.D.ion[1]) + formula(pt.O), "3 D{+} + O after an edited parse of 'D{+}3O'")
    w = formula("H2O")
    w += formula("NaCl")
    roundtrip(mix_by_weight("H2O", 100, "NaCl", 0), "mix_by_weight(H2O, 100, NaCl, 0) after an edited parse of 'H2O'")
    # counts that print with six digits print as they are: just below one, trace amounts
    for q in (0.999997, 0.9999951, 0.99999, 1.00001, 4e-10, 2.5e-15):
        for mk, label in ((lambda: formula([(q, pt.H), (1, pt.O)]), "H%gO"), (lambda: formula([(q, [(1, pt.Na), (1, pt.Cl)]), (3, pt.O)]), "(NaCl)%gO3"),
                          (lambda: q * formula(pt.Fe.ion[2]), "%g*Fe{2+}")):
            f = mk()
            R.ok(1, ("near-one", q, label))
            try:
                back = formula(str(f))
            except Exception as e:
                R.violation("C13:count_near_one:unparseable", "%r does not parse back" % str(f), {"count": q}, str(e)[:100])
                continue
            want = {k: float("%.6g" % v) for k, v in _atoms_names(f.atoms).items()}
            if not nat.maps_close(_atoms_names(back.atoms), want, 1e-12):
                R.violation("C13:count_near_one", "a count of %r is not printed to six digits: %r parses back with other counts" % (q, str(f)), {"count": q, "case": label % q},
                            _atoms_names(back.atoms), want)
    return R.done()


def task_C18(tier, seed, arg):
    import periodictable as pt
    from periodictable import core, mass, density, fasta
    from periodictable.formulas import formula
    R = Result("sequences built AFTER single residues / nucleotides were requested through the 'aa:' / 'dna:' / 'rna:' prefixes on a private "
               "table, after the returned formulas were edited by the caller, and after the same sequence was built before: formula and masses "
               "are still the sums over the residue codes", False)
    def reference(letters, typ):
        tab = fasta.CODE_TABLES[typ]
        atoms, m, dm = {}, 0.0, 0.0
        for c in letters:
            for a, n in tab[c].labile_formula.atoms.items():
                atoms[a] = atoms.get(a, 0) + n
        return atoms
    cases = [("aa", "GAG"), ("aa", "GGSGG"), ("dna", "GATTACA"), ("rna", "GAUUACA"), ("aa", "KVFGRCELAAAMKRHGLDNYRGYSLGNWVCAAKFESNFNTQATNRNTDGSTDYGILQINSRWWCNDGRTPGSRNLCNIPCSALLSSDITASVNCAKKIVSDGNGMNAWVAWRNRCKGTDVQAWIRGCRL")]
    snap = {}
    for typ, letters in cases:
        s0 = fasta.Sequence("s", letters, type=typ)
        snap[(typ, letters)] = (_atoms_names(s0.labile_formula.atoms), s0.mass, s0.Dmass, s0.sld, s0.Dsld)
    name = "stateful_c18_%d" % random.Random(seed).randrange(10 ** 9)
    T = core.PeriodicTable(name)
    try:
        mass.init(T)
        density.init(T)
        T.H._mass = 1.0
        for typ, codes in (("aa", "GASK"), ("dna", "GATC"), ("rna", "GAUC")):
            for c in codes:
                f = formula("%s:%s" % (typ, c), table=T)            # a single code on the private table
                R.ok(1, ("prefix-private", typ, c))
                if any(core.change_table(a, T) is not a for a in f.atoms):
                    R.violation("C18:prefix_private_table:%s" % typ, "formula('%s:%s', table=T) holds atoms that are not atoms of T" % (typ, c), {"code": c, "type": typ})
                g = formula("%s:%s" % (typ, c))                      # and on the public table; the caller then edits ITS result
                g += formula("XeF6")
                g.density = 9.0
    finally:
        core.PRIVATE_TABLES.pop(name, None)
    for typ, letters in cases:
        s1 = fasta.Sequence("s", letters, type=typ)
        R.ok(2, ("sequence-after", typ, len(letters)))
        got = (_atoms_names(s1.labile_formula.atoms), s1.mass, s1.Dmass, s1.sld, s1.Dsld)
        want = snap[(typ, letters)]
        ok = nat.maps_close(got[0], want[0], 1e-12) and all(close(x, y, 1e-12) for x, y in zip(got[1:], want[1:]))
        if not ok or any(a.table is not pt.elements.H.table for a in s1.labile_formula.atoms if hasattr(a, "table")):
            R.violation("C18:sequence_after_prefix_on_private_table:%s" % typ, "Sequence(%r) built after single codes were requested with table=T (and after callers edited "
                        "the formulas they were given) differs from the same sequence built before" % (letters[:12],), {"type": typ, "sequence": letters[:40]},
                        [got[0], got[1], got[2]], [want[0], want[1], want[2]])
        want_atoms = _atoms_names(reference(letters, typ))
        pre = formula("%s:%s" % (typ, letters))
        if not nat.maps_close(_atoms_names(pre.atoms), got[0], 1e-12):
            R.violation("C18:prefix_differs_from_class:%s" % typ, "formula('%s:...') differs from the Sequence class afterwards" % typ, {"type": typ, "sequence": letters[:40]},
                        _atoms_names(pre.atoms), got[0])
    return R.done()


# ------------------------------------------------------------------------------------------------ C20
def task_C20(tier, seed, arg):
    import numpy as np
    import periodictable as pt
    R = Result("magnetic and x-ray form factors on caller-owned Q arrays of every type/layout (see C03): shaped like Q, entry i equal to the "
               "scalar call, Q untouched; the same Q array used for j0, j2, j4, j6, J in turn gives what fresh arrays give", False)
    ions = [(pt.Fe.ion[2], 2), (pt.Mn.ion[2], 2), (pt.Ni.ion[2], 2), (pt.Ce.ion[2], 2)]
    for ion, q in ions:
        ff = ion.magnetic_ff[q]
        for tname, val in _typed(None):
            for m in ("j0_Q", "j2_Q", "j4_Q", "j6_Q", "J_Q", "M_Q"):
                try:
                    getattr(ff, m)(0.5)
                except AttributeError:
                    continue
                R.ok(1, (nat.atom_name(ion), tname, m))
                try:
                    _entrywise(R, "C20:argument_type:%s:%s" % (m, tname), "%s.magnetic_ff[%d].%s(<%s>)" % (nat.atom_name(ion), q, m, tname),
                               lambda Q: getattr(ff, m)(Q), val, 1e-5 if "float32" in tname else 1e-12)
                except Exception as e:
                    R.violation("C20:argument_type:%s:%s:exception" % (m, tname), "raised %s: %s" % (type(e).__name__, e), {"type": tname})
        Q = np.linspace(0.0, 9.0, 7)
        keep = Q.copy()
        seq = []
        for m in ("j2_Q", "j0_Q", "j4_Q", "j6_Q", "J_Q", "j0_Q"):
            try:
                getattr(ff, m)(0.5)
                seq.append(m)
            except AttributeError:
                pass
        for m in seq:
            R.ok(1, (nat.atom_name(ion), "shared-Q", m))
            got = np.array(getattr(ff, m)(Q), dtype=float)
            exp = np.array(getattr(ff, m)(keep.copy()), dtype=float)
            if not np.array_equal(Q, keep):
                R.violation("C20:shared_Q:modified:%s" % m, "%s modified the caller's Q array" % m, {"ion": nat.atom_name(ion)}, Q.tolist(), keep.tolist())
                Q = keep.copy()
            if not np.allclose(got, exp, rtol=1e-12, atol=0, equal_nan=True):
                R.violation("C20:shared_Q:value:%s" % m, "%s on a Q array used before differs from a fresh array" % m, {"ion": nat.atom_name(ion)},
                            got.tolist(), exp.tolist())
    for atom in (pt.Ni, pt.Fe.ion[3], pt.Cl.ion[-1], pt.D):
        for tname, val in _typed(None):
            R.ok(1, (nat.atom_name(atom), tname, "f0"))
            _entrywise(R, "C20:argument_type:f0:%s" % tname, "%s.xray.f0(<%s>)" % (nat.atom_name(atom), tname), lambda q: atom.xray.f0(q), val,
                       1e-5 if "float32" in tname else 1e-12)
    return R.done()


def task_C06(tier, seed, arg):
    """a private table serves the embedded masses / abundances / densities whatever else was initialised on it first"""
    import importlib
    import periodictable as pt
    from periodictable import core
    R = Result("fresh private tables on which ONE other data module was initialised before mass and density (every module whose init "
               "does not need them: covalent_radius, crystal_structure, magnetic_ff, xsf, xsf spectral lines): all element masses and "
               "densities, all isotope masses and abundances equal the public table's", False)
    first = [("covalent_radius", "init"), ("crystal_structure", "init"), ("magnetic_ff", "init"), ("xsf", "init"), ("xsf", "init_spectral_lines"), (None, None)]
    for k, (modname, fn) in enumerate(first):
        name = "stateful_c06_%d_%d" % (random.Random(seed).randrange(10 ** 9), k)
        T = core.PeriodicTable(name)
        label = "%s.%s first" % (modname, fn) if modname else "standard order"
        try:
            try:
                if modname:
                    getattr(importlib.import_module("periodictable." + modname), fn)(T)
                importlib.import_module("periodictable.mass").init(T)
                importlib.import_module("periodictable.density").init(T)
            except Exception as e:
                R.violation("C06:init_order:%s:exception" % label, "initialising a private table (%s) raised %s: %s" % (label, type(e).__name__, e), {"order": label})
                continue
            nbad = 0
            for el in pt.elements:
                tel = T[el.number]
                R.ok(1, (label, "element"))
                try:
                    same = close(tel.mass, el.mass, 0.0) and (tel.density == el.density or close(tel.density, el.density, 0.0)) \
                        and sorted(tel.isotopes) == sorted(el.isotopes)
                    if same:
                        for A in el.isotopes:
                            if not (close(tel[A].mass, el[A].mass, 0.0) and close(tel[A].abundance, el[A].abundance, 0.0)):
                                same = False
                                break
                except Exception as e:
                    same = False
                if not same:
                    nbad += 1
                    if nbad <= 2:
                        R.violation("C06:init_order:%s:%s" % (label, el.symbol), "private table (%s): mass / density / isotopes of %s are not the embedded "
                                    "values served by the public table" % (label, el.symbol), {"order": label, "element": el.symbol})
        finally:
            core.PRIVATE_TABLES.pop(name, None)
    return R.done()


def task_identity(tier, seed, arg):
    """atoms are compared, hashed and used as dictionary keys by identity: any two different atoms (other element, isotope,
    charge or table) are unequal and stay two keys; an atom equals itself; formulas keep them apart"""
    import itertools
    import periodictable as pt
    from periodictable import core, mass
    from periodictable.formulas import formula
    R = Result("all pairs of a pool of atoms (elements, isotopes, D/T, ions, isotope ions; public and a private table): ==, !=, hash "
               "consistency, two dictionary keys, formula(dict) keeps both; bounded pool", False)
    name = "stateful_identity_%d" % random.Random(seed).randrange(10 ** 9)
    T = core.PeriodicTable(name)
    try:
        mass.init(T)
        pool = nat.atom_pool() + [T.Fe, T.Fe[56], T.Fe.ion[2], T.Fe[56].ion[2], T.H, T.D, T.O.ion[-2]]
        for el, isos, q in (("Li", (6, 7), 1), ("Ni", (58, 60), 2), ("O", (16, 18), -2)):
            E = getattr(pt, el)
            pool += [E[isos[0]].ion[q], E[isos[1]].ion[q], E.ion[q], E[isos[0]], E[isos[1]]]
        seen = []
        for a in pool:
            if not any(a is b for b in seen):
                seen.append(a)
        for a, b in itertools.combinations(seen, 2):
            R.ok(1, (type(a).__name__, type(b).__name__))
            d = {a: 1, b: 2}
            bad = []
            if a == b or not (a != b):
                bad.append("compare equal")
            if len(d) != 2:
                bad.append("collapse to one dictionary key")
            try:
                if len(formula({a: 1, b: 2}).atoms) != 2:
                    bad.append("are merged by formula({a: 1, b: 2})")
            except Exception:
                pass
            if bad:
                R.violation("identity:%s:%s" % (nat.atom_name(a), nat.atom_name(b)), "two different atoms %s and %s (tables %s / %s) %s"
                            % (nat.atom_name(a), nat.atom_name(b), getattr(a, "table", "?"), getattr(b, "table", "?"), ", ".join(bad)),
                            {"a": nat.atom_name(a), "b": nat.atom_name(b)})
        for a in seen:
            R.ok(1)
            if not (a == a) or a != a or hash(a) != hash(a):
                R.violation("identity:self:%s" % nat.atom_name(a), "an atom does not equal itself", {"a": nat.atom_name(a)})
    finally:
        core.PRIVATE_TABLES.pop(name, None)
    return R.done()


def task_replay(tier, seed, arg):
    prop = (arg or {}).get("key", "C02:").split(":")[0]
    fn = globals().get("task_" + prop)
    return fn(tier, seed, None) if fn else {"evaluations": 0, "violations": [], "notes": ["no stateful task for " + prop]}
