"""C12 native side: density / natural density, isotope substitution and cell volume of formulas.

Oracles (written here, nothing is expected by calling Formula.natural_mass_ratio, Formula.mass,
_isotope_substitution, Formula.volume or util.cell_volume):

* masses: actual = sum n*(mass of the element or isotope - charge*electron_mass),
  natural = sum n*(mass of the natural element of that atom - charge*electron_mass), from the `.mass`
  of the table's Element/Isotope objects and constants.electron_mass; atom counts come from the
  recursive reading `nat.count_atoms` of the structure that the formula was built from;
* replace: the documented update of the count map and density' = density*mass'/mass;
* volume: (4 pi/3) sum n r_cov^3 / pf * 1e-24 with the packing factors of the documentation table
  (cubic pi/6, bcc pi sqrt(3)/8, hcp = fcc = pi/sqrt(18), diamond pi sqrt(3)/16), or
  a b c sqrt(1 - cos^2 alpha - cos^2 beta - cos^2 gamma + 2 cos alpha cos beta cos gamma)*1e-24 with
  b, c defaulting to a and every angle defaulting to 90 degrees.

Every check is a function over a JSON-able input; tasks only enumerate inputs and `task_replay` re-runs
one input through the same function.  Violations are grouped by cause ("family" = key prefix), at most
three listed per family, the totals per family are in `notes`.
"""
import hashlib
import math
import random

from . import nat
from .nat import close, Result, atom_name, atom_from_name

REL = 1e-12
PER_FAMILY = 3
COUNTS = [1, 2, 3, 0.5, 1.25, 10, 7, 4, 2.5]

DOC_PACKING = {"cubic": math.pi / 6, "bcc": math.pi * math.sqrt(3) / 8, "hcp": math.pi / math.sqrt(18),
               "fcc": math.pi / math.sqrt(18), "diamond": math.pi * math.sqrt(3) / 16}


# ----------------------------------------------------------------------------------------------
# bookkeeping
# ----------------------------------------------------------------------------------------------
class Families:
    """at most PER_FAMILY listed violations per cause; totals go to the notes"""

    def __init__(self, R):
        self.R = R
        self.count = {}

    def add(self, family, input_id, what, input=None, observed=None, expected=None):
        if len(input_id) > 72:      # keep keys short but specific to the input
            input_id = input_id[:48] + "~" + hashlib.sha1(input_id.encode()).hexdigest()[:10]
        n = self.count.get(family, 0) + 1
        self.count[family] = n
        if n <= PER_FAMILY:
            self.R.violation("%s:%s" % (family, input_id), what, input, observed, expected)
        else:
            self.R.nviol += 1

    def finish(self):
        for fam in sorted(self.count):
            self.R.notes.append("family %s: %d failing inputs (at most %d listed)" % (fam, self.count[fam], PER_FAMILY))


def _exc(e):
    return "%s: %s" % (type(e).__name__, e)


def _num(c):
    return repr(c)


def fid(struct):
    """readable, stable identifier of a structure"""
    out = ""
    for c, frag in struct:
        if isinstance(frag, (tuple, list)):
            out += "(%s)%s" % (fid(frag), _num(c))
        else:
            out += atom_name(frag) + ("" if (c == 1 and isinstance(c, int)) else _num(c))
    return out


# ----------------------------------------------------------------------------------------------
# oracles
# ----------------------------------------------------------------------------------------------
def split_atom(a):
    """(natural element, element-or-isotope, charge) of a table atom"""
    import periodictable.core as core
    q = a.charge if core.ision(a) else 0
    base = a.element if core.ision(a) else a
    el = base.element if isinstance(base, core.Isotope) else base
    return el, base, q


def atom_masses(a):
    """(mass with the natural element, actual mass), ion charges kept in both"""
    import periodictable.constants as K
    el, base, q = split_atom(a)
    return el.mass - q * K.electron_mass, base.mass - q * K.electron_mass


def masses(atoms):
    nat_m = act_m = 0.0
    for a, n in atoms.items():
        mn, ma = atom_masses(a)
        nat_m += n * mn
        act_m += n * ma
    return nat_m, act_m


def features(atoms):
    import periodictable.core as core
    has_iso_ion = any(core.ision(a) and isinstance(a.element, core.Isotope) for a in atoms)
    has_ion = any(core.ision(a) for a in atoms)
    has_iso = any(isinstance(split_atom(a)[1], core.Isotope) for a in atoms)
    return has_iso_ion, has_ion, has_iso


def ratio_family(atoms):
    has_iso_ion, has_ion, _ = features(atoms)
    if has_iso_ion:
        return "density:isotope_ion_ratio"
    if has_ion:
        return "density:ion_ratio"
    return "density:ratio"


RATIO_WHY = {
    "density:isotope_ion_ratio": "formula with an isotope ion: natural_density/density is not (mass with every isotope replaced by its "
                                 "natural element, charges kept)/(actual mass) - the isotope ion is compared with itself instead of "
                                 "with the ion of its natural element",
    "density:ion_ratio": "formula with ions: natural_density/density is not (natural mass with charges kept)/(actual mass) - the "
                         "electron-mass correction of the ions is missing from the natural mass",
    "density:ratio": "natural_density/density is not (mass with natural elements)/(actual mass)",
}


def names(atoms):
    return {atom_name(a): n for a, n in atoms.items()}


def atoms_from_names(d):
    return {atom_from_name(k): v for k, v in d.items()}


# ----------------------------------------------------------------------------------------------
# density
# ----------------------------------------------------------------------------------------------
def check_density(R, F, inp):
    """inp = {"struct": repr | None, "string": str | None, "atoms": {name: n} (with string only), "d": float,
              "dstr": decimal text of d}
    All routes by which a density can be given; each compares with the mass-ratio oracle."""
    from periodictable.formulas import formula
    d = inp["d"]
    dstr = inp.get("dstr")
    string = inp.get("string")
    if inp.get("struct") is not None:
        struct = nat.struct_from_repr(inp["struct"])
        atoms = nat.count_atoms(struct)
        ident = fid(struct)
        make = lambda **kw: formula(struct, **kw)
    else:
        struct = None
        atoms = atoms_from_names(inp["atoms"])
        ident = string
        make = lambda **kw: formula(string, **kw)
    ident = "%s@%s" % (ident, dstr if dstr is not None else repr(d))
    nat_m, act_m = masses(atoms)
    ratio = nat_m / act_m
    bad = {}
    exact = {}
    other = []     # (family, what, observed, expected)

    def rec(route, got, want):
        R.ok(1)
        if not close(got, want, REL):
            bad[route] = [got, want]

    def rec_exact(route, got, want):
        R.ok(1)
        if got != want:
            exact[route] = [got, want]

    try:
        f0 = make()
        if not nat.maps_close(f0.atoms, atoms, 1e-12):
            F.add("density:atoms", ident, "the formula built from the input does not have the atom counts of the input "
                  "(precondition of the density checks)", inp, names(f0.atoms), names(atoms))
            return
        # keyword
        g = make(density=d)
        rec_exact("keyword density: density", g.density, d)
        rec("keyword density: natural_density", g.natural_density, d * ratio)
        g = make(natural_density=d)
        rec("keyword natural_density: natural_density", g.natural_density, d)
        rec("keyword natural_density: density", g.density, d / ratio)
        # keyword on a Formula object and on a dict
        g = formula(make(), natural_density=d)
        rec("formula(Formula, natural_density=): density", g.density, d / ratio)
        g = formula(dict(atoms), density=d)
        rec("formula(dict, density=): natural_density", g.natural_density, d * ratio)
        # attribute
        g = make()
        g.density = d
        rec_exact("attribute density: density", g.density, d)
        rec("attribute density: natural_density", g.natural_density, d * ratio)
        g = make()
        g.natural_density = d
        rec("attribute natural_density: density", g.density, d / ratio)
        rec("attribute natural_density: natural_density", g.natural_density, d)
        # set one, read the other, set it back
        g = make()
        g.density = d
        nd = g.natural_density
        g.natural_density = nd
        R.ok(1)
        if not close(g.density, d, REL):
            other.append(("density:inverse", "density -> natural_density -> density does not return the density", g.density, d))
        g = make()
        g.natural_density = d
        x = g.density
        g.density = x
        R.ok(1)
        if not close(g.natural_density, d, REL):
            other.append(("density:inverse", "natural_density -> density -> natural_density does not return the value",
                          g.natural_density, d))
        # string tags
        if string is not None and dstr is not None:
            for tag, kind in (("", "i"), ("i", "i"), ("n", "n")):
                s = "%s@%s%s" % (string, dstr, tag)
                try:
                    g = formula(s)
                except Exception as e:
                    R.ok(1)
                    other.append(("density:tag_raises", "the string %r with a density tag is not accepted: %s" % (s, _exc(e)),
                                  _exc(e), "a formula of density %r" % d))
                    continue
                if not nat.maps_close(g.atoms, atoms, 1e-12):
                    R.ok(1)
                    other.append(("density:tag_atoms", "the tag '@%s%s' changed the atom counts" % (dstr, tag), names(g.atoms), names(atoms)))
                    continue
                if kind == "i":
                    rec_exact("tag @d%s: density" % tag, g.density, d)
                    rec("tag @d%s: natural_density" % tag, g.natural_density, d * ratio)
                else:
                    rec("tag @dn: natural_density", g.natural_density, d)
                    rec("tag @dn: density", g.density, d / ratio)
    except Exception as e:
        F.add("density:exception:%s" % type(e).__name__, ident, "giving or reading a density raised %s" % _exc(e), inp, _exc(e), "no exception")
        return
    if bad:
        fam = ratio_family(atoms)
        try:
            code_ratio = make().natural_mass_ratio()
        except Exception as e:
            code_ratio = _exc(e)
        F.add(fam, ident, RATIO_WHY[fam] + "; failing routes: " + ", ".join(sorted(bad)), inp,
              {"natural_density/density (code)": code_ratio, "routes [got, want]": bad},
              {"natural mass/actual mass": ratio, "natural mass": nat_m, "actual mass": act_m})
    if exact:
        F.add("density:given_density_changed", ident, "the density given is not the density read back: " + ", ".join(sorted(exact)),
              inp, exact, d)
    for fam, what, obs, exp in other:
        F.add(fam, ident, what, inp, obs, exp)


HAND = [   # strings written by hand with their composition
    ("D2O", {"D": 2, "O": 1}),
    ("H[2]{+}2O", {"H[2]{1+}": 2, "O": 1}),
    ("D{+}2O{2-}", {"H[2]{1+}": 2, "O{2-}": 1}),
    ("H[1]{-}Na{+}", {"H[1]{1-}": 1, "Na{1+}": 1}),
    ("T2O", {"T": 2, "O": 1}),
    ("NaCl", {"Na": 1, "Cl": 1}),
    ("Na{+}Cl{-}", {"Na{1+}": 1, "Cl{1-}": 1}),
    ("Fe{2+}Fe{3+}2O4", {"Fe{2+}": 1, "Fe{3+}": 2, "O": 4}),
    ("Fe[56]{2+}2O3", {"Fe[56]{2+}": 2, "O": 3}),
    ("Fe[54]{3+}Cl[35]3", {"Fe[54]{3+}": 1, "Cl[35]": 3}),
    ("C[13]H4", {"C[13]": 1, "H": 4}),
    ("CaCO[18]3", {"Ca": 1, "C": 1, "O[18]": 3}),
    ("Ca{2+}C{4+}O{2-}3", {"Ca{2+}": 1, "C{4+}": 1, "O{2-}": 3}),
    ("U[235]O2", {"U[235]": 1, "O": 2}),
    ("Ni[58]{2+}(OH[1])2", {"Ni[58]{2+}": 1, "O": 2, "H[1]": 2}),
    ("Co(H2O)6", {"Co": 1, "H": 12, "O": 6}),
    ("Gd[157]{3+}2 (SO4)3", {"Gd[157]{3+}": 2, "S": 3, "O": 12}),
    ("Au{3+}Cl{-}3", {"Au{3+}": 1, "Cl{1-}": 3}),
]
# atom names above use nat.atom_name's spelling ("{1+}"), the strings use the parser's ("{+}")


def _norm_hand(atoms):
    return {atom_name(atom_from_name(k)): v for k, v in atoms.items()}


def _rand_density(rng):
    dstr = "%.4f" % rng.choice([rng.uniform(0.01, 25.0), rng.uniform(0.5, 3.0), 1.0, 1.1, 19.3])
    if float(dstr) <= 0:
        dstr = "0.0100"
    return float(dstr), dstr


def check_single_atom(R, F, inp):
    """inp = {"atom": name}: formula(atom) (no density given) has the atom's density: the element's density
    for an element, element density*isotope mass/element mass for an isotope, the density of the underlying
    element/isotope for an ion (ions take every property but charge and mass from it); None, not an
    exception, where the element's density is unknown."""
    import periodictable.core as core
    from periodictable.formulas import formula
    a = atom_from_name(inp["atom"])
    el, base, q = split_atom(a)
    rho = el.density
    if rho is None:
        want = None
    elif isinstance(base, core.Isotope):
        want = rho * (base.mass / el.mass)
    else:
        want = rho
    for route, build in (("formula(atom)", lambda: formula(a)), ("formula(((1, atom),))", lambda: formula(((1, a),))),
                         ("formula({atom: 1})", lambda: formula({a: 1}))):
        R.ok(1, ("single", inp["atom"]))
        try:
            got = build().density
        except Exception as e:
            F.add("density:single_atom:raises", inp["atom"], "%s raises instead of leaving the density %s"
                  % (route, "unknown (the element has no density)" if want is None else "at the atom's density"),
                  inp, _exc(e), want)
            return
        if not close(got, want, REL):
            F.add("density:single_atom:value", inp["atom"], "%s does not default to the atom's density" % route, inp, got, want)
            return
    # the parsed route, where the atom can be written
    s = _atom_string(a)
    if s is not None:
        R.ok(1)
        try:
            got = formula(s).density
        except Exception as e:
            F.add("density:single_atom:raises", inp["atom"] + ":parsed", "formula(%r) raises" % s, inp, _exc(e), want)
            return
        if not close(got, want, REL):
            F.add("density:single_atom:value", inp["atom"] + ":parsed", "formula(%r) does not default to the atom's density" % s,
                  inp, got, want)


def _atom_string(a):
    """the grammar's spelling of an atom: Sym, Sym[iso], Sym{q+}, Sym[iso]{q+}; None for the neutron"""
    el, base, q = split_atom(a)
    if not (el.symbol[0].isupper()):
        return None
    s = el.symbol
    if base is not el:
        s += "[%d]" % base.isotope
    if q:
        s += "{%s%s}" % ("" if abs(q) == 1 else str(abs(q)), "+" if q > 0 else "-")
    return s


def check_mixture_tag(R, F, inp):
    """inp = {"string": mixture string with a density tag, "tag": "i"|"n", "d": float}; the composition is taken
    from the mixture as built (its correctness is C11's business), the ratio from the oracle masses"""
    from periodictable.formulas import formula
    s, d = inp["string"], inp["d"]
    try:
        g = formula(s)
        atoms = dict(g.atoms)
        nat_m, act_m = masses(atoms)
        ratio = nat_m / act_m
        bad = {}
        R.ok(2, ("mixture", s.split("@")[0]))
        if inp["tag"] == "n":
            if not close(g.natural_density, d, REL):
                bad["natural_density"] = [g.natural_density, d]
            if not close(g.density, d / ratio, REL):
                bad["density"] = [g.density, d / ratio]
        else:
            if g.density != d:
                bad["density"] = [g.density, d]
            if not close(g.natural_density, d * ratio, REL):
                bad["natural_density"] = [g.natural_density, d * ratio]
    except Exception as e:
        F.add("density:exception:%s" % type(e).__name__, s, "a mixture with a density tag raised %s" % _exc(e), inp, _exc(e), "no exception")
        return
    if bad:
        fam = ratio_family(atoms)
        F.add(fam, s, RATIO_WHY[fam] + " (density tag on a mixture)", inp, bad, {"natural mass/actual mass": ratio})


def task_density(tier, seed, arg):
    import periodictable
    from periodictable.formulas import formula
    n = 500 if tier == "quick" else 20000
    rng = random.Random(seed)
    R = Result("seeded random nested structures (depth<=2, <=4 entries per level, counts from %r) over nat.atom_pool "
               "(elements, isotopes, D, T, ions, isotope ions); per formula one density d in (0, 25] and every route: keyword "
               "density/natural_density on structure, Formula, dict and string, attribute assignment, both set-then-read "
               "inverses, and the '@d', '@di', '@dn' tags on str(f) when str(f) parses back to the same atoms (else the tags are "
               "exercised on the hand-written strings only); plus %d hand-written strings, tagged mixtures, and single-atom "
               "defaults for every element, one isotope per element, one ion and one isotope ion per element with ions "
               "(thorough: every isotope); tolerance 1e-12 on natural_density vs density*natural/actual, exact equality for "
               "a density read back; bounded: %d random formulas; distinct = formulas whose oracle ratio differs from 1 or "
               "that contain ions, plus single atoms" % (COUNTS, len(HAND), n))
    F = Families(R)
    pool = nat.atom_pool()
    unparsed = 0
    for s, atoms in HAND:
        d, dstr = _rand_density(rng)
        inp = {"struct": None, "string": s, "atoms": _norm_hand(atoms), "d": d, "dstr": dstr}
        check_density(R, F, inp)
        R.distinct.add(s)
    R.sample({"input": {"string": HAND[1][0], "atoms": HAND[1][1]},
              "oracle natural/actual": (lambda m: m[0] / m[1])(masses(atoms_from_names(HAND[1][1])))})
    for i in range(n):
        struct = nat.random_structure(rng, pool, depth=rng.randint(0, 2), maxlen=4, counts=COUNTS)
        atoms = nat.count_atoms(struct)
        d, dstr = _rand_density(rng)
        s = None
        try:
            s0 = str(formula(struct))
            if nat.maps_close(formula(s0).atoms, atoms, 1e-12):
                s = s0
        except Exception:
            s = None
        if s is None:
            unparsed += 1
        inp = {"struct": nat.struct_repr(struct), "string": s, "d": d, "dstr": dstr}
        before = R.evaluations
        check_density(R, F, inp)
        nat_m, act_m = masses(atoms)
        if nat_m != act_m or features(atoms)[1]:
            R.distinct.add(fid(struct))
        if i < 3:
            R.sample({"input": inp, "oracle natural/actual": nat_m / act_m, "checks": R.evaluations - before})
    R.notes.append("%d of %d random formulas have a str() that does not parse back to the same atoms (C13's business); "
                   "their tag routes were skipped" % (unparsed, n))
    # mixtures with tags
    for k in range(20 if tier == "quick" else 400):
        d, dstr = _rand_density(rng)
        pct = rng.choice([10, 25, 50, 33.3, 90])
        body = rng.choice(["%g wt%% D2O // H2O" % pct, "%g wt%% Na{+}Cl{-} // H[2]{+}2O" % pct,
                           "%g vol%% D2O@1.11 // H2O@1" % pct, "%g wt%% Fe[56]{2+}O // Fe2O3" % pct,
                           "%g vol%% Fe{3+}2O3@5.2 // C[13]@2.1" % pct])
        tag = rng.choice(["i", "n", ""])
        check_mixture_tag(R, F, {"string": "(%s)@%s%s" % (body, dstr, tag), "tag": tag or "i", "d": d})
    # single atoms
    for el in periodictable.elements:
        cand = [el]
        isos = el.isotopes
        if isos:
            cand += [el[k] for k in (isos if tier != "quick" else [isos[len(isos) // 2]])]
        if el.ions:
            cand.append(el.ion[el.ions[0]])
            if isos:
                cand.append(el[isos[0]].ion[el.ions[-1]])
        for a in cand:
            check_single_atom(R, F, {"atom": atom_name(a)})
    for a in (periodictable.elements.D, periodictable.elements.T, periodictable.elements.D.ion[1]):
        check_single_atom(R, F, {"atom": atom_name(a)})
    F.finish()
    return R.done()


# ----------------------------------------------------------------------------------------------
# replace
# ----------------------------------------------------------------------------------------------
def check_replace(R, F, inp):
    """inp = {"struct": repr, "density": float | None, "source": name, "target": name, "portion": p}"""
    from periodictable.formulas import formula
    struct = nat.struct_from_repr(inp["struct"])
    src, tgt, p, d = atom_from_name(inp["source"]), atom_from_name(inp["target"]), inp["portion"], inp["density"]
    atoms = nat.count_atoms(struct)
    ident = "%s|%s->%s|p=%r|d=%r" % (fid(struct), inp["source"], inp["target"], p, d)
    f = formula(struct)
    f.density = d            # None = unknown, also for a single-atom formula
    want = dict(atoms)
    if src in want:
        n_src = want[src]
        want[tgt] = want.get(tgt, 0) + p * n_src
        if p == 1:
            del want[src]
        else:
            want[src] = n_src * (1 - p)
    _, m0 = masses(atoms)
    _, m1 = masses(want)
    present = src in atoms
    R.ok(1, ("replace", present, d is None, p in (0, 1), tgt in atoms))
    try:
        g = f.replace(src, tgt, portion=p) if p != 1 or inp.get("explicit_portion") else f.replace(src, tgt)
    except Exception as e:
        if d is None:
            F.add("replace:none_density_raises" if present else "replace:none_density_raises_absent", ident,
                  "substitution in a formula of unknown density raises instead of returning the substituted formula with "
                  "the density still unknown", inp, _exc(e), {"atoms": names(want), "density": None})
        else:
            F.add("replace:exception:%s" % type(e).__name__, ident, "substitution raised %s" % _exc(e), inp, _exc(e),
                  {"atoms": names(want), "density": d * m1 / m0})
        return
    got = g.atoms
    keys = set(got) | set(want)
    if not all(close(got.get(k, 0), want.get(k, 0), REL, 1e-300) for k in keys):
        F.add("replace:counts", ident, "counts after substitution are not target += portion*n_source, source *= (1-portion), "
              "all others unchanged", inp, names(got), names(want))
    R.ok(1)
    if d is None:
        if g.density is not None:
            F.add("replace:none_density_not_none", ident, "the density was unknown but the substituted formula has a density",
                  inp, g.density, None)
    else:
        exp = d * m1 / m0
        if not close(g.density, exp, REL):
            F.add("replace:density_scale", ident, "density after substitution is not density*mass'/mass (cell volume kept)",
                  inp, g.density, exp)
    # the source formula is a value: replace creates a new formula
    if not nat.maps_close(f.atoms, atoms, 0.0) or f.density != d:
        F.add("replace:source_changed", ident, "replace() changed the formula it was applied to", inp,
              {"atoms": names(f.atoms), "density": f.density}, {"atoms": names(atoms), "density": d})


def task_replace(tier, seed, arg):
    n = 1500 if tier == "quick" else 20000
    rng = random.Random(seed)
    R = Result("seeded (formula, source, target, portion, density): nested structures (depth<=2, counts from %r) over "
               "nat.atom_pool; source drawn from the formula's atoms (present, 2 of 3 cases) or from the rest of the pool "
               "(absent); target any other pool atom (already in the formula or not); portion from {0, 0.25, 0.5, 1, random "
               "in [0,1]}, portion 1 also through the default argument; density unknown (None) in half of the cases, else "
               "random in (0, 25]; counts compared as maps with absent == 0, density' == density*mass'/mass with oracle masses "
               "(tolerance 1e-12), None stays None, nothing raises; bounded: %d cases; distinct = (source present, density "
               "known, portion class, target already present) classes" % (COUNTS, n))
    F = Families(R)
    pool = nat.atom_pool()
    # the documented use: deuteration of water, with and without density
    for d in (None, 1.0):
        for p in (1, 0.5, 0):
            check_replace(R, F, {"struct": [[2, "H"], [1, "O"]], "density": d, "source": "H", "target": "D", "portion": p,
                                 "explicit_portion": True})
    for i in range(n):
        struct = nat.random_structure(rng, pool, depth=rng.randint(0, 2), maxlen=4, counts=COUNTS)
        atoms = nat.count_atoms(struct)
        inside = sorted(atoms, key=atom_name)
        outside = [a for a in pool if a not in atoms]
        if rng.random() < 2 / 3 or not outside:
            src = rng.choice(inside)
        else:
            src = rng.choice(outside)
        tgt = rng.choice([a for a in pool if a is not src])
        p = rng.choice([0, 0.25, 0.5, 1, 1, round(rng.random(), 6)])
        d = None if rng.random() < 0.5 else _rand_density(rng)[0]
        inp = {"struct": nat.struct_repr(struct), "density": d, "source": atom_name(src), "target": atom_name(tgt),
               "portion": p, "explicit_portion": rng.random() < 0.5}
        check_replace(R, F, inp)
        if i < 3:
            R.sample(inp)
    F.finish()
    return R.done()


# ----------------------------------------------------------------------------------------------
# volume
# ----------------------------------------------------------------------------------------------
LATTICE_NAMES = ("a", "b", "c", "alpha", "beta", "gamma")


def oracle_volume(atoms, args, kw):
    """expected value of f.volume(*args, **kw) per the documentation; returns ("value", v) or ("raises", exception class)"""
    if (len(args) == 1 and not kw) or (not args and set(kw) <= {"packing_factor"}):
        pf = args[0] if args else kw.get("packing_factor", "hcp")
        if isinstance(pf, str):
            if pf.lower() not in DOC_PACKING:
                return "raises", KeyError
            pf = DOC_PACKING[pf.lower()]
        v = 0.0
        for a, n in atoms.items():
            v += n * a.covalent_radius ** 3
        return "value", 4 * math.pi / 3 * v / pf * 1e-24
    par = dict(zip(LATTICE_NAMES, args))
    par.update({k: v for k, v in kw.items() if k != "packing_factor"})
    a = par["a"]
    b = par.get("b", a)
    c = par.get("c", a)
    # defaults as documented by util.cell_volume: alpha defaults to 90 deg, beta and gamma default to alpha
    # (the property statement gives the formula but fixes no defaults)
    al = par.get("alpha")
    ca = math.cos(math.radians(al)) if al is not None else 0.0
    cb = math.cos(math.radians(par["beta"])) if par.get("beta") is not None else ca
    cg = math.cos(math.radians(par["gamma"])) if par.get("gamma") is not None else ca
    return "value", a * b * c * math.sqrt(1 - ca * ca - cb * cb - cg * cg + 2 * ca * cb * cg) * 1e-24


def check_volume(R, F, inp):
    """inp = {"struct": repr, "args": [...], "kw": {...}, "family": cause label of this call form}"""
    from periodictable.formulas import formula
    struct = nat.struct_from_repr(inp["struct"])
    atoms = nat.count_atoms(struct)
    args, kw, fam = list(inp["args"]), dict(inp["kw"]), inp["family"]
    call = ",".join([repr(x) for x in args] + ["%s=%r" % (k, kw[k]) for k in sorted(kw)])
    kind, want = oracle_volume(atoms, args, kw)
    lattice = fam.startswith("volume:lattice")       # the lattice volume does not depend on the formula
    ident = call if lattice else "%s|%s" % (fid(struct), call)
    f = formula(struct)
    R.ok(1, (fam, tuple(sorted(kw)), len(args)))
    try:
        got = f.volume(*args, **kw)
    except Exception as e:
        if kind == "raises" and isinstance(e, want):
            return
        F.add(fam + ":raises", ident, "volume%r %r raised %s" % (tuple(args), kw, _exc(e)), inp, _exc(e),
              want if kind == "value" else want.__name__)
        return
    if kind == "raises":
        F.add(fam, ident, "an unknown lattice name must raise KeyError", inp, got, "KeyError")
    elif not close(got, want, REL):
        F.add(fam, ident, WHY_VOLUME.get(fam, "volume differs from the documented value"), inp, got, want)


WHY_VOLUME = {
    "volume:packing_name": "volume with a named packing factor is not (4 pi/3) sum n r_cov^3 / pf * 1e-24 with the documented factor",
    "volume:packing_number": "volume with a numeric packing factor is not (4 pi/3) sum n r_cov^3 / pf * 1e-24",
    "volume:positional": "a single positional argument must be read as the packing factor",
    "volume:default": "volume() must use the default packing 'hcp' = pi/sqrt(18)",
    "volume:lattice": "lattice volume is not a*b*c*sqrt(1 - cos^2 alpha - cos^2 beta - cos^2 gamma + 2 cos alpha cos beta cos gamma)"
                      "*1e-24 with b, c defaulting to a and angles to 90 degrees",
    "volume:lattice:angle_default": "lattice angles that are not given must default to 90 degrees (Formula.volume: 'These default "
                                    "to 90 deg'); the value returned uses alpha for the missing beta/gamma, so it is not the "
                                    "property's cell volume for (alpha, 90, 90)",
}


def _mixcase(rng, s):
    return "".join(ch.upper() if rng.random() < 0.5 else ch.lower() for ch in s)


def _valid_cell(al, be, ga):
    ca, cb, cg = (math.cos(math.radians(x)) for x in (al, be, ga))
    return 1 - ca * ca - cb * cb - cg * cg + 2 * ca * cb * cg > 0.02


def task_volume(tier, seed, arg):
    from periodictable.formulas import PACKING_FACTORS
    n = 150 if tier == "quick" else 4000
    rng = random.Random(seed)
    R = Result("seeded random formulas (nat.atom_pool, counts from %r; every atom has a covalent radius); per formula: every "
               "documented lattice name and every key of PACKING_FACTORS in lower/upper/title/random letter case, as keyword and as "
               "single positional argument; numeric packing factors in (0.05, 1] as keyword and positional; no argument; lattice "
               "forms a / a,b,c / a,b,c,alpha,beta,gamma (keyword and positional, one positional a plus keywords), special cells "
               "(90,90,90), (90,90,120), (60,60,60), random angles in [50,130] with a valid cell, gamma-only and alpha-only forms; "
               "unknown names must raise KeyError; tolerance 1e-12; bounded: %d formulas; distinct = (call form, keyword set, "
               "number of positionals) classes" % (COUNTS, n))
    F = Families(R)
    pool = nat.atom_pool()
    documented = sorted(DOC_PACKING)
    extra = sorted(k for k in PACKING_FACTORS if k.lower() not in DOC_PACKING)
    if extra:
        R.notes.append("PACKING_FACTORS has names that are not in the documentation table: %r (not checked)" % extra)
    for i in range(n):
        struct = nat.random_structure(rng, pool, depth=rng.randint(0, 2), maxlen=4, counts=COUNTS)
        srep = nat.struct_repr(struct)

        def run(args, kw, fam):
            inp = {"struct": srep, "args": args, "kw": kw, "family": fam}
            check_volume(R, F, inp)
            return inp
        for name in documented:
            for variant in (name, name.upper(), name.title(), _mixcase(rng, name)):
                run([], {"packing_factor": variant}, "volume:packing_name")
                run([variant], {}, "volume:positional")
        x = rng.choice([rng.uniform(0.05, 1.0), 1.0, 0.5, 0.74])
        run([], {"packing_factor": x}, "volume:packing_number")
        last = run([x], {}, "volume:positional")
        run([], {}, "volume:default")
        for bad in ("sc", "hex", "", "face-centered", "fcc "):
            run([], {"packing_factor": bad}, "volume:unknown_name")
            run([bad], {}, "volume:unknown_name")
        a, b, c = (round(rng.uniform(1.0, 20.0), 3) for _ in range(3))
        run([], {"a": a}, "volume:lattice")
        run([], {"a": a, "b": b}, "volume:lattice")
        run([], {"a": a, "c": c}, "volume:lattice")
        run([], {"a": a, "b": b, "c": c}, "volume:lattice")
        run([a, b, c], {}, "volume:lattice")
        run([a, b], {}, "volume:lattice")
        run([a], {"b": b}, "volume:lattice")
        run([a], {"c": c, "gamma": 120.0}, "volume:lattice")
        for ang in ((90.0, 90.0, 90.0), (90.0, 90.0, 120.0), (60.0, 60.0, 60.0)):
            run([], {"a": a, "b": b, "c": c, "alpha": ang[0], "beta": ang[1], "gamma": ang[2]}, "volume:lattice")
        if i == 0:
            # every combination of the special crystallographic angles (as int and as float), all three given explicitly:
            # monoclinic settings with the unique axis a, b or c, triclinic cells with one or two right angles
            import itertools
            for ang in itertools.product((60, 90, 90.0, 104.5, 120), repeat=3):
                if _valid_cell(*[float(x) for x in ang]):
                    run([], {"a": a, "b": b, "c": c, "alpha": ang[0], "beta": ang[1], "gamma": ang[2]}, "volume:lattice:special_angles")
        while True:
            ang = tuple(round(rng.uniform(50.0, 130.0), 2) for _ in range(3))
            if _valid_cell(*ang):
                break
        run([], {"a": a, "b": b, "c": c, "alpha": ang[0], "beta": ang[1], "gamma": ang[2]}, "volume:lattice")
        run([a, b, c, ang[0], ang[1], ang[2]], {}, "volume:lattice")
        run([a, b, c], {"alpha": ang[0], "beta": ang[1], "gamma": ang[2]}, "volume:lattice")
        run([], {"a": a, "gamma": ang[2]}, "volume:lattice")
        run([], {"a": a, "c": c, "beta": ang[1]}, "volume:lattice")
        run([], {"a": a, "b": b, "c": c, "beta": ang[1], "gamma": ang[2]}, "volume:lattice")
        # only some angles given, alpha among them: the others default to 90
        while True:
            al = round(rng.uniform(55.0, 125.0), 2)
            if _valid_cell(al, ang[1], al) and _valid_cell(al, al, ang[2]) and _valid_cell(al, al, al):
                break
        run([], {"a": a, "alpha": al}, "volume:lattice:angle_default")
        run([], {"a": a, "b": b, "c": c, "alpha": al, "beta": ang[1]}, "volume:lattice:angle_default")
        run([], {"a": a, "b": b, "c": c, "alpha": al, "gamma": ang[2]}, "volume:lattice:angle_default")
        if i < 3:
            R.sample({"input": last, "expected": oracle_volume(nat.count_atoms(struct), last["args"], last["kw"])[1]})
    F.finish()
    return R.done()


# ----------------------------------------------------------------------------------------------
# replay
# ----------------------------------------------------------------------------------------------
def task_replay(tier, seed, arg):
    arg = arg or {}
    inp, key = arg.get("input"), arg.get("key", "")
    R = Result("replay of one recorded input through the same check function")
    F = Families(R)
    if not isinstance(inp, dict):
        R.notes.append("nothing to replay: no input")
        return R.done()
    if "args" in inp and "kw" in inp:
        check_volume(R, F, inp)
    elif "source" in inp and "target" in inp:
        check_replace(R, F, inp)
    elif "atom" in inp:
        check_single_atom(R, F, inp)
    elif "tag" in inp:
        check_mixture_tag(R, F, inp)
    elif "d" in inp:
        check_density(R, F, inp)
    else:
        R.notes.append("unrecognised input for key %r" % key)
    R.sample(inp)
    F.finish()
    return R.done()
