"""C10 -- private periodic tables are isolated from the public table and from each other.

All observations are made in fresh interpreters by `runner.lazy_common` (one subprocess per
evaluation).  Reference values are the CANONICAL public digest (every lazy group first touched by
an attribute read through an element, see c09).

tasks
  steps            (module, public state, private state, action) obligations
  shared_mutables  no mutable object is reachable from the atoms of two different tables
  formula_routing  formula(..., table=T) / pickle route to atoms of T
  histories        bounded interleavings
  replay
"""
import random
import time

from . import lazy_common as L

MAXV = 60
CANON_EVENT = dict((g, "read:%s:%s" % (spec["names"][0],
                                      "isotope" if g == "neutron_activation" else "element"))
                   for g, spec in L.GROUPS.items())
P1, P2 = "P1", "P2"


def _result(task, evaluations, distinct, rule, exhaustive, samples, violations, notes):
    violations = sorted(violations, key=lambda v: v["key"])
    if len(violations) > MAXV:
        notes.append("%d violations found, first %d reported" % (len(violations), MAXV))
        violations = violations[:MAXV]
    return {"task": task, "evaluations": evaluations, "distinct": distinct, "rule": rule,
            "exhaustive": exhaustive, "samples": samples[:5], "violations": violations,
            "notes": notes}


def _dig(table, label, groups=None, prereq=False):
    return {"op": "digest", "table": table, "label": label, "groups": groups, "prereq": prereq}


# ==============================================================================================
# steps
# ==============================================================================================
def _mutations_of(m):
    return [k for k, (mod, _c) in L.MUTATIONS.items() if mod == m]


def _step_evaluations(modules=None):
    out = []
    for m, (_mod, _fn, g) in L.PRIVATE_MODULES.items():
        if modules and m not in modules:
            continue
        pubs = ["pending", "loaded"] if g in L.GROUPS else ["loaded"]
        for pub in pubs:
            out.append((m, pub, "uninit", "create_only"))
            out.append((m, pub, "uninit", "init_private"))
            out.append((m, pub, "init", "reinit_private"))
            for priv in ("uninit", "init"):
                for mu in _mutations_of(m):
                    out.append((m, pub, priv, mu))
    return out


def _step_program(m, pub, priv, action):
    g = L.PRIVATE_MODULES[m][2]
    steps, t2 = [], (pub == "loaded")
    if pub == "loaded" and g in L.GROUPS:
        steps.append(L.ev(CANON_EVENT[g]))
    if t2:
        # second private table, fully initialised for the module BEFORE any activity on P1.  Only
        # possible without perturbing the history when the public group is already loaded.
        steps += [L.ev("T.create:" + P2), L.ev("T.prereq:" + P2), L.ev("T.init:%s:%s" % (m, P2)),
                  _dig(P2, "t2_before", [g])]
    steps.append(L.ev("T.create:" + P1))
    for p in ("mass", "density"):
        if p != m:
            steps.append(L.ev("T.init:%s:%s" % (p, P1)))
    n_setup = len(steps)
    if priv == "init":
        steps.append(L.ev("T.init:%s:%s" % (m, P1)))
    if action in ("init_private", "reinit_private"):
        steps.append(L.ev("T.init:%s:%s" % (m, P1)))
    elif action != "create_only":
        steps.append(L.ev("T.mut:%s:%s" % (action, P1)))
    steps.append({"op": "state", "label": "after"})
    if action in ("init_private", "reinit_private"):
        steps.append(_dig(P1, "T", [g]))
    steps += L.FINISH
    if t2:
        steps += [_dig(P2, "t2_after", [g]), {"op": "same", "a": "t2_before", "b": "t2_after"}]
    return steps, n_setup


def _step_outcome(evaluation, res, canon):
    m, pub, priv, action = evaluation
    g = L.PRIVATE_MODULES[m][2]
    if "crash" in res:
        return {"crash": res["crash"], "pub": {}, "t": {}, "t2": {}, "sig": "crash", "last": None}
    pub_d = L.compare_public(res, canon)
    t_d = {}
    if "T" in res["digests"]:
        dg = res["digests"]["T"]
        if dg["hash"][g] != canon["hash"][g]:
            t_d[g] = L.diff_detail(canon["detail"][g], dg["detail"][g])
    t2_d = res["same"].get("t2_before=t2_after", {})
    sig = L.diff_signature(pub_d) + "|" + L.diff_signature(t2_d)
    return {"pub": pub_d, "t": t_d, "t2": t2_d, "sig": sig, "last": res["results"][-1],
            "results": res["results"],
            "state": dict((k, v["summary"]) for k, v in res["states"]["after"]["groups"].items())}


def _step_key(evaluation):
    m, pub, priv, action = evaluation
    if action in ("create_only", "init_private"):
        return "steps:%s:public_%s:%s" % (m, pub, action)
    return "steps:%s:public_%s:private_%s:%s" % (m, pub, priv, action)


def _baseline(evaluation):
    m, pub, priv, action = evaluation
    if action == "create_only":
        return None
    if priv == "uninit":
        return (m, pub, "uninit", "create_only")
    return (m, pub, "uninit", "init_private")


def _describe(evaluation):
    m, pub, priv, action = evaluation
    mod, fn, g = L.PRIVATE_MODULES[m]
    pre = "public %s %s" % (g, "still pending" if pub == "pending" else "loaded")
    if action == "create_only":
        act = "creating a private table (mass/density initialised)"
    elif action == "init_private":
        act = "%s.%s(T) on a fresh private table" % (mod, fn)
    elif action == "reinit_private":
        act = "%s.%s(T) again on an initialised private table" % (mod, fn)
    else:
        act = "`%s` on a private table %s for %s" % (
            L.MUTATIONS[action][1], "initialised" if priv == "init" else "NOT initialised", g)
    return "%s; %s" % (pre, act)


def _step_violation(evaluation, out, base_out):
    m, pub, priv, action = evaluation
    g = L.PRIVATE_MODULES[m][2]
    clauses, summ = [], []
    if out.get("crash"):
        clauses.append("child crashed")
        summ.append(out["crash"][-300:])
    if out["t"]:
        clauses.append("(i) the private table does not serve the canonical %s values" % g)
        summ.append("private table: " + L.diff_text(out["t"]))
    if out["pub"]:
        clauses.append("(ii) the public table does not serve the canonical values afterwards")
        summ.append("public table: " + L.diff_text(out["pub"]))
    if out["t2"]:
        clauses.append("(iii) a second private table initialised before has changed")
        summ.append("second private table: " + L.diff_text(out["t2"]))
    return {
        "key": _step_key(evaluation),
        "what": "%s: %s" % (_describe(evaluation), "; ".join(clauses)),
        "input": {"kind": "steps", "module": m, "public": pub, "private": priv, "action": action},
        "observed": {"summary": " | ".join(summ), "public_diff": out["pub"], "private_diff": out["t"],
                     "second_private_diff": out["t2"], "action_result": L.short(out.get("last"), 160),
                     "class_state_after": out.get("state"),
                     "baseline": (None if base_out is None else
                                  "baseline %s: %s" % (_step_key(_baseline(evaluation)),
                                                       "clean" if not (base_out["pub"] or base_out["t2"])
                                                       else "fails differently"))},
        "expected": "public digest == canonical for all groups; private digest == canonical for "
                    "the initialised group; second private table unchanged"}


def _run_steps(evaluations, canon):
    progs = [_step_program(*e)[0] for e in evaluations]
    g_of = lambda e: L.PRIVATE_MODULES[e[0]][2]
    # expectations are per program (the private group differs): run in per-group batches
    results = [None] * len(evaluations)
    by_g = {}
    for i, e in enumerate(evaluations):
        by_g.setdefault(g_of(e), []).append(i)
    from concurrent.futures import ThreadPoolExecutor
    import os
    jobs = []
    for g, idxs in by_g.items():
        exp = {"public": canon["hash"], "T": {g: canon["hash"][g]}}
        for i in idxs:
            jobs.append((i, progs[i], exp))
    with ThreadPoolExecutor(max_workers=min(16, os.cpu_count() or 4)) as pool:
        for i, r in pool.map(lambda j: (j[0], L.run_program(j[1], expect=j[2])), jobs):
            results[i] = r
    return results


def task_steps(tier, seed, arg):
    t0 = time.time()
    canon = L.canonical()
    # arg {"modules": [...]} restricts the step obligations to the private-table init of some data modules
    evaluations = _step_evaluations((arg or {}).get("modules") if isinstance(arg, dict) else None)
    results = _run_steps(evaluations, canon)
    outs = dict((e, _step_outcome(e, r, canon)) for e, r in zip(evaluations, results))
    # arg {"clauses": ["t"]} keeps only some of the three clauses (private table "t", public table "pub", second private table "t2"):
    # a property about the values a table serves looks at the private table; isolation of the public table is C10's own business
    keep = set((arg or {}).get("clauses") or ("pub", "t", "t2")) if isinstance(arg, dict) else {"pub", "t", "t2"}
    for o in outs.values():
        for c in ("pub", "t", "t2"):
            if c not in keep:
                o[c] = {}
    violations, notes, samples = [], [], []
    subsumed, raised, distinct = [], [], 0
    for e in evaluations:
        out = outs[e]
        m, pub, priv, action = e
        base = _baseline(e)
        base_out = outs.get(base) if base else None
        last = out.get("last")
        is_exc = isinstance(last, dict) and "exc" in last
        if action not in ("create_only", "init_private", "reinit_private") and is_exc:
            raised.append("%s -> %s" % (_step_key(e), last["exc"]))
        else:
            distinct += 1
        if len(samples) < 5 and action.startswith("mutate/") and priv == "init" and pub == "loaded" \
                and not any(s["module"] == m for s in samples):
            samples.append({"module": m, "public": pub, "private": priv, "action": action,
                            "code": L.MUTATIONS[action][1], "result": L.short(last, 80),
                            "public_diff": L.diff_text(out["pub"]) or "none",
                            "second_private_diff": L.diff_text(out["t2"]) or "none"})
        failing = bool(out.get("crash") or out["pub"] or out["t"] or out["t2"])
        if not failing:
            continue
        if base_out is not None and out["sig"] == base_out["sig"] and not out["t"] \
                and not out.get("crash"):
            subsumed.append(_step_key(e))
            continue
        violations.append(_step_violation(e, out, base_out))
    notes.append("%d failing evaluations show exactly the failure of their baseline (same public/"
                 "second-table diff as the same set-up without the action) and are attributed to "
                 "the baseline's key: %s" % (len(subsumed), subsumed))
    notes.append("%d actions raise on the private table (recorded, not a violation; not counted as "
                 "distinct): %s" % (len(raised), raised))
    notes.append("the second private table (clause iii) is only present when the public group is "
                 "loaded: digesting it while the public group is pending would itself be a first "
                 "touch")
    notes.extend(L.stability_note())
    notes.append("wall %.1fs" % (time.time() - t0))
    return _result(
        "steps", len(evaluations), distinct,
        "one fresh interpreter per (module m of the nine, public state of m's group in {pending, "
        "loaded by the canonical read} (mass/density: loaded only), private state in {uninit, init}, "
        "action in {create_only, init_private, reinit_private, %d assignments / in-place mutations "
        "of m's per-atom data}); afterwards canonical finisher + full public digest vs canonical, "
        "private digest of m's group vs canonical (init actions), second private table digest "
        "before/after (public loaded); a failure identical to the failure of the same set-up "
        "without the action is attributed to that baseline; non-trivial = the action did not raise"
        % len(L.MUTATIONS),
        True, samples, violations, notes)


# ==============================================================================================
# shared mutables (child-side walker)
# ==============================================================================================
def shared_walk(pt, core, tables):
    """Runs in the child: ids of mutable objects reachable from the per-atom state (instance
    __dict__ and every served lazy value) of each table; returns objects shared by two tables."""
    names = [n for spec in L.GROUPS.values() for n in spec["names"]]
    all_tables = dict(tables)
    all_tables["public"] = pt.elements

    def reach(table):
        found = {}

        def visit(o, label, depth):
            if depth > 8 or o is None or isinstance(o, (str, bytes, int, float, complex, bool)):
                return
            cls = type(o)
            mod = cls.__module__ or ""
            if mod == "periodictable.core":
                return                      # atoms / ion sets / tables: structure, walked explicitly
            is_np = mod.startswith("numpy") and hasattr(o, "shape") and hasattr(o, "dtype")
            is_lib = mod.startswith("periodictable")
            if isinstance(o, (dict, list, set, bytearray)) or is_np or is_lib:
                if id(o) in found:
                    return
                found[id(o)] = (label, o)
            if isinstance(o, dict):
                for v in o.values():
                    visit(v, label + "[]", depth + 1)
            elif isinstance(o, (list, tuple, set, frozenset)):
                for v in o:
                    visit(v, label + "[]", depth + 1)
            elif is_lib:
                for k, v in vars(o).items():
                    visit(v, "%s.%s" % (label, k), depth + 1)
            elif is_np and getattr(o, "base", None) is not None:
                visit(o.base, label + ".base", depth + 1)

        for el in table:
            atoms = [el] + list(el)
            for a in list(atoms):
                atoms.extend(a.ion.ionset.values())
            for a in atoms:
                kind = type(a).__name__
                for k, v in list(vars(a).items()):
                    if k in ("element", "ion", "_isotopes"):
                        continue
                    visit(v, "%s.%s" % (kind, k.lstrip("_") if k == "_xray" else k), 0)
                for n in names:
                    try:
                        v = getattr(a, n)
                    except Exception:  # noqa
                        continue
                    visit(v, "%s.%s (class-level default served through the atom)" % (kind, n), 0)
        return found

    reached = dict((t, reach(tab)) for t, tab in all_tables.items())
    tnames = sorted(reached)
    labels = set()
    for t in tnames:
        labels.update(lab for lab, _o in reached[t].values())
    shared = {}
    pairs = []
    for i, a in enumerate(tnames):
        for b in tnames[i + 1:]:
            pairs.append("%s~%s" % (a, b))
            for oid in set(reached[a]) & set(reached[b]):
                lab, o = reached[a][oid]
                e = shared.setdefault(lab, {"pairs": {}, "example": L.short(L.summ(o), 120),
                                            "type": type(o).__name__})
                e["pairs"]["%s~%s" % (a, b)] = e["pairs"].get("%s~%s" % (a, b), 0) + 1
    return {"labels": sorted(labels), "pairs": pairs, "shared": shared,
            "reached": dict((t, len(r)) for t, r in reached.items())}


def _shared_program():
    steps = [{"op": "finish"}]
    for t in (P1, P2):
        steps += [L.ev("T.create:" + t), L.ev("T.prereq:" + t)]
        steps += [L.ev("T.init:%s:%s" % (m, t)) for m in L.PRIVATE_MODULES]
    # the digests touch every served value once (creates the cached Xray objects and sample ions)
    steps += [_dig("public", "public"), _dig(P1, P1), _dig(P2, P2)]
    steps.append({"op": "code",
                  "code": "importlib.import_module('runner.c10').shared_walk(pt, core, tables)"})
    return steps


def task_shared_mutables(tier, seed, arg):
    t0 = time.time()
    canon = L.canonical()
    res = L.run_program(_shared_program(),
                        expect={"public": canon["hash"], P1: canon["hash"], P2: canon["hash"]})
    if "crash" in res or (isinstance(res["results"][-1], dict) and "exc" in res["results"][-1]):
        obs = res.get("crash") or res["results"][-1]
        return _result("shared_mutables", 1, 0, "walk", False, [],
                       [{"key": "shared_mutables:child:crash", "what": "walker failed",
                         "input": {"kind": "shared_mutables"}, "observed": obs,
                         "expected": "no crash"}], [])
    w = res["results"][-1]
    violations, notes = [], []
    for lab, e in sorted(w["shared"].items()):
        violations.append({
            "key": "shared_mutables:%s" % lab,
            "what": "mutable %s objects reachable through `%s` are the same objects in different "
                    "tables (an in-place change through one table is served by the other)"
                    % (e["type"], lab),
            "input": {"kind": "shared_mutables", "label": lab},
            "observed": {"shared_objects_per_table_pair": e["pairs"], "example": e["example"]},
            "expected": "disjoint"})
    for t in ("public", P1, P2):
        d = {}
        dg = res["digests"][t]
        for g, h in dg["hash"].items():
            if h != canon["hash"][g]:
                d[g] = L.diff_detail(canon["detail"][g], dg["detail"][g])
        if d:
            notes.append("table %s fully initialised does not serve the canonical digest: %s"
                         % (t, L.diff_text(d)))
    notes.append("mutable objects reached per table: %s" % w["reached"])
    notes.append("wall %.1fs" % (time.time() - t0))
    n = len(w["labels"]) * len(w["pairs"])
    samples = [{"attribute_paths": w["labels"][:40], "table_pairs": w["pairs"]}]
    return _result(
        "shared_mutables", n, n,
        "state: public fully loaded (canonical order), two private tables with all nine modules "
        "initialised, every served value read once; one obligation per (attribute path, table "
        "pair): the ids of dict/list/set/ndarray/periodictable-class instances reachable from "
        "atom __dict__s and from every lazy name served through an atom (all elements, isotopes, "
        "instantiated ions) are disjoint between the two tables.  Complete for this state only.",
        True, samples, violations, notes)


# ==============================================================================================
# formula routing (child-side probe)
# ==============================================================================================
FORMULA_STRINGS = [
    ("plain", "H2O"), ("space", "CaCO3 6H2O"), ("plus", "CaCO3+6H2O"), ("group", "CaCO3(H2O)6"),
    ("nested", "(CaCO3(H2O)6)2"), ("fraction", "Fe0.5Ni0.5"), ("isotope", "O[18]H2"),
    ("D", "D2O"), ("T", "T2O"), ("ion", "Fe{2+}O{2-}"), ("isotope_ion", "Fe[56]{3+}Cl{-}3"),
    ("density", "H2O@1"), ("natural_density", "D2O@1n"), ("isotope_density", "D2O@1.1i"),
    ("wt%", "50 wt% Co // Ti"), ("mass%_3", "33 mass% Co // 33% Ti // Fe"),
    ("vol%", "50 vol% H2O@1 // D2O@1.1"), ("layers", "1 um Si // 5 nm Cr // 10 nm Au"),
    ("layers_isotope", "1 nm Fe[56] // 1 nm Ni[58]{2+}O@6.7"),
    ("mass_units", "5 g NaCl // 50 mL H2O@1"), ("grouped_mixture", "(50 wt% Co // Ti)@5"),
    ("mixture_of_mixture", "20 wt% (50 wt% Co // Ti) // Fe"),
    ("aa", "aa:ACDEFGHIKLMNPQRSTVWY"), ("aa_single", "aa:A"), ("dna", "dna:ACGT"),
    ("rna", "rna:ACGU"),
]


def formula_probe(pt, core, tables):
    """Runs in the child: list of cases {id, kind, ok, observed}."""
    import pickle
    import importlib
    formulas = importlib.import_module("periodictable.formulas")
    T = tables[P1]
    T2 = tables[P2]

    def in_table(a, tab):
        base, ok = a, True
        if type(a).__name__ == "Ion":
            base = a.element
            ok = base.ion.ionset.get(a.charge) is a
        if type(base).__name__ == "Isotope":
            el = base.element
            return ok and tab[el.number] is el and el._isotopes.get(base.isotope) is base
        return ok and tab[base.number] is base

    def atoms_of(f):
        found = []

        def walk(seq):
            for _count, frag in seq:
                if isinstance(frag, (tuple, list)):
                    walk(frag)
                else:
                    found.append(frag)
        walk(f.structure)
        return found + list(f.atoms.keys())

    def where(a):
        for name, tab in [("T", T), ("T2", T2), ("public", pt.elements)]:
            try:
                if in_table(a, tab):
                    return name
            except Exception:  # noqa
                pass
        return "no table"

    cases = []

    def check_formula(cid, build, text):
        try:
            f = build()
            atoms = atoms_of(f)
            foreign = sorted(set("%s in %s" % (L.atom_key(a), where(a)) for a in atoms
                                 if not in_table(a, T)))
            cases.append({"id": cid, "kind": "formula", "text": text, "ok": not foreign,
                          "natoms": len(atoms), "formula": str(f), "observed": foreign})
        except Exception as exc:  # noqa
            cases.append({"id": cid, "kind": "formula", "text": text, "ok": None,
                          "error": "%s: %s" % (type(exc).__name__, str(exc)[:120])})

    for cid, s in FORMULA_STRINGS:
        check_formula("string:" + cid, lambda: formulas.formula(s, table=T), s)
    check_formula("call:pt.formula", lambda: pt.formula("Fe[56]{2+}O", table=T),
                  "periodictable.formula('Fe[56]{2+}O', table=T)")
    check_formula("call:parse_formula", lambda: formulas.parse_formula("Fe[56]{2+}O", table=T),
                  "parse_formula('Fe[56]{2+}O', table=T)")
    check_formula("call:mix_by_weight",
                  lambda: pt.mix_by_weight("H2O@1", 1, "D2O@1.1", 1, table=T),
                  "mix_by_weight('H2O@1', 1, 'D2O@1.1', 1, table=T)")
    check_formula("call:mix_by_volume",
                  lambda: pt.mix_by_volume("H2O@1", 1, "D2O@1.1", 1, table=T),
                  "mix_by_volume('H2O@1', 1, 'D2O@1.1', 1, table=T)")

    def changed():
        f = formulas.formula("Fe[56]{2+}2O3D2Cl{-}")
        f.change_table(T)
        return f
    check_formula("call:Formula.change_table", changed, "formula('Fe[56]{2+}2O3D2Cl{-}').change_table(T)")

    # parse_formula keeps one grammar per table
    try:
        formulas.parse_formula("H2O", table=T)
        g1 = formulas._PARSER_CACHE.get(T)
        formulas.parse_formula("D2O", table=T)
        formulas.parse_formula("H2O", table=T2)
        formulas.parse_formula("H2O")
        formulas.parse_formula("H2O", table=pt.elements)
        cache = formulas._PARSER_CACHE
        ok = (g1 is not None and cache.get(T) is g1 and cache.get(T2) is not None
              and cache.get(T2) is not g1 and cache.get(pt.elements) is not None
              and cache.get(pt.elements) is not g1
              and set(map(id, cache)) == set(map(id, [T, T2, pt.elements])))
        cases.append({"id": "cache:one-grammar-per-table", "kind": "cache", "ok": ok,
                      "observed": {"entries": len(cache),
                                   "keys": sorted(getattr(k, "Fe").table for k in cache)}})
    except Exception as exc:  # noqa
        cases.append({"id": "cache:one-grammar-per-table", "kind": "cache", "ok": None,
                      "error": "%s: %s" % (type(exc).__name__, str(exc)[:120])})

    # pickle
    for cid, get in [("element", lambda t: t.Fe), ("isotope", lambda t: t.Fe[56]),
                     ("ion", lambda t: t.Fe.ion[2]), ("isotope_ion", lambda t: t.Fe[56].ion[2]),
                     ("D", lambda t: t.D), ("D_ion", lambda t: t.D.ion[1])]:
        for tname, tab in [("T", T), ("T2", T2), ("public", pt.elements)]:
            try:
                a = get(tab)
                for proto in (0, 2, pickle.HIGHEST_PROTOCOL):
                    b = pickle.loads(pickle.dumps(a, proto))
                    if b is not a:
                        break
                cases.append({"id": "pickle:%s:%s" % (cid, tname), "kind": "pickle", "ok": b is a,
                              "observed": "%s restored in %s" % (L.atom_key(b), where(b))})
            except Exception as exc:  # noqa
                cases.append({"id": "pickle:%s:%s" % (cid, tname), "kind": "pickle", "ok": False,
                              "observed": "%s: %s" % (type(exc).__name__, str(exc)[:120])})
    # pickles loaded in ANOTHER interpreter: before a table of that name exists the restore must fail (ValueError), never
    # hand back an atom of some other table; once the table exists, the atom of that table comes back
    try:
        import subprocess
        import sys as _sys
        import base64
        blobs = {cid: base64.b64encode(pickle.dumps(get(T), 2)).decode() for cid, get in
                 [("element", lambda t: t.Fe), ("isotope", lambda t: t.Fe[56]), ("ion", lambda t: t.Fe.ion[2]),
                  ("isotope_ion", lambda t: t.Fe[56].ion[2]), ("D", lambda t: t.D)]}
        child = ("import sys, json, pickle, base64\n"
                 "sys.path[:0] = %r\n"
                 "import periodictable as pt\nfrom periodictable import core\n"
                 "blobs = %r\nout = {}\n"
                 "for k, b in blobs.items():\n"
                 "    try:\n"
                 "        a = pickle.loads(base64.b64decode(b)); out[k + ':before'] = 'returned %%r of table %%r' %% (a, getattr(getattr(a, 'element', a), 'table', getattr(a, 'table', None)))\n"
                 "    except ValueError as e:\n"
                 "        out[k + ':before'] = 'ValueError'\n"
                 "    except Exception as e:\n"
                 "        out[k + ':before'] = type(e).__name__\n"
                 "T = core.PeriodicTable(%r)\nfrom periodictable import mass\nmass.init(T)\n"
                 "for k, b in blobs.items():\n"
                 "    try:\n"
                 "        a = pickle.loads(base64.b64decode(b))\n"
                 "        base = a\n"
                 "        while hasattr(base, 'element'): base = base.element\n"
                 "        out[k + ':after'] = 'ok' if base is T[base.number] else 'not an atom of the new table'\n"
                 "    except Exception as e:\n"
                 "        out[k + ':after'] = type(e).__name__ + ': ' + str(e)[:80]\n"
                 "print(json.dumps(out))\n") % ([x for x in _sys.path if x], blobs, P1)
        pr = subprocess.run([_sys.executable, "-c", child], capture_output=True, text=True, timeout=300)
        import json as _json
        out = _json.loads(pr.stdout.strip().split("\n")[-1])
        for k, v in sorted(out.items()):
            good = (v == "ValueError") if k.endswith(":before") else (v == "ok")
            cases.append({"id": "pickle:other-interpreter:%s" % k, "kind": "pickle", "ok": good, "observed": v})
    except Exception as exc:  # noqa
        cases.append({"id": "pickle:other-interpreter", "kind": "pickle", "ok": None,
                      "error": "%s: %s" % (type(exc).__name__, str(exc)[:200])})
    # atoms outlive the variable that held their table: the table must stay registered as long as its atoms can be pickled
    try:
        import gc
        import copy

        def _only_atoms():
            tmp = core.PeriodicTable("c10_probe_tmp_table")
            importlib.import_module("periodictable.mass").init(tmp)
            return [tmp.Fe, tmp.Fe[56], tmp.Fe.ion[2], tmp.D]
        kept = _only_atoms()
        gc.collect()
        for a in kept:
            try:
                ok = pickle.loads(pickle.dumps(a)) is a and copy.deepcopy(a) is a
                obs = "identity kept" if ok else "another object came back"
            except Exception as exc:  # noqa
                ok, obs = False, "%s: %s" % (type(exc).__name__, str(exc)[:100])
            cases.append({"id": "pickle:table-variable-dropped:%s" % L.atom_key(a), "kind": "pickle", "ok": ok, "observed": obs})
        core.PRIVATE_TABLES.pop("c10_probe_tmp_table", None)
    except Exception as exc:  # noqa
        cases.append({"id": "pickle:table-variable-dropped", "kind": "pickle", "ok": None,
                      "error": "%s: %s" % (type(exc).__name__, str(exc)[:200])})
    try:
        f = formulas.formula("Fe[56]{2+}OD2", table=T)
        g = pickle.loads(pickle.dumps(f))
        foreign = sorted(set("%s in %s" % (L.atom_key(a), where(a)) for a in atoms_of(g)
                             if not in_table(a, T)))
        cases.append({"id": "pickle:formula:T", "kind": "pickle", "ok": not foreign,
                      "observed": foreign})
    except Exception as exc:  # noqa
        cases.append({"id": "pickle:formula:T", "kind": "pickle", "ok": False,
                      "observed": "%s: %s" % (type(exc).__name__, str(exc)[:120])})
    return cases


def _formula_program():
    steps = []
    for t in (P1, P2):
        steps += [L.ev("T.create:" + t), L.ev("T.prereq:" + t)]
    steps.append({"op": "code",
                  "code": "importlib.import_module('runner.c10').formula_probe(pt, core, tables)"})
    return steps


def _formula_violations(cases, only=None):
    violations, errors = [], []
    for c in cases:
        if only is not None and c["id"] != only:
            continue
        if c["ok"] is None:
            errors.append("%s: %s (%s)" % (c["id"], c.get("error"), c.get("text")))
            continue
        if c["ok"]:
            continue
        if c["kind"] == "formula":
            what = ("formula built from %r with table=T contains atoms that are not atoms of T"
                    % c["text"])
            key = "formula_routing:atoms:%s" % c["id"]
        elif c["kind"] == "cache":
            what = "parse_formula does not keep exactly one grammar per table"
            key = "formula_routing:%s" % c["id"]
        else:
            what = "a pickled atom is not restored as the same atom of its table"
            key = "formula_routing:%s" % c["id"]
        violations.append({"key": key, "what": what,
                           "input": {"kind": "formula", "id": c["id"], "text": c.get("text")},
                           "observed": c["observed"], "expected": "only atoms of T / identity"})
    return violations, errors


def task_formula_routing(tier, seed, arg):
    t0 = time.time()
    res = L.run_program(_formula_program())
    if "crash" in res or not isinstance(res["results"][-1], list):
        return _result("formula_routing", 1, 0, "probe", False, [],
                       [{"key": "formula_routing:child:crash", "what": "probe failed",
                         "input": {"kind": "formula"},
                         "observed": res.get("crash") or res["results"][-1],
                         "expected": "no crash"}], [])
    cases = res["results"][-1]
    violations, errors = _formula_violations(cases)
    notes = ["%d inputs could not be built at all (not a C10 matter, e.g. C11 layer defects): %s"
             % (len(errors), errors), "wall %.1fs" % (time.time() - t0)]
    ok_cases = [c for c in cases if c["ok"] is not None]
    samples = [dict((k, c[k]) for k in ("id", "text", "formula", "natoms", "ok") if k in c)
               for c in cases if c["kind"] == "formula"][:3]
    samples += [c for c in cases if c["kind"] != "formula"][:2]
    return _result(
        "formula_routing", len(cases), len(ok_cases),
        "fixed list: %d formula strings covering every grammar route (plain, groups, isotope, D/T, "
        "ion, density tags, wt%%/vol%%/layer/mass-unit mixtures, grouped mixtures, aa:/dna:/rna: "
        "prefixes) and 5 API routes, each parsed with table=T: every atom in .structure and .atoms "
        "must be the atom object of T (identity walk over T's element/isotope/ion containers); "
        "one grammar per table in _PARSER_CACHE; pickle round trip identity for element, isotope, "
        "ion, isotope ion, D, D ion in T, T2 and the public table (protocols 0, 2, highest); "
        "non-trivial = the input could be built" % len(FORMULA_STRINGS),
        True, samples, violations, notes)


# ==============================================================================================
# histories
# ==============================================================================================
PUBLIC_EVENTS = [CANON_EVENT[g] for g in L.LAZY_GROUPS] + [
    "calc:neutron_sld", "calc:xray_sld", "calc:xray_sld_K_alpha", "calc:activation", "calc:volume",
    "calc:magnetic"]


def _alphabet():
    a = ["T.create:" + P1, "T.create:" + P2]
    a += ["T.init:%s:%s" % (m, t) for m in L.PRIVATE_MODULES for t in (P1, P2)]
    a += PUBLIC_EVENTS
    a += ["T.read:%s:%s" % (g, t) for g in L.ALL_GROUPS for t in (P1, P2)]
    a += ["T.mut:%s:%s" % (k, P1) for k in L.MUTATIONS]
    return a


def _tables_in(history):
    return sorted(set(n.split(":")[-1] for n in history if n.startswith("T.")))


def _initialised(history, t):
    gs = set()
    for n in history:
        p = n.split(":")
        if p[0] == "T.init" and p[-1] == t:
            gs.add(L.PRIVATE_MODULES[p[1]][2])
            if p[1] in L.NEEDS_PREREQ:
                gs.update(["mass", "density"])
    return sorted(gs)


def _compared(history):
    """{private table: groups whose digest is compared with canonical}: the groups initialised on
    it by the history; nothing for P1 when the history assigns to / mutates P1."""
    mutated = any(n.startswith("T.mut:") for n in history)
    out = {}
    for t in _tables_in(history):
        if t == P1 and mutated:
            continue
        gs = _initialised(history, t)
        if gs:
            out[t] = gs
    return out


def _history_program(history):
    steps = [L.ev(n) for n in history] + [{"op": "state", "label": "after"}] + L.FINISH
    for t, gs in sorted(_compared(history).items()):
        steps.append(_dig(t, t, gs, prereq=True))
    return steps


def _history_expect(history, canon):
    exp = {"public": canon["hash"]}
    for t in _compared(history):
        exp[t] = canon["hash"]
    return exp


def _history_check(history, res, canon):
    """-> {"public": {g: diff}, "P2": {...}, ...} non-empty entries only, value mismatches"""
    if "crash" in res:
        return {"child": {"crash": {"differing": res["crash"][-300:]}}}, []
    out = {}
    d = L.compare_public(res, canon)
    if d:
        out["public"] = d
    for t, gs in sorted(_compared(history).items()):
        dg = res["digests"][t]
        td = {}
        for g in gs:
            if dg["hash"][g] != canon["hash"][g]:
                td[g] = L.diff_detail(canon["detail"][g], dg["detail"][g])
        if td:
            out[t] = td
    bad = []
    for n, v in zip(history, res["results"]):
        if not n.startswith("T.") and not L.same_value(v, canon["values"][n]):
            bad.append((n, v, canon["values"][n]))
    return out, bad


def _components(diffs, bad):
    """one failure component per (table, group) with its diff signature; value-only components
    when no digest differs"""
    comps = {}
    for t, d in diffs.items():
        for g, dd in d.items():
            comps[("digest", "%s.%s" % (t, g), L.diff_signature({g: dd}))] = dd
    if not diffs:
        for n, v, _e in bad:
            comps[("value", n, L.short(v, 80))] = None
    return comps


def _run_histories(hs, canon):
    from concurrent.futures import ThreadPoolExecutor
    import os
    if not hs:
        return []
    with ThreadPoolExecutor(max_workers=min(16, os.cpu_count() or 4)) as pool:
        return list(pool.map(lambda h: L.run_program(_history_program(h),
                                                     expect=_history_expect(h, canon)), hs))


def _sample_histories(tier, seed):
    rng = random.Random(seed)
    names = _alphabet()
    n = len(names)
    plan = {1: n, 2: 1500, 3: 1700, 4: 5000 - 3200 - n} if tier == "thorough" \
        else {1: 40, 2: 160, 3: 200}
    hs = []
    for length, count in plan.items():
        space = n ** length
        idxs = range(space) if count >= space else sorted(rng.sample(range(space), count))
        for ix in idxs:
            h = []
            for _ in range(length):
                ix, r = divmod(ix, n)
                h.append(names[r])
            hs.append(h)
    return hs, plan, n


def _history_text(diffs, bad):
    parts = ["%s table: %s" % (t, L.diff_text(d)) for t, d in sorted(diffs.items())]
    parts += ["public event %s returned %s, canonical %s" % (n, L.short(v, 80), L.short(e, 80))
              for n, v, e in bad]
    return " | ".join(parts)


def task_histories(tier, seed, arg):
    t0 = time.time()
    canon = L.canonical()
    hs, plan, n = _sample_histories(tier, seed)
    run_batch = lambda hists: _run_histories(hists, canon)
    results = run_batch(hs)
    clusters, distinct, samples, failing = {}, set(), [], 0
    for h, res in zip(hs, results):
        diffs, bad = _history_check(h, res, canon)
        if any(x.startswith("T.init") or x.startswith("T.mut") for x in h):
            distinct.add(tuple(h))
        if len(samples) < 5 and len(h) == max(plan) and len(_tables_in(h)) == 2 and _compared(h):
            samples.append({"history": h, "results": [L.short(v, 50) for v in res.get("results", [])],
                            "compared": _compared(h),
                            "outcome": _history_text(diffs, bad) or "canonical"})
        if diffs or bad:
            failing += 1
            for ck in _components(diffs, bad):
                clusters.setdefault(ck, []).append(h)
    reps = dict((ck, sorted(members, key=lambda m: (len(m), m))[0])
                for ck, members in clusters.items())

    def has_component(ck, h, res):
        diffs, bad = _history_check(h, res, canon)
        return ck in _components(diffs, bad)
    minimal = L.shrink_all(reps, run_batch, has_component)
    cks = sorted(minimal, key=lambda k: (k[0], k[1], minimal[k]))
    finals = run_batch([minimal[ck] for ck in cks])
    violations, notes = [], []
    for ck, res in zip(cks, finals):
        hmin = minimal[ck]
        diffs, bad = _history_check(hmin, res, canon)
        kind, where, _sig = ck
        if kind == "digest":
            t, g = where.split(".", 1)
            own = {t: {g: diffs[t][g]}} if g in diffs.get(t, {}) else diffs
        else:
            own = diffs
        violations.append({
            "key": "histories:%s:%s" % (where if kind == "digest" else "value", ">".join(hmin)),
            "what": "after this interleaving (then the canonical finisher) a table does not serve "
                    "the canonical values: %s" % _history_text(own, bad if kind == "value" else []),
            "input": {"kind": "history", "history": hmin},
            "observed": {"summary": _history_text(own, bad if kind == "value" else []),
                         "diff": own, "all_differences_of_this_history": _history_text(diffs, bad),
                         "results": [L.short(v, 80) for v in res.get("results", [])],
                         "histories_with_this_signature": len(clusters[ck]),
                         "examples": [">".join(m) for m in
                                      sorted(clusters[ck], key=lambda m: (len(m), m))[:3]]},
            "expected": "public digest == canonical; untouched private tables serve canonical "
                        "values for the groups initialised on them"})
    notes.append("failing histories: %d of %d; failures split per (table, group) and clustered by "
                 "diff signature into %d causes; each representative shrunk by single-event deletion"
                 % (failing, len(hs), len(clusters)))
    notes.extend(L.stability_note())
    notes.append("wall %.1fs" % (time.time() - t0))
    return _result(
        "histories", len(hs), len(distinct),
        "BOUNDED: interleavings over a %d-event alphabet {create P1/P2, init(T) for the nine modules "
        "on P1/P2 (nsf/activation with their mass/density precondition), %d public reads/"
        "calculations, reads of each group on P1/P2, %d assignments/mutations on P1}, stratified "
        "sample by length %s (random.Random(seed)) out of %s; fresh interpreter each; afterwards "
        "canonical finisher, full public digest vs canonical, and for every private table not "
        "mutated in the history the digest of the groups initialised on it vs canonical; "
        "non-trivial = the history initialises or mutates a private table"
        % (n, len(PUBLIC_EVENTS), len(L.MUTATIONS), plan, dict((k, n ** k) for k in plan)),
        False, samples, violations, notes)


# ==============================================================================================
def task_replay(tier, seed, arg):
    t0 = time.time()
    arg = arg or {}
    inp = arg.get("input", arg)
    if isinstance(inp, list):
        inp = {"kind": "history", "history": inp}
    key = arg.get("key") or "replay"
    kind = inp.get("kind")
    violations, samples, notes = [], [], []
    if kind == "steps":
        canon = L.canonical()
        e = (inp["module"], inp["public"], inp["private"], inp["action"])
        todo = [e] + ([_baseline(e)] if _baseline(e) else [])
        outs = dict((x, _step_outcome(x, r, canon)) for x, r in zip(todo, _run_steps(todo, canon)))
        out, base_out = outs[e], outs.get(_baseline(e))
        failing = bool(out.get("crash") or out["pub"] or out["t"] or out["t2"])
        same_as_base = base_out is not None and out["sig"] == base_out["sig"] and not out["t"]
        if failing and not same_as_base:
            v = _step_violation(e, out, base_out)
            v["key"] = key if key != "replay" else v["key"]
            violations.append(v)
        elif failing:
            notes.append("fails exactly like its baseline %s" % _step_key(_baseline(e)))
        samples.append({"evaluation": e, "program": [s.get("name", s["op"]) for s in _step_program(*e)[0]],
                        "results": [L.short(v, 60) for v in out.get("results", [])]})
    elif kind == "history":
        canon = L.canonical()
        h = inp["history"]
        res = _run_histories([h], canon)[0]
        diffs, bad = _history_check(h, res, canon)
        if diffs or bad:
            violations.append({"key": key, "what": "interleaving does not reproduce the canonical "
                               "values: %s" % _history_text(diffs, bad),
                               "input": inp, "observed": {"summary": _history_text(diffs, bad),
                                                          "diff": diffs},
                               "expected": "canonical"})
        samples.append({"history": h, "code": [L.event_code(n) for n in h],
                        "results": [L.short(v, 80) for v in res.get("results", [])]})
    elif kind == "shared_mutables":
        r = task_shared_mutables(tier, seed, None)
        violations = [v for v in r["violations"]
                      if inp.get("label") is None or v["input"].get("label") == inp.get("label")]
        samples = r["samples"]
    elif kind == "formula":
        res = L.run_program(_formula_program())
        cases = res.get("results", [[]])[-1] if "crash" not in res else []
        violations, errors = _formula_violations(cases, only=inp.get("id"))
        notes += errors
        samples = [c for c in cases if c["id"] == inp.get("id")]
    else:
        notes.append("cannot replay input of kind %r" % kind)
    notes.append("wall %.1fs" % (time.time() - t0))
    return _result("replay", 1, 1, "replay of one input in fresh interpreters", False, samples,
                   violations, notes)
