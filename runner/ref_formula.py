"""Reference reading of the documented formula grammar (doc/sphinx/guide/formula_grammar.rst).

Written from the guide alone: the EBNF block near its end plus the prose/examples above it.  No
pyparsing, and nothing of `periodictable.formulas` is imported or called: the *meaning* of a
derivation is computed here from the documented reading

    a count multiplies everything in its group, repeated atoms add, '@d'/'@di' is the isotopic density,
    '@dn' the natural density, a single-atom formula defaults to the density of that atom;
    wt% : component masses in the ratio of the percentages, the last part takes 100 - sum;
    vol%: component volumes (mass/density) in that ratio;
    mass/volume units: masses in grams (volumes: litres * 1000 * density), total_mass = sum of grams;
    layers: volumes proportional to thickness, thickness = sum of metres;
    '( mixture ) n' repeats the recorded amount n times;
    mixture density = total mass / total volume when every component density is known.

Only the periodic *table* is used (atom objects, their `.mass`, `.density`, isotope and ion lists),
because the expected composition has to be expressed with the atoms of that table.

Amendments to the EBNF block (each is stated in the guide's prose or examples, see DESIGN.md C01):
  (1) the count of a group is optional (`group :: count element+` - every example omits it);
  (2) `density :: '@' count` may carry the 'n' / 'i' suffix of the prose ("D2O@1n");
  (3) the inside of a parenthesised group of a compound is groups and separators only; a density tag or
      a mixture inside such a group ("(Fe@7.8)2") is outside the quantifier (`RefOutside`);
  (4) white space: the block has no white space except in `separator`; the examples write
      "10wt% Fe // 15% Co // Ni", "1 um Si", "20vol% (10 wt% NaCl@2.16 // H2O@1) // D2O@1n", so space is
      allowed between count and unit/percent keyword, before a part, and around '//'.
  (5) `part :: '(' mixture ')'` may be followed by a density tag (prose: the mixture density "should be
      set explicitly"), and a quantity list may contain '( quantity-list ) count' (repeated layers /
      masses - C11's "repeated groups").
The weight / volume percent keyword spellings are the one thing taken from the code's regexes
("(w((eigh)?t)?|m(ass)?)", "v(ol(ume)?)?", keyword before or after '%'), as the guide only shows
'wt%' and 'vol%'.
"""
import os
import re
import random
from fractions import Fraction

DOC_PATH = os.path.join(os.environ.get("VERIF_REPO", "/repo"), "doc", "sphinx", "guide",
                        "formula_grammar.rst")


class RefError(Exception):
    """base class"""


class RefSyntaxError(RefError):
    """the string is not derivable from the documented grammar"""


class RefLookupError(RefError):
    """symbol / isotope / charge not defined by the table"""


class RefOutside(RefError):
    """derivable only through one of the documented ambiguities: outside the property's quantifier"""


class RefMixError(RefError):
    """a mixture the guide says is impossible (missing density, percentages above 100)"""


# ---------------------------------------------------------------------------------------------
# documented terminals
# ---------------------------------------------------------------------------------------------
def read_doc_grammar(path=DOC_PATH):
    """{production name: right-hand side text} of the EBNF block of the guide"""
    prods = {}
    try:
        with open(path) as fd:
            for line in fd:
                m = re.match(r"^\s{4}(\w+)\s+::\s+(.*\S)\s*$", line)
                if m:
                    prods[m.group(1)] = m.group(2)
    except OSError:
        pass
    return prods


_SI = {"k": Fraction(1000), "": Fraction(1), "c": Fraction(1, 100), "m": Fraction(1, 1000),
       "u": Fraction(1, 10 ** 6), "n": Fraction(1, 10 ** 9)}


def _unit_table(rhs, base, default):
    names = re.findall(r"'([^']+)'", rhs or "") or default
    out = {}
    for u in names:
        if not u.endswith(base) or u[:-len(base)] not in _SI:
            raise ValueError("unit %r of the guide is not an SI multiple of %r" % (u, base))
        out[u] = _SI[u[:-len(base)]]
    return out


_DOC = read_doc_grammar()
#: unit -> grams, litres, metres (SI prefix meaning of the unit names listed in the guide)
MASS_UNITS = _unit_table(_DOC.get("mass"), "g", ["kg", "g", "mg", "ug", "ng"])
VOLUME_UNITS = _unit_table(_DOC.get("volume"), "L", ["L", "mL", "uL", "nL"])
LENGTH_UNITS = _unit_table(_DOC.get("length"), "m", ["cm", "mm", "um", "nm"])
ALL_UNITS = list(MASS_UNITS) + list(VOLUME_UNITS) + list(LENGTH_UNITS)

WEIGHT_WORDS = ["wt", "w", "weight", "m", "mass"]
VOLUME_WORDS = ["vol", "v", "volume"]
WEIGHT_KEYWORDS = [w + "%" for w in WEIGHT_WORDS] + ["%" + w for w in WEIGHT_WORDS]
VOLUME_KEYWORDS = [w + "%" for w in VOLUME_WORDS] + ["%" + w for w in VOLUME_WORDS]

NUMBER_RE = re.compile(r"[1-9][0-9]*")
COUNT_RE = re.compile(r"(?:(?:[1-9][0-9]*|0)?\.[0-9]*|[1-9][0-9]*)")
SYMBOL_RE = re.compile(r"[A-Z][a-z]*")


def cval(text):
    """exact value of a `count` spelling ('2', '2.', '.5', '0.5', '1.25')"""
    m = COUNT_RE.fullmatch(text)
    if not m or text == ".":
        raise RefSyntaxError("not a count: %r" % (text,))
    if "." in text:
        ip, fp = text.split(".")
        v = Fraction(int(ip)) if ip else Fraction(0)
        if fp:
            v += Fraction(int(fp), 10 ** len(fp))
        return v
    return Fraction(int(text))


def respell(text, mode):
    """another spelling of the same count value"""
    if text is None or mode in (None, "asis"):
        return text
    if "." not in text:
        if mode == "dot":
            return text + "."
        if mode == "dot0":
            return text + ".0"
        return text
    ip, fp = text.split(".")
    if mode == "lead0" and ip == "":
        return "0." + fp
    if mode == "nolead0" and ip == "0" and fp:
        return "." + fp
    if mode == "trail0":
        return text + "0"
    return text


# ---------------------------------------------------------------------------------------------
# AST
# ---------------------------------------------------------------------------------------------
class Node(object):
    __slots__ = ()

    def __repr__(self):
        return "%s(%s)" % (type(self).__name__,
                           ", ".join("%s=%r" % (k, getattr(self, k)) for k in self.__slots__))

    def __getstate__(self):
        return {k: getattr(self, k) for k in self.__slots__}

    def __setstate__(self, st):
        for k, v in st.items():
            setattr(self, k, v)


class Element(Node):
    """symbol isotope? ion? count?  (count is a spelling or None; `one`: write the 1 of a +-1 charge)"""
    __slots__ = ("symbol", "isotope", "charge", "count", "one")

    def __init__(self, symbol, isotope=None, charge=None, count=None, one=False):
        self.symbol, self.isotope, self.charge, self.count, self.one = symbol, isotope, charge, count, one


class Group(Node):
    """implicit: `count? element+` (items are Elements);  explicit: `( group (sep group)* ) count?`"""
    __slots__ = ("explicit", "count", "items", "seps")

    def __init__(self, explicit, count, items, seps=None):
        self.explicit, self.count, self.items, self.seps = explicit, count, list(items), seps


class Compound(Node):
    """group (separator group)* density?   density = (count spelling, '' | 'n' | 'i') or None"""
    __slots__ = ("groups", "seps", "density")

    def __init__(self, groups, seps=None, density=None):
        self.groups, self.seps, self.density = list(groups), seps, density


class Empty(Node):
    __slots__ = ()


class GroupedMixture(Node):
    """'(' mixture ')' density?"""
    __slots__ = ("mixture", "density")

    def __init__(self, mixture, density=None):
        self.mixture, self.density = mixture, density


class Percentage(Node):
    """count 'wt%|vol%' part ('//' count '%' part)* '//' part ;  kind 'wt' | 'vol'"""
    __slots__ = ("kind", "items", "base")

    def __init__(self, kind, items, base):
        self.kind, self.items, self.base = kind, list(items), base


class QItem(Node):
    """count unit part"""
    __slots__ = ("amount", "unit", "part")

    def __init__(self, amount, unit, part):
        self.amount, self.unit, self.part = amount, unit, part


class QRepeat(Node):
    """'(' quantity ')' count?"""
    __slots__ = ("quantity", "count")

    def __init__(self, quantity, count):
        self.quantity, self.count = quantity, count


class Quantity(Node):
    """qitem ('//' qitem)* ; all items of one family ('mass' = mass and volume units, or 'length')"""
    __slots__ = ("items",)

    def __init__(self, items):
        self.items = list(items)

    @property
    def family(self):
        it = self.items[0]
        while isinstance(it, QRepeat):
            it = it.quantity.items[0]
        return "length" if it.unit in LENGTH_UNITS else "mass"


# ---------------------------------------------------------------------------------------------
# rendering
# ---------------------------------------------------------------------------------------------
DEFAULT_STYLE = dict(sep="", count="asis", paren="", psep=" // ", kw_wt="wt%", kw_vol="vol%",
                     kw_rest="%", cu="", up=" ")

#: separator styles allowed by `separator :: space? '+'? space?`
SEPARATORS = ["", " ", "+", " + ", "+ ", " +"]
COUNT_MODES = ["asis", "dot", "dot0", "lead0", "nolead0", "trail0"]


def make_styles():
    """a fixed, ordered list of rendering styles covering every separator / spelling choice"""
    out = []
    for i, sep in enumerate(SEPARATORS):
        for j, cm in enumerate(COUNT_MODES):
            st = dict(DEFAULT_STYLE)
            st["sep"] = sep
            st["count"] = cm
            st["paren"] = ["", "outer", "inner"][(i + j) % 3]
            st["psep"] = [" // ", "//", " //", "// "][(i * 2 + j) % 4]
            st["kw_wt"] = WEIGHT_KEYWORDS[(i * 6 + j) % len(WEIGHT_KEYWORDS)]
            st["kw_vol"] = VOLUME_KEYWORDS[(i * 6 + j) % len(VOLUME_KEYWORDS)]
            st["kw_rest"] = ["%", "same"][(i + j) % 2]
            st["cu"] = ["", " "][(i + j // 2) % 2]
            st["up"] = [" ", " ", " ", ""][(i + j) % 4]
            out.append(st)
    mixed = dict(DEFAULT_STYLE)
    mixed["sep"] = ["", " ", "+", " + "]
    out.append(mixed)
    return out


STYLES = make_styles()


def ion_text(e):
    q = e.charge
    mag = abs(q)
    return "{" + (str(mag) if (mag != 1 or e.one) else "") + ("+" if q > 0 else "-") + "}"


def density_text(d, st):
    return "@" + respell(d[0], st.get("count")) + d[1]


def _needs_nonempty_sep(g, prev):
    # an implicit group that starts with a count cannot directly follow another group:
    # "Fe" "2O" -> "Fe2O", "(H2O)3" "2Fe" -> "(H2O)32Fe" would be read differently;
    # and elements written directly after a counted implicit group belong to that group:
    # "2H2" "O" -> "2H2O"
    if g.explicit:
        return False
    return g.count is not None or ((not prev.explicit) and prev.count is not None)


def _tok_groups(groups, seps, st, out, pos):
    for i, g in enumerate(groups):
        if i > 0:
            sep = seps[i - 1] if seps and seps[i - 1] is not None else st["sep"]
            if isinstance(sep, (list, tuple)):
                sep = sep[pos[0] % len(sep)]
                pos[0] += 1
            if st.get("paren") == "outer" and sep == "" and (g.explicit or groups[i - 1].explicit):
                sep = " "
            if sep == "" and _needs_nonempty_sep(g, groups[i - 1]):
                sep = " "
            out.append(("sep", sep, None))
        _tok_group(g, st, out, pos)


def _tok_group(g, st, out, pos):
    cm = st.get("count")
    if g.explicit:
        out.append(("open", "(", g))
        if st.get("paren") == "inner":
            out.append(("ws", " ", None))
        _tok_groups(g.items, g.seps, st, out, pos)
        if st.get("paren") == "inner":
            out.append(("ws", " ", None))
        out.append(("close", ")", g))
        if g.count is not None:
            out.append(("gcount", respell(g.count, cm), g))
    else:
        if g.count is not None:
            out.append(("lcount", respell(g.count, cm), g))
        for e in g.items:
            out.append(("sym", e.symbol, e))
            if e.isotope is not None:
                out.append(("iso", "[%d]" % e.isotope, e))
            if e.charge is not None:
                out.append(("ion", ion_text(e), e))
            if e.count is not None:
                out.append(("ecount", respell(e.count, cm), e))


def _tok_part(p, st, out, pos):
    if isinstance(p, Compound):
        _tok_groups(p.groups, p.seps, st, out, pos)
        if p.density is not None:
            out.append(("dens", density_text(p.density, st), p))
    elif isinstance(p, GroupedMixture):
        out.append(("mopen", "(", p))
        _tok_mixture(p.mixture, st, out, pos)
        out.append(("mclose", ")", p))
        if p.density is not None:
            out.append(("dens", density_text(p.density, st), p))
    else:
        raise TypeError("not a part: %r" % (p,))


def _tok_mixture(m, st, out, pos):
    cm = st.get("count")
    if isinstance(m, Percentage):
        kws = WEIGHT_KEYWORDS if m.kind == "wt" else VOLUME_KEYWORDS
        kw = st["kw_wt"] if m.kind == "wt" else st["kw_vol"]
        if kw not in kws:
            kw = kws[0]
        for i, (pct, part) in enumerate(m.items):
            if i > 0:
                out.append(("psep", st["psep"], None))
            k = kw if (i == 0 or st.get("kw_rest") == "same") else "%"
            out.append(("pct", respell(pct, cm), m))
            out.append(("kw", st["cu"] + k + st["up"], m))
            _tok_part(part, st, out, pos)
        out.append(("psep", st["psep"], None))
        _tok_part(m.base, st, out, pos)
    elif isinstance(m, Quantity):
        for i, it in enumerate(m.items):
            if i > 0:
                out.append(("psep", st["psep"], None))
            if isinstance(it, QRepeat):
                out.append(("mopen", "(", it))
                _tok_mixture(it.quantity, st, out, pos)
                out.append(("mclose", ")", it))
                if it.count is not None:
                    out.append(("rcount", respell(it.count, cm), it))
            else:
                out.append(("amount", respell(it.amount, cm), it))
                out.append(("unit", st["cu"] + it.unit + st["up"], it))
                _tok_part(it.part, st, out, pos)
    else:
        raise TypeError("not a mixture: %r" % (m,))


def tokens(ast, style=None):
    """[(tag, text, node)]; ''.join(text) is the rendered string"""
    st = dict(DEFAULT_STYLE)
    if style:
        st.update(style)
    out = []
    pos = [0]
    if isinstance(ast, Empty):
        return out
    if isinstance(ast, (Compound, GroupedMixture)):
        _tok_part(ast, st, out, pos)
    elif isinstance(ast, Group):
        _tok_group(ast, st, out, pos)
    else:
        _tok_mixture(ast, st, out, pos)
    return out


def render(ast, style=None):
    return "".join(t[1] for t in tokens(ast, style))


# ---------------------------------------------------------------------------------------------
# reference recogniser (string -> AST), greedy reading of the amended EBNF
# ---------------------------------------------------------------------------------------------
class _Parser(object):
    def __init__(self, s):
        self.s = s
        self.i = 0

    def fail(self, what):
        raise RefSyntaxError("%s at %d in %r" % (what, self.i, self.s))

    def peek(self, n=1):
        return self.s[self.i:self.i + n]

    def eat(self, lit):
        if self.s.startswith(lit, self.i):
            self.i += len(lit)
            return True
        return False

    def ws(self):
        j = self.i
        while self.i < len(self.s) and self.s[self.i] in " \t":
            self.i += 1
        return self.s[j:self.i]

    def count(self):
        m = COUNT_RE.match(self.s, self.i)
        if not m or m.group() == ".":
            return None
        self.i = m.end()
        return m.group()

    # -- compound level
    def element(self):
        m = SYMBOL_RE.match(self.s, self.i)
        if not m:
            return None
        self.i = m.end()
        e = Element(m.group())
        if self.eat("["):
            n = NUMBER_RE.match(self.s, self.i)
            if not n:
                self.fail("malformed isotope tag")
            self.i = n.end()
            if not self.eat("]"):
                self.fail("malformed isotope tag")
            e.isotope = int(n.group())
        if self.eat("{"):
            n = NUMBER_RE.match(self.s, self.i)
            mag = 1
            if n:
                self.i = n.end()
                mag = int(n.group())
                e.one = (mag == 1)
            sign = self.peek()
            if sign not in ("+", "-") or sign == "":
                self.fail("malformed ion tag")
            self.i += 1
            if not self.eat("}"):
                self.fail("malformed ion tag")
            e.charge = mag if sign == "+" else -mag
        e.count = self.count()
        return e

    def group(self):
        save = self.i
        if self.peek() == "(":
            self.i += 1
            self.ws()
            inner = self.compound()
            if inner is None:
                self.i = save
                return None
            self.ws()
            if not self.eat(")"):
                self.i = save
                return None
            if inner.density is not None:
                raise RefOutside("density tag inside a parenthesised group")
            c = self.count()
            return Group(True, c, inner.groups, inner.seps)
        c = self.count()
        items = []
        while True:
            e = self.element()
            if e is None:
                break
            items.append(e)
        if not items:
            self.i = save
            return None
        return Group(False, c, items)

    def compound(self):
        g = self.group()
        if g is None:
            return None
        groups, seps = [g], []
        while True:
            save = self.i
            a = self.ws()
            b = "+" if self.eat("+") else ""
            c = self.ws()
            g = self.group()
            if g is None:
                self.i = save
                break
            seps.append(a + b + c)
            groups.append(g)
        dens = None
        if self.peek() == "@":
            dens = self.density()
        return Compound(groups, seps, dens)

    def density(self):
        if not self.eat("@"):
            return None
        c = self.count()
        if c is None:
            self.fail("density tag without a count")
        suffix = ""
        if self.peek() in ("n", "i") and self.peek() != "":
            suffix = self.peek()
            self.i += 1
        return (c, suffix)

    # -- mixture level
    def keyword(self, kinds):
        best = None
        for kind, kws in kinds:
            for kw in kws:
                if self.s.startswith(kw, self.i) and (best is None or len(kw) > len(best[1])):
                    best = (kind, kw)
        if best:
            self.i += len(best[1])
        return best

    def unit(self, family=None):
        best = None
        for u in ALL_UNITS:
            if self.s.startswith(u, self.i) and (best is None or len(u) > len(best)):
                best = u
        if best is None:
            return None
        fam = "length" if best in LENGTH_UNITS else "mass"
        if family is not None and fam != family:
            return None
        self.i += len(best)
        return best

    def part(self):
        save = self.i
        if self.peek() == "(":
            self.i += 1
            self.ws()
            try:
                m = self.mixture()
            except RefSyntaxError:
                m = None
            if m is not None:
                self.ws()
                if self.eat(")"):
                    dens = self.density() if self.peek() == "@" else None
                    return GroupedMixture(m, dens)
            self.i = save
        c = self.compound()
        if c is None:
            self.fail("expected a compound or a parenthesised mixture")
        return c

    def mixture(self):
        save = self.i
        for alt in (self.percentage, self.quantity):
            self.i = save
            try:
                m = alt()
            except RefSyntaxError:
                m = None
            if m is not None:
                return m
        self.i = save
        return None

    def percentage(self):
        c = self.count()
        if c is None:
            return None
        self.ws()
        kw = self.keyword((("wt", WEIGHT_KEYWORDS), ("vol", VOLUME_KEYWORDS)))
        if kw is None:
            return None
        kind = kw[0]
        self.ws()
        items = [(c, self.part())]
        while True:
            self.ws()
            if not self.eat("//"):
                self.fail("percentages without a base component")
            self.ws()
            save = self.i
            c = self.count()
            if c is not None:
                self.ws()
                if self.keyword(((kind, WEIGHT_KEYWORDS if kind == "wt" else VOLUME_KEYWORDS),)) \
                        or self.eat("%"):
                    self.ws()
                    items.append((c, self.part()))
                    continue
            self.i = save
            base = self.part()
            return Percentage(kind, items, base)

    def quantity(self, family=None):
        items = []
        while True:
            save = self.i
            if self.peek() == "(":
                self.i += 1
                self.ws()
                q = self.quantity(family)
                if q is None:
                    self.i = save
                    return None
                self.ws()
                if not self.eat(")"):
                    self.i = save
                    return None
                items.append(QRepeat(q, self.count()))
                family = q.family
            else:
                c = self.count()
                if c is None:
                    self.i = save
                    return None
                self.ws()
                u = self.unit(family)
                if u is None:
                    self.i = save
                    return None
                family = "length" if u in LENGTH_UNITS else "mass"
                self.ws()
                items.append(QItem(c, u, self.part()))
            save = self.i
            self.ws()
            if not self.eat("//"):
                self.i = save
                return Quantity(items)
            self.ws()

    def formula(self):
        self.ws()
        if self.i == len(self.s):
            return Empty()
        start = self.i
        outside = None
        for alt in (self.mixture, self.part):      # `part` is a parenthesised mixture or a compound
            self.i = start
            try:
                node = alt()
            except RefSyntaxError:
                node = None
            except RefOutside as exc:
                outside = exc
                node = None
            if node is not None:
                self.ws()
                if self.i == len(self.s):
                    return node
        if outside is not None:
            raise outside
        self.i = start
        self.fail("not a formula of the documented grammar")


def parse(s):
    """AST of the greedy reading of `s`, RefSyntaxError if `s` is not derivable, RefOutside if only
    through a documented ambiguity"""
    return _Parser(s).formula()


# ---------------------------------------------------------------------------------------------
# meaning
# ---------------------------------------------------------------------------------------------
class Meaning(object):
    """atoms {atom: count (float)}, charge, density|None, mass (sum count*atom.mass);
    mixtures: total_mass (g) / thickness (m) when the string states absolute amounts"""
    __slots__ = ("atoms", "charge", "density", "mass", "total_mass", "thickness", "mixture")

    def __init__(self, atoms, charge, density, mass, total_mass=None, thickness=None, mixture=False):
        self.atoms, self.charge, self.density, self.mass = atoms, charge, density, mass
        self.total_mass, self.thickness, self.mixture = total_mass, thickness, mixture

    def as_tuple(self):
        return (self.atoms, self.charge, self.density, self.total_mass, self.thickness)

    def scaled(self, k):
        return Meaning({a: n * k for a, n in self.atoms.items()}, self.charge * k, self.density,
                       self.mass * k, self.total_mass, self.thickness, self.mixture)

    def fractions(self):
        tot = sum(self.atoms.values())
        return {a: n / tot for a, n in self.atoms.items()} if tot else {}


def _core():
    from periodictable import core
    return core


def _electron_mass():
    from periodictable import constants
    return constants.electron_mass


def lookup_atom(table, symbol, isotope=None, charge=None):
    """the atom object of `table` named by symbol[isotope]{charge}; RefLookupError if undefined"""
    core = _core()
    if not SYMBOL_RE.fullmatch(symbol):
        raise RefLookupError("not a symbol: %r" % (symbol,))
    base = table.__dict__.get(symbol)
    if not isinstance(base, (core.Element, core.Isotope)):
        raise RefLookupError("unknown symbol %r" % (symbol,))
    atom = base
    if isotope is not None:
        if not isinstance(base, core.Element) or isotope not in base.isotopes:
            raise RefLookupError("%s has no isotope %r" % (symbol, isotope))
        atom = base[isotope]
    if charge is not None:
        if charge == 0 or charge not in base.ions:
            raise RefLookupError("%s has no ion of charge %r" % (symbol, charge))
        atom = atom.ion[charge]
    return atom


def _species(atom):
    """(element, isotope-or-element, charge)"""
    core = _core()
    q = 0
    base = atom
    if isinstance(atom, core.Ion):
        q = atom.charge
        base = atom.element
    el = base.element if isinstance(base, core.Isotope) else base
    return el, base, q


def atom_density(atom):
    """density of one atom species: the element density, for an isotope scaled by the mass ratio
    (same inter-atomic spacing); None when the element density is unknown"""
    el, base, _ = _species(atom)
    rho = el.density
    if rho is None:
        return None
    if base is not el:
        return rho * (base.mass / el.mass)
    return rho


def natural_mass(atom):
    """mass of the same species with the isotope replaced by the natural element (charge kept)"""
    el, _, q = _species(atom)
    return el.mass - q * _electron_mass()


def _apply_density_tag(tag, atoms):
    value = float(cval(tag[0]))
    if tag[1] == "n":
        nat = sum(n * natural_mass(a) for a, n in atoms.items())
        act = sum(n * a.mass for a, n in atoms.items())
        return value / (nat / act)
    return value


def _count_group(g, table, mult, acc):
    m = mult * (cval(g.count) if g.count is not None else 1)
    if g.explicit:
        for sub in g.items:
            _count_group(sub, table, m, acc)
    else:
        for e in g.items:
            a = lookup_atom(table, e.symbol, e.isotope, e.charge)
            n = m * (cval(e.count) if e.count is not None else 1)
            acc[a] = acc.get(a, Fraction(0)) + n


def _finish(atoms, density, **kw):
    charge = sum(n * getattr(a, "charge", 0) for a, n in atoms.items())
    mass = sum(n * a.mass for a, n in atoms.items())
    return Meaning(atoms, charge, density, mass, **kw)


def _meaning_compound(c, table):
    acc = {}
    for g in c.groups:
        _count_group(g, table, Fraction(1), acc)
    atoms = {a: float(n) for a, n in acc.items()}
    if c.density is not None:
        density = _apply_density_tag(c.density, atoms)
    elif len(atoms) == 1:
        density = atom_density(next(iter(atoms)))
    else:
        density = None
    return _finish(atoms, density)


def mix_meaning(parts, quantities, by, **kw):
    """documented mixing rule for component meanings `parts` with quantities (masses or volumes)"""
    pairs = [(p, float(q)) for p, q in zip(parts, quantities) if q > 0]
    atoms = {}
    if by == "weight":
        for p, q in pairs:
            for a, n in p.atoms.items():
                atoms[a] = atoms.get(a, 0.0) + n * (q / p.mass)
        if pairs and all(p.density for p, _ in pairs):
            density = sum(q for _, q in pairs) / sum(q / p.density for p, q in pairs)
        else:
            density = None
    else:
        for p, q in pairs:
            if not p.density:
                raise RefMixError("volume mixing needs the density of every component")
        for p, q in pairs:
            for a, n in p.atoms.items():
                atoms[a] = atoms.get(a, 0.0) + n * (q * p.density / p.mass)
        density = (sum(q * p.density for p, q in pairs) / sum(q for _, q in pairs)) if pairs else None
    return _finish(atoms, density, mixture=True, **kw)


def _quantity_amounts(q, table):
    parts, amounts = [], []
    fam = q.family
    for it in q.items:
        if isinstance(it, QRepeat):
            inner = _meaning_mixture(it.quantity, table)
            n = cval(it.count) if it.count is not None else Fraction(1)
            rec = inner.thickness if fam == "length" else inner.total_mass
            parts.append(inner)
            amounts.append(float(n) * rec)
        else:
            p = meaning(it.part, table)
            v = cval(it.amount)
            if it.unit in LENGTH_UNITS:
                amt = float(v * LENGTH_UNITS[it.unit])
            elif it.unit in MASS_UNITS:
                amt = float(v * MASS_UNITS[it.unit])
            else:
                if not p.density:
                    raise RefMixError("a volume needs the density of the material")
                amt = float(v * VOLUME_UNITS[it.unit] * 1000) * p.density
            parts.append(p)
            amounts.append(amt)
    return parts, amounts


def _meaning_mixture(m, table):
    if isinstance(m, Percentage):
        parts = [meaning(p, table) for _, p in m.items] + [meaning(m.base, table)]
        pcts = [cval(c) for c, _ in m.items]
        rest = 100 - sum(pcts)
        if rest < 0:
            raise RefMixError("percentages add to more than 100")
        return mix_meaning(parts, pcts + [rest], "weight" if m.kind == "wt" else "volume")
    parts, amounts = _quantity_amounts(m, table)
    total = sum(amounts)
    if not total > 0:
        raise RefMixError("no material")
    if m.family == "length":
        return mix_meaning(parts, amounts, "volume", thickness=total)
    return mix_meaning(parts, amounts, "weight", total_mass=total)


def meaning(ast, table):
    """Meaning of a derivation over the atoms of `table` (RefLookupError / RefMixError when the guide
    says the string cannot denote a formula)"""
    if isinstance(ast, Empty):
        return Meaning({}, 0, None, 0.0)
    if isinstance(ast, Compound):
        return _meaning_compound(ast, table)
    if isinstance(ast, Group):
        return _meaning_compound(Compound([ast]), table)
    if isinstance(ast, GroupedMixture):
        m = _meaning_mixture(ast.mixture, table)
        if ast.density is not None:
            m.density = _apply_density_tag(ast.density, m.atoms)
        return m
    return _meaning_mixture(ast, table)


# ---------------------------------------------------------------------------------------------
# comparison helpers
# ---------------------------------------------------------------------------------------------
def close(a, b, rel):
    if a is None or b is None:
        return a is None and b is None
    try:
        return abs(a - b) <= rel * max(abs(a), abs(b))
    except TypeError:
        return False


def atom_name(a):
    """grammar spelling of an atom object (for JSON output)"""
    el, base, q = _species(a)
    s = el.symbol
    if base is not el:
        s = base.__dict__.get("symbol") or "%s[%d]" % (el.symbol, base.isotope)
    if q:
        s += "{%s%s}" % (abs(q) if abs(q) != 1 else "", "+" if q > 0 else "-")
    return s


def atoms_json(atoms):
    return {atom_name(a): n for a, n in atoms.items()}


def compare_compound(f, m, rel=1e-12):
    """discrepancies [(clause, observed, expected)] between a Formula `f` and a compound Meaning `m`"""
    out = []
    got = f.atoms
    if set(got) != set(m.atoms) or any(not close(got[a], m.atoms[a], rel) for a in got):
        out.append(("atoms", atoms_json(got), atoms_json(m.atoms)))
    scale = sum(abs(n * getattr(a, "charge", 0)) for a, n in m.atoms.items())
    if abs(f.charge - m.charge) > rel * scale:
        out.append(("charge", f.charge, m.charge))
    if not close(f.density, m.density, rel):
        out.append(("density", f.density, m.density))
    return out


def compare_mixture(f, m, rel=1e-9):
    """mixtures are determined up to one overall scale of the counts: compare normalised composition,
    density and the recorded absolute amounts"""
    out = []
    got = f.atoms
    tot = sum(got.values())
    gfr = {a: n / tot for a, n in got.items()} if tot else {}
    efr = m.fractions()
    if set(gfr) != set(efr) or any(not close(gfr[a], efr[a], rel) for a in gfr):
        out.append(("composition", atoms_json(gfr), atoms_json(efr)))
    if not close(f.density, m.density, rel):
        out.append(("density", f.density, m.density))
    if m.total_mass is not None and not close(getattr(f, "total_mass", None), m.total_mass, rel):
        out.append(("total_mass", getattr(f, "total_mass", None), m.total_mass))
    if m.thickness is not None and not close(getattr(f, "thickness", None), m.thickness, rel):
        out.append(("thickness", getattr(f, "thickness", None), m.thickness))
    return out


# ---------------------------------------------------------------------------------------------
# leaves
# ---------------------------------------------------------------------------------------------
COUNT_POOL = [None, "1", "2", "10", "0.5", ".5", "1.", "1.25", "12.5"]
DENSITY_POOL = [None, ("7.8", ""), ("1", "n"), ("2.16", "i"), (".5", ""), ("2.", "n"), ("10", ""),
                ("0.997", "i"), None, ("1.112", ""), ("0.", ""), ("0.0", "n"), (".0", "i")]


class TableInfo(object):
    """what the table defines: symbols (Z >= 1, plus D and T), isotopes and ion charges per symbol"""

    def __init__(self, table):
        core = _core()
        self.symbols, self.ions, self.isotopes = [], {}, {}
        for Z in sorted(core.element_base):
            if Z == 0:
                continue
            sym = core.element_base[Z][1]
            self.symbols.append(sym)
            self.ions[sym] = sorted(core.element_base[Z][2] + core.element_base[Z][3])
            self.isotopes[sym] = list(getattr(table, sym).isotopes)
        for sym in ("D", "T"):
            self.symbols.append(sym)
            self.ions[sym] = list(self.ions["H"])
            self.isotopes[sym] = []
        self.no_density = [s for s in self.symbols if s not in ("D", "T")
                           and getattr(table, s).density is None and self.isotopes[s]]

    def atom_classes(self, full=False):
        """ordered list of Element templates: every symbol; isotopes; ions with |q| = 1 (both
        spellings) and |q| > 1; D, T and their ions; isotope + ion"""
        out = [Element(s) for s in self.symbols]
        iso_syms = self.symbols if full else \
            [s for s in ("H", "He", "Li", "B", "C", "O", "Si", "Cl", "Fe", "Ni", "Gd", "Pb", "U")] \
            + self.no_density[:1]
        for s in iso_syms:
            isos = self.isotopes[s]
            if not isos:
                continue
            pick = isos if full else sorted(set([isos[0], isos[len(isos) // 2], isos[-1]]))
            out += [Element(s, isotope=A) for A in pick]
        ion_syms = self.symbols if full else ["H", "Na", "Cl", "Fe", "O", "P", "C", "N", "Cu", "U", "Mn",
                                              "D", "T"]
        for s in ion_syms:
            for q in self.ions[s]:
                out.append(Element(s, charge=q))
                if abs(q) == 1:
                    out.append(Element(s, charge=q, one=True))
        both = [s for s in (self.symbols if full else ["H", "Fe", "O", "U", "Cl", "Li"])
                if self.isotopes[s] and self.ions[s]]
        for k, s in enumerate(both):
            isos, ions = self.isotopes[s], self.ions[s]
            out.append(Element(s, isotope=isos[k % len(isos)], charge=ions[k % len(ions)]))
            out.append(Element(s, isotope=isos[-1], charge=ions[-1]))
        return out


def copy_element(e, count=None):
    return Element(e.symbol, e.isotope, e.charge, count, e.one)


# ---------------------------------------------------------------------------------------------
# shapes
# ---------------------------------------------------------------------------------------------
_IMPLICIT = [("I", k, lead) for k in (1, 2) for lead in (False, True)]
_forest_cache = {}
_tree_cache = {}


def _trees(n, d):
    key = (n, d)
    if key not in _tree_cache:
        res = []
        if n == 1:
            res.extend(_IMPLICIT)
        elif d >= 1:
            for inner in _forests(n - 1, d - 1):
                for counted in (True, False):
                    res.append(("E", inner, counted))
        _tree_cache[key] = res
    return _tree_cache[key]


def _forests(n, d):
    """all ordered forests of exactly n group nodes with parenthesis nesting <= d"""
    key = (n, d)
    if key not in _forest_cache:
        if n == 0:
            res = [()]
        else:
            res = []
            for first in range(1, n + 1):
                for t in _trees(first, d):
                    for rest in _forests(n - first, d):
                        res.append((t,) + rest)
        _forest_cache[key] = res
    return _forest_cache[key]


def enumerate_shapes(depth, max_groups):
    """every derivation SHAPE of a compound with at most `max_groups` group nodes in total and
    parentheses nested at most `depth` deep.  A shape is a tuple of group shapes; a group shape is
    ('I', number of elements 1|2, leading count present) or ('E', inner shape, count present).
    Ordered by size, so a prefix of the enumeration is the set of the smallest shapes."""
    out = []
    for n in range(1, max_groups + 1):
        out.extend(_forests(n, depth))
    return out


def shape_count(depth, max_groups):
    return len(enumerate_shapes(depth, max_groups))


def fill_shape(shape, index, classes, density=True):
    """Compound for `shape`, leaves a pure function of `index`: atoms cycle through `classes`, counts
    through COUNT_POOL, the density tag through DENSITY_POOL"""
    ctr = [0]
    na, nc = len(classes), len(COUNT_POOL)

    def next_atom():
        j = ctr[0]
        ctr[0] += 1
        return classes[(index * 17 + j) % na], COUNT_POOL[(index * 5 + j * 2 + j // nc) % nc]

    def next_count(required):
        j = ctr[0]
        ctr[0] += 1
        c = COUNT_POOL[(index * 7 + j * 4) % nc]
        if required and c is None:
            c = COUNT_POOL[1 + (index + j) % (nc - 1)]
        return c

    def build(gs):
        if gs[0] == "I":
            items = []
            for _ in range(gs[1]):
                tmpl, c = next_atom()
                items.append(copy_element(tmpl, c))
            return Group(False, next_count(True) if gs[2] else None, items)
        inner = [build(sub) for sub in gs[1]]
        return Group(True, next_count(True) if gs[2] else None, inner)

    groups = [build(gs) for gs in shape]
    dens = DENSITY_POOL[index % len(DENSITY_POOL)] if density else None
    return Compound(groups, None, dens)


def random_count(rng, allow_none=True):
    r = rng.random()
    if allow_none and r < 0.3:
        return None
    if r < 0.55:
        return rng.choice(COUNT_POOL[1:])
    if r < 0.75:
        return str(rng.randint(1, 999))
    ip = rng.choice(["", "0", str(rng.randint(1, 99))])
    fp = "".join(rng.choice("0123456789") for _ in range(rng.randint(0 if ip not in ("", "0") else 1, 4)))
    text = ip + "." + fp
    if cval(text) == 0:
        text = ip + "." + fp + str(rng.randint(1, 9))
    return text


def random_element(rng, info):
    s = rng.choice(info.symbols)
    e = Element(s)
    r = rng.random()
    if r < 0.25 and info.isotopes[s]:
        e.isotope = rng.choice(info.isotopes[s])
    r = rng.random()
    if r < 0.25 and info.ions[s]:
        e.charge = rng.choice(info.ions[s])
        e.one = abs(e.charge) == 1 and rng.random() < 0.5
    e.count = random_count(rng)
    return e


def random_derivation(rng, depth, info, max_groups=4, density=True):
    """a random compound derivation (hypothesis-style sampling of the grammar)"""
    def group(d):
        if d > 0 and rng.random() < 0.4:
            n = rng.randint(1, 3)
            inner = [group(d - 1) for _ in range(n)]
            seps = [rng.choice(SEPARATORS) for _ in range(n - 1)]
            return Group(True, random_count(rng), inner, seps)
        items = [random_element(rng, info) for _ in range(rng.randint(1, 3))]
        return Group(False, random_count(rng) if rng.random() < 0.4 else None, items)

    n = rng.randint(1, max_groups)
    groups = [group(depth) for _ in range(n)]
    seps = [rng.choice(SEPARATORS) for _ in range(n - 1)]
    dens = None
    if density and rng.random() < 0.5:
        dens = (random_count(rng, allow_none=False), rng.choice(["", "n", "i"]))
    return Compound(groups, seps, dens)


# ---------------------------------------------------------------------------------------------
# mixtures (C11 / C13)
# ---------------------------------------------------------------------------------------------
def simple_compound(text):
    """Compound AST of a plain formula text (through the reference recogniser)"""
    ast = parse(text)
    if not isinstance(ast, Compound):
        raise ValueError(text)
    return ast


PARTS_WITH_DENSITY = ["Fe", "Ni", "Si", "Cr", "Au", "Co", "Cu", "Al", "NaCl@2.16", "H2O@1", "D2O@1n",
                      "SiO2@2.2", "CaCO3@2.71", "2H2O@1", "C2H6O@.789", "D2O@1.112i", "Fe[56]",
                      "Na{+}Cl{-}@2.16", "(CH2)8@0.92", "HO((CH2)2O)6H@1.12"]
PARTS_WITHOUT_DENSITY = ["NaCl", "H2O", "C6H12O6", "CaCO3+6H2O", "D2O", "Fe2O3"]


def plain_decimal(d, e, lead0=True):
    """d * 10**e in plain decimal notation (never an exponent)"""
    if e >= 0:
        return str(d * 10 ** e)
    digits = str(d).rjust(-e + 1, "0")
    ip, fp = digits[:e].lstrip("0"), digits[e:].rstrip("0")
    if not fp:
        return ip or "1"
    return (ip or ("0" if lead0 else "")) + "." + fp


def random_amount(rng, wide=True):
    """a count spelling spanning many orders of magnitude (plain decimal notation)"""
    r = rng.random()
    if r < 0.35:
        return rng.choice(["1", "2", "5", "10", "50", "100", "0.5", ".5", "1.", "1.25", "12.5"])
    if not wide or r < 0.6:
        return str(rng.randint(1, 999))
    return plain_decimal(rng.randint(1, 999), rng.randint(-6, 6), rng.random() < 0.7)


def force_seps(node, sep):
    """write every separator of a compound as `sep` (in place); used where the white-space readings that
    C01 reports on ("2A B", "(A) 2B") must not influence another property's check"""
    if isinstance(node, Compound):
        node.seps = [sep] * (len(node.groups) - 1)
        for g in node.groups:
            force_seps(g, sep)
    elif isinstance(node, Group) and node.explicit:
        node.seps = [sep] * (len(node.items) - 1)
        for g in node.items:
            force_seps(g, sep)
    return node


def random_part(rng, depth, need_density=False, p_missing=0.0, info=None):
    r = rng.random()
    if depth > 0 and r < 0.3:
        mix = random_mixture(rng, depth - 1, info=info, need_density=need_density, p_missing=p_missing)
        dens = None
        if rng.random() < 0.3:
            dens = (rng.choice(["1.5", "2", ".9", "3.25"]), rng.choice(["", "n", "i"]))
        return GroupedMixture(mix, dens)
    if need_density and rng.random() >= p_missing:
        return simple_compound(rng.choice(PARTS_WITH_DENSITY))
    if info is not None and rng.random() < 0.3:
        c = force_seps(random_derivation(rng, 1, info, max_groups=2, density=False), rng.choice(["+", " + "]))
        if need_density or rng.random() < 0.5:
            c.density = (rng.choice(["1.5", "2", ".9", "3.25", "7."]), rng.choice(["", "n", "i"]))
        return c
    return simple_compound(rng.choice(PARTS_WITH_DENSITY + PARTS_WITHOUT_DENSITY))


def random_mixture(rng, depth, info=None, need_density=False, p_missing=0.05, kind=None):
    """a random mixture derivation with nesting <= depth; `need_density`: the result must have a
    density (so that it can be a component of a volume mixture)"""
    kinds = ["wt", "vol", "mass", "length"]
    kind = kind or rng.choice(kinds)
    if kind in ("wt", "vol"):
        n = rng.randint(1, 3)
        nd = need_density or kind == "vol"
        pm = p_missing if kind == "vol" else 0.0
        items = []
        budget = Fraction(100)
        for i in range(n):
            r = rng.random()
            if r < 0.06:
                pct = rng.choice(["0.0", ".0", "0."])
            elif r < 0.5:
                pct = rng.choice(["1", "2", "5", "10", "20", "25", "33.3", ".5", "0.01", "12.5", "1."])
            else:
                pct = random_amount(rng, wide=False)
                while cval(pct) > 100:
                    pct = str(int(cval(pct)) // 10 or 1)
            if cval(pct) > budget and rng.random() < 0.9:
                pct = "%d" % max(1, int(budget) // 2) if budget >= 2 else "0.5"
            budget -= cval(pct)
            items.append((pct, random_part(rng, depth, nd, pm, info)))
        if budget == 0 and len(items) == 1 and cval(items[0][0]) == 0:
            items[0] = ("10", items[0][1])
        return Percentage(kind, items, random_part(rng, depth, nd, pm, info))
    if kind == "mass":
        n = rng.randint(1, 4)
        items = []
        for i in range(n):
            if depth > 0 and rng.random() < 0.2:
                inner = random_mixture(rng, depth - 1, info, need_density, p_missing, kind="mass")
                items.append(QRepeat(inner, rng.choice([None, "2", "3", "10", "1.5", ".5"])))
                continue
            unit = rng.choice(list(MASS_UNITS) + list(VOLUME_UNITS))
            nd = need_density or unit in VOLUME_UNITS
            pm = p_missing if unit in VOLUME_UNITS else 0.0
            amt = random_amount(rng)
            if rng.random() < 0.04 and n > 1 and i > 0:
                amt = rng.choice(["0.0", ".0", "0."])
            items.append(QItem(amt, unit, random_part(rng, depth, nd, pm, info)))
        return Quantity(items)
    n = rng.randint(1, 4)
    items = []
    for i in range(n):
        if depth > 0 and rng.random() < 0.2:
            inner = random_mixture(rng, depth - 1, info, True, p_missing, kind="length")
            items.append(QRepeat(inner, rng.choice([None, "2", "3", "10", "1.5", ".5"])))
            continue
        amt = random_amount(rng)
        if rng.random() < 0.04 and n > 1 and i > 0:
            amt = rng.choice(["0.0", ".0", "0."])
        items.append(QItem(amt, rng.choice(list(LENGTH_UNITS)), random_part(rng, depth, True, p_missing, info)))
    return Quantity(items)


def mixture_depth(ast):
    if isinstance(ast, GroupedMixture):
        return 1 + mixture_depth(ast.mixture)
    if isinstance(ast, Percentage):
        return max(mixture_depth(p) for p in [q for _, q in ast.items] + [ast.base])
    if isinstance(ast, Quantity):
        return max((1 + mixture_depth(it.quantity)) if isinstance(it, QRepeat) else mixture_depth(it.part)
                   for it in ast.items)
    return 0


# ---------------------------------------------------------------------------------------------
# malformations
# ---------------------------------------------------------------------------------------------
UNKNOWN_SYMBOLS = ["Xx", "Zz", "J", "Q", "A", "fe", "n", "Fee", "Hx"]
BAD_COUNTS = [("1.2.3", "two_points"), ("1e3", "exponent"), ("-2", "negative"), ("0", "zero"),
              ("02", "leading_zero")]
BAD_ISOTOPE_TAGS = [("[0]", "zero"), ("[05]", "leading_zero"), ("[5.5]", "decimal"), ("[]", "empty")]
BAD_ION_TAGS = [("{0+}", "zero"), ("{+2}", "sign_first"), ("{2}", "no_sign"), ("{}", "empty"),
                ("{++}", "two_signs")]
BAD_DENSITY_TAGS = [("@", "missing_number"), ("@n", "missing_number"), ("@i", "missing_number"),
                    ("@x", "not_a_number"), ("@1q", "bad_suffix"), ("@-1", "negative"),
                    ("@0", "zero_without_point"), ("@1.2.3", "two_points")]


def _join(toks):
    return "".join(t[1] for t in toks)


def _replace(toks, i, text, tag=None):
    t = list(toks)
    t[i] = (tag or t[i][0], text, t[i][2])
    return t


def _insert(toks, i, tag, text):
    t = list(toks)
    t.insert(i, (tag, text, None))
    return t


def _ends_count_safely(toks, i):
    """True if the token after position i cannot continue a count text: end, ')', non-empty
    separator, white space or a density tag"""
    if i + 1 >= len(toks):
        return True
    tag, text, _ = toks[i + 1]
    return tag in ("close", "dens", "ws") or (tag == "sep" and text != "")


def malformations(ast, info, style=None, rng=None):
    """[(kind, cause, string)]: every single malformation of the fixed list applicable to the compound
    derivation `ast`: unknown_symbol, undefined_isotope, undefined_charge, unbalanced, malformed_count,
    malformed_isotope, malformed_ion, malformed_density.  Each string is underivable whatever the
    reading of the documented ambiguities (see the comments at each rule)."""
    rng = rng or random.Random(0)
    toks = tokens(ast, style)
    out = []
    idx = {}
    for i, t in enumerate(toks):
        idx.setdefault(t[0], []).append(i)

    def pick(tag):
        return rng.choice(idx[tag]) if idx.get(tag) else None

    # unknown symbol: a name the table does not define, or a lower-case start
    for bad in UNKNOWN_SYMBOLS:
        cands = idx.get("sym", [])
        if bad[0].islower():
            # a lower-case text directly after another symbol would extend it ("C"+"n" = "Cn")
            cands = [j for j in cands if j == 0 or toks[j - 1][0] != "sym"]
        if not cands:
            continue
        j = rng.choice(cands)
        cause = "lower_case_start" if bad[0].islower() else ("three_letters" if len(bad) > 2 else "not_in_table")
        out.append(("unknown_symbol", cause, _join(_replace(toks, j, bad))))

    # undefined isotope / charge: well-formed tag, value not in the table
    syms = idx.get("sym", [])
    for _ in range(2):
        j = rng.choice(syms)
        e = toks[j][2]
        isos = info.isotopes.get(e.symbol, [])
        cands = [A for A in (1, 2, 3, 5, 9, 50, 100, 150, 250, 400, (isos[-1] + 40) if isos else 7)
                 if A not in isos]
        A = rng.choice(cands)
        cause = "isotope_of_D_or_T" if e.symbol in ("D", "T") else "not_an_isotope"
        if j + 1 < len(toks) and toks[j + 1][0] == "iso":
            s = _join(_replace(toks, j + 1, "[%d]" % A))
        else:
            s = _join(_insert(toks, j + 1, "iso", "[%d]" % A))
        out.append(("undefined_isotope", cause, s))
    for _ in range(2):
        j = rng.choice(syms)
        e = toks[j][2]
        ions = info.ions.get(e.symbol, [])
        q = rng.choice([q for q in list(range(-9, 0)) + list(range(1, 13)) if q not in ions])
        txt = "{%s%s}" % (abs(q) if abs(q) != 1 or rng.random() < 0.5 else "", "+" if q > 0 else "-")
        k = j + 1
        if k < len(toks) and toks[k][0] == "iso":
            k += 1
        if k < len(toks) and toks[k][0] == "ion":
            s = _join(_replace(toks, k, txt))
        else:
            s = _join(_insert(toks, k, "ion", txt))
        out.append(("undefined_charge", "not_an_ion", s))

    # unbalanced brackets: bracket counts differ, so no reading can accept
    j = pick("open")
    if j is not None:
        out.append(("unbalanced", "missing_open_paren", _join(_replace(toks, j, ""))))
        j = pick("close")
        out.append(("unbalanced", "missing_close_paren", _join(_replace(toks, j, ""))))
    k = rng.randint(0, len(toks))
    out.append(("unbalanced", "extra_close_paren", _join(_insert(toks, k, "x", ")"))))
    out.append(("unbalanced", "extra_close_paren", _join(toks) + ")"))
    k = rng.choice([i for i, t in enumerate(toks) if t[0] in ("sym", "open", "lcount")])
    out.append(("unbalanced", "extra_open_paren", _join(_insert(toks, k, "x", "("))))
    j = pick("iso")
    if j is not None:
        out.append(("unbalanced", "missing_close_square", _join(_replace(toks, j, toks[j][1][:-1]))))
        out.append(("unbalanced", "missing_open_square", _join(_replace(toks, j, toks[j][1][1:]))))
    j = pick("ion")
    if j is not None:
        out.append(("unbalanced", "missing_close_brace", _join(_replace(toks, j, toks[j][1][:-1]))))
        out.append(("unbalanced", "missing_open_brace", _join(_replace(toks, j, toks[j][1][1:]))))

    # malformed counts.  After an atom or ')' the bad text replaces/adds the count; it is only
    # placed where the next token cannot continue it ("Fe1.2.3O" would be "Fe1.2" ".3O").
    for bad, cause in BAD_COUNTS:
        cands = []
        for i, t in enumerate(toks):
            if t[0] in ("ecount", "gcount") and _ends_count_safely(toks, i):
                cands.append(("r", i))
            elif t[0] in ("sym", "iso", "ion", "close") and _ends_count_safely(toks, i) \
                    and not (i + 1 < len(toks) and toks[i + 1][0] in ("iso", "ion", "ecount", "gcount")):
                cands.append(("i", i + 1))
        if cands:
            how, i = rng.choice(cands)
            s = _join(_replace(toks, i, bad)) if how == "r" else _join(_insert(toks, i, "ecount", bad))
            out.append(("malformed_count", "after_atom_or_group:" + cause, s))
        # leading count of an implicit group (preceded by start, '(' or a non-empty separator)
        cands = []
        for i, t in enumerate(toks):
            if t[0] == "lcount":
                cands.append(("r", i))
            elif t[0] == "sym" and (i == 0 or toks[i - 1][0] in ("open", "ws")
                                    or (toks[i - 1][0] == "sep" and toks[i - 1][1] != "")):
                cands.append(("i", i))
        if cands:
            how, i = rng.choice(cands)
            s = _join(_replace(toks, i, bad)) if how == "r" else _join(_insert(toks, i, "lcount", bad))
            out.append(("malformed_count", "leading:" + cause, s))

    # malformed isotope / ion tags (replace the tag or add one after the symbol)
    for bad, cause in BAD_ISOTOPE_TAGS:
        j = rng.choice(syms)
        if j + 1 < len(toks) and toks[j + 1][0] == "iso":
            s = _join(_replace(toks, j + 1, bad))
        else:
            s = _join(_insert(toks, j + 1, "iso", bad))
        out.append(("malformed_isotope", cause, s))
    for bad, cause in BAD_ION_TAGS:
        j = rng.choice(syms)
        k = j + 1
        if k < len(toks) and toks[k][0] == "iso":
            k += 1
        if k < len(toks) and toks[k][0] == "ion":
            s = _join(_replace(toks, k, bad))
        else:
            s = _join(_insert(toks, k, "ion", bad))
        out.append(("malformed_ion", cause, s))

    # malformed density tag at the end of the compound
    body = toks[:-1] if toks and toks[-1][0] == "dens" else toks
    for bad, cause in BAD_DENSITY_TAGS:
        out.append(("malformed_density", cause, _join(body) + bad))
    return out


def reference_rejects(s, table):
    """True if the reference reading rejects `s` (syntax or lookup); None if outside the quantifier"""
    try:
        meaning(parse(s), table)
    except RefOutside:
        return None
    except RefError:
        return True
    return False
