"""C06 native checks: masses, abundances and densities are the embedded table entries.

Tasks (protocol: /verif/runner/README.md)

    eval_tables             exhaustive; public + fresh private table against an independent reader
    density_algebra         exhaustive; isotope density scaling, number density, interatomic distance
    parse_uncertainty_cells every numeric table cell (exhaustive) + seeded synthetic strings (bounded)
    replay                  re-run one violation's input

Independence of the oracle.  Expected values are never taken from the library's loaders:

* the raw tables are the string / dict literals found in the *source text* of
  ``periodictable/mass.py``, ``density.py``, ``constants.py`` (and ``nsf.py`` for the cell task),
  located with ``ast``;
* rows are split here from the column layout documented in the comments next to each table;
* numbers are read by ``read_number`` below, a ``decimal.Decimal`` reader written from the
  ``parse_uncertainty`` docstring (``val``, ``val(unc)``, ``[nominal]``, ``[low,high]``, empty).

The library module attributes are only used to cross-check that the literal extracted from the
source text is the object the module really carries (reported in ``notes`` if not).
"""
import ast
import io
import math
import os
import random
import re
import sys
import tokenize
from decimal import Decimal, localcontext

REPO = os.environ.get("VERIF_REPO", "/repo")
MAX_VIOLATIONS = 60
PER_FAMILY_FIRST_PASS = 10


# ---------------------------------------------------------------------------------------------
# Independent reader: number notations
# ---------------------------------------------------------------------------------------------

class CellError(ValueError):
    """The cell is not in any of the documented notations."""


_NUM = r"[-+]?(?:\d+\.?\d*|\.\d+)"
_RE_PLAIN = re.compile(r"^(%s(?:[eE][-+]?\d+)?)$" % _NUM)
_RE_VALUNC = re.compile(r"^(%s)\((\d+|\d+\.\d*|\.\d+)\)#?$" % _NUM)
_RE_NOMINAL = re.compile(r"^\[\s*(%s)\s*\]$" % _NUM)
_RE_RANGE = re.compile(r"^\[\s*(%s)\s*,\s*(%s)\s*\]$" % (_NUM, _NUM))
_PREC = 60


def read_number(cell):
    """Return (value, unc, form) with Decimal value/unc (None, None for an empty cell).

    val(unc): the digits of unc are aligned to the last digits of val (23.0035(12) -> 0.0012,
    23(1) -> 1) unless unc carries its own decimal point (23.0(1.0), 207.2(1.1)).  A trailing '#'
    (AME "not purely experimental" marker) is allowed after val(unc) only, as documented next to
    isotope_mass and in parse_uncertainty.  [x] -> (x, 0).  [lo,hi] -> midpoint and
    (hi-lo)/sqrt(12).  Bare value -> (x, 0).
    """
    s = cell.strip()
    if s == "":
        return None, None, "empty"
    with localcontext() as ctx:
        ctx.prec = _PREC
        m = _RE_VALUNC.match(s)
        if m:
            value_s, unc_s = m.group(1), m.group(2)
            value = Decimal(value_s)
            if "." in unc_s:
                unc = Decimal(unc_s)
            else:
                ndec = len(value_s.split(".")[1]) if "." in value_s else 0
                unc = Decimal(int(unc_s)).scaleb(-ndec)
            return value, unc, "value_unc"
        m = _RE_RANGE.match(s)
        if m:
            lo, hi = Decimal(m.group(1)), Decimal(m.group(2))
            return (lo + hi) / 2, (hi - lo) / Decimal(12).sqrt(), "range"
        m = _RE_NOMINAL.match(s)
        if m:
            return Decimal(m.group(1)), Decimal(0), "nominal"
        m = _RE_PLAIN.match(s)
        if m:
            return Decimal(m.group(1)), Decimal(0), "plain"
    raise CellError("cell %r is in none of the documented notations" % cell)


def _f(x):
    """Decimal|None -> correctly rounded float|None."""
    return None if x is None else float(x)


# ---------------------------------------------------------------------------------------------
# Independent reader: tables out of the module source text
# ---------------------------------------------------------------------------------------------

def _parse_module(name):
    path = os.path.join(REPO, "periodictable", name + ".py")
    with open(path, "rb") as fh:
        raw = fh.read()
    return ast.parse(raw, filename=path), raw, path


def _decode(raw):
    """Source bytes -> text, honouring the PEP 263 coding cookie (mass.py is iso-8859-15)."""
    encoding, _ = tokenize.detect_encoding(io.BytesIO(raw).readline)
    return raw.decode(encoding)


def _top_level_assignments(tree):
    out = {}
    for node in tree.body:
        if isinstance(node, ast.Assign) and len(node.targets) == 1 \
                and isinstance(node.targets[0], ast.Name):
            out[node.targets[0].id] = node.value
    return out


def _string_table(assigns, name):
    node = assigns.get(name)
    if not (isinstance(node, ast.Constant) and isinstance(node.value, str)):
        raise CellError("no string literal %r in module source" % name)
    return node.value


def _read_isotope_mass(text):
    """Rows ``z-El-A,isotope mass(unc)#?,abundance(unc),element mass(unc)`` (comment in mass.init)."""
    rows = []
    for lineno, line in enumerate(text.split("\n")):
        fields = line.split(",")
        if len(fields) != 4:
            raise CellError("isotope_mass row %d %r: expected 4 comma separated fields" % (lineno, line))
        zs, sym, a = fields[0].split("-")
        rows.append({"Z": int(zs), "sym": sym, "A": int(a),
                     "mass": fields[1], "old_abundance": fields[2], "avg": fields[3]})
    return rows


def _read_element_mass(text):
    """Rows ``Z  Symbol  Element  weight(unc)|[low,high]|-  notes...`` (header comment of the table)."""
    rows = []
    for lineno, line in enumerate(text.split("\n")):
        fields = line.split()
        if len(fields) < 4:
            raise CellError("element_mass row %d %r: expected at least 4 fields" % (lineno, line))
        rows.append({"Z": int(fields[0]), "sym": fields[1], "name": fields[2],
                     "value": fields[3], "extra": fields[4:]})
    return rows


def _read_isotope_abundance(text):
    """``Z El element`` header lines followed by indented ``A composition notes...`` lines."""
    blocks = []
    for lineno, line in enumerate(text.split("\n")):
        if line.strip() == "":
            raise CellError("isotope_abundance row %d is blank" % lineno)
        fields = line.split()
        if line[0] not in " \t":
            blocks.append({"Z": int(fields[0]), "sym": fields[1], "name": " ".join(fields[2:]),
                           "isotopes": []})
        else:
            if not blocks:
                raise CellError("isotope_abundance starts with an isotope line %r" % line)
            blocks[-1]["isotopes"].append({"A": int(fields[0]), "value": fields[1],
                                           "extra": fields[2:]})
    return blocks


def _read_density_table(tree, raw):
    """``element_densities = dict(Sym=number | (number, caveat) | None, ...)`` in density.py."""
    node = _top_level_assignments(tree).get("element_densities")
    if not (isinstance(node, ast.Call) and isinstance(node.func, ast.Name)
            and node.func.id == "dict" and not node.args):
        raise CellError("element_densities is not a dict(sym=...) literal")
    text = _decode(raw)
    out = {}
    order = []
    for kw in node.keywords:
        v = kw.value
        if isinstance(v, ast.Tuple):
            num_node, caveat = v.elts[0], ast.literal_eval(v.elts[1])
            kind = "caveat"
        elif isinstance(v, ast.Constant) and v.value is None:
            num_node, caveat, kind = None, None, "none"
        else:
            num_node, caveat, kind = v, "", "plain"
        if num_node is None:
            rho = None
        else:
            seg = ast.get_source_segment(text, num_node)
            rho = float(Decimal(seg))          # the literal's digits, not the evaluated object
        if kw.arg in out:
            raise CellError("element_densities lists %s twice" % kw.arg)
        out[kw.arg] = {"density": rho, "caveat": caveat, "kind": kind}
        order.append(kw.arg)
    return out, order


def _read_constants():
    tree, raw, _ = _parse_module("constants")
    text = _decode(raw)
    assigns = _top_level_assignments(tree)
    out = {}
    for name in ("avogadro_number", "neutron_mass", "neutron_mass_unc"):
        out[name] = float(Decimal(ast.get_source_segment(text, assigns[name])))
    return out


class Expected(object):
    """Everything the embedded tables say, as read by the independent reader."""

    def __init__(self):
        self.notes = []
        tree, _, _ = _parse_module("mass")
        assigns = _top_level_assignments(tree)
        self.raw = {name: _string_table(assigns, name)
                    for name in ("isotope_mass", "element_mass", "isotope_abundance")}
        self.mass_rows = _read_isotope_mass(self.raw["isotope_mass"])
        self.element_rows = _read_element_mass(self.raw["element_mass"])
        self.abundance_blocks = _read_isotope_abundance(self.raw["isotope_abundance"])
        dtree, draw, _ = _parse_module("density")
        self.density, self.density_order = _read_density_table(dtree, draw)
        self.constants = _read_constants()
        self._build()

    def _build(self):
        notes = self.notes
        # --- isotope masses; "old" atomic weight column -------------------------------------
        self.symbol = {0: "n"}            # Z -> symbol according to the tables
        self.iso_mass = {}                # (Z, A) -> (value, unc) floats
        self.iso_cell = {}                # (Z, A) -> raw cell
        old_weight = {}                   # Z -> set of raw "element mass" cells
        for r in self.mass_rows:
            key = (r["Z"], r["A"])
            if key in self.iso_mass:
                notes.append("isotope_mass lists %d-%s-%d more than once" % (r["Z"], r["sym"], r["A"]))
            if self.symbol.setdefault(r["Z"], r["sym"]) != r["sym"]:
                notes.append("isotope_mass uses two symbols for Z=%d" % r["Z"])
            v, u, _ = read_number(r["mass"])
            self.iso_mass[key] = (_f(v), _f(u))
            self.iso_cell[key] = r["mass"]
            old_weight.setdefault(r["Z"], []).append(r["avg"])
        # the neutron: constants.py (mass.py docstring: neutron mass from AME2020)
        self.iso_mass[(0, 1)] = (self.constants["neutron_mass"], self.constants["neutron_mass_unc"])
        self.iso_cell[(0, 1)] = "constants.neutron_mass"
        # --- element masses -----------------------------------------------------------------
        self.el_mass = {}                 # Z -> (value, unc, source)
        for z, cells in old_weight.items():
            if len(set(cells)) != 1:
                notes.append("isotope_mass: element-mass column not constant for Z=%d: %s"
                             % (z, sorted(set(cells))))
            v, u, _ = read_number(cells[-1])
            self.el_mass[z] = (_f(v), _f(u), "isotope_mass column 4 %r" % cells[-1])
        self.has_weight = set()           # Z listed with a value in the atomic-weight table
        for r in self.element_rows:
            if self.symbol.get(r["Z"], r["sym"]) != r["sym"]:
                notes.append("element_mass symbol %s disagrees with isotope_mass for Z=%d"
                             % (r["sym"], r["Z"]))
            if r["value"] == "-":
                continue
            v, u, _ = read_number(r["value"])
            self.el_mass[r["Z"]] = (_f(v), _f(u), "element_mass %r" % r["value"])
            self.has_weight.add(r["Z"])
        self.el_mass[0] = (self.constants["neutron_mass"], self.constants["neutron_mass_unc"],
                           "constants.neutron_mass")
        # --- isotopic composition, normalised to 100 % per element ---------------------------
        self.abundance = {}               # Z -> {A: (percent, percent_unc, raw cell)}
        self.abundance_raw_total = {}     # Z -> Decimal sum of the fractions as tabulated
        for b in self.abundance_blocks:
            if b["Z"] in self.abundance:
                notes.append("isotope_abundance lists Z=%d twice" % b["Z"])
            if self.symbol.get(b["Z"], b["sym"]) != b["sym"]:
                notes.append("isotope_abundance symbol %s disagrees for Z=%d" % (b["sym"], b["Z"]))
            vals = {}
            for iso in b["isotopes"]:
                v, u, _ = read_number(iso["value"])
                if iso["A"] in vals:
                    notes.append("isotope_abundance lists %d-%s-%d twice" % (b["Z"], b["sym"], iso["A"]))
                vals[iso["A"]] = (v, u, iso["value"])
            with localcontext() as ctx:
                ctx.prec = _PREC
                total = sum((v for v, _, _ in vals.values()), Decimal(0))
                self.abundance_raw_total[b["Z"]] = total
                self.abundance[b["Z"]] = {
                    a: (_f(100 * v / total), _f(100 * u / total), cell)
                    for a, (v, u, cell) in vals.items()} if total != 0 else {}
            if not vals:
                notes.append("isotope_abundance block for Z=%d has no isotopes" % b["Z"])
        renorm = sorted(z for z, t in self.abundance_raw_total.items() if t != 1)
        if renorm:
            notes.append("composition fractions as tabulated do not sum to exactly 1 for Z in %s "
                         "(loader documents renormalisation)" % renorm)

    # cross-check of the extraction only (not an oracle)
    def crosscheck_with_modules(self):
        try:
            import periodictable.mass as pm
            import periodictable.density as pd
        except Exception as exc:                                   # pragma: no cover
            self.notes.append("cannot import library modules for literal cross-check: %r" % (exc,))
            return
        for name, text in self.raw.items():
            if getattr(pm, name, None) != text:
                self.notes.append("source literal %s differs from module attribute mass.%s" % (name, name))
        mod = getattr(pd, "element_densities", None)
        mine = {k: (None if v["kind"] == "none" else
                    (v["density"], v["caveat"]) if v["kind"] == "caveat" else v["density"])
                for k, v in self.density.items()}
        if mod != mine:
            self.notes.append("source literal element_densities differs from module attribute")


# ---------------------------------------------------------------------------------------------
# Access to the code under test
# ---------------------------------------------------------------------------------------------

def _get(obj, attr):
    """('ok', value) or ('raise', 'Type: message')."""
    try:
        return "ok", getattr(obj, attr)
    except Exception as exc:
        return "raise", "%s: %s" % (type(exc).__name__, exc)


def _is_number(x):
    return isinstance(x, (int, float)) and not isinstance(x, bool)


def _close(a, b, rel):
    if not (_is_number(a) and _is_number(b)):
        return False
    if a == b:
        return True
    if math.isnan(a) or math.isnan(b) or math.isinf(a) or math.isinf(b):
        return False
    return abs(a - b) <= rel * max(abs(a), abs(b))


def _exact(a, b):
    """Equality of served value with the table entry (None only equals None)."""
    if a is None or b is None:
        return a is None and b is None
    return _is_number(a) and _is_number(b) and a == b


_private_counter = [0]


def _tables(seed, which=("public", "private")):
    """Return {'public': table, 'private': table} (public touched first)."""
    import periodictable
    import periodictable.core as core
    import periodictable.mass as pmass
    import periodictable.density as pdensity
    out = {}
    if "public" in which:
        out["public"] = periodictable.elements
    if "private" in which:
        rng = random.Random("c06priv/%r/%d" % (seed, _private_counter[0]))
        _private_counter[0] += 1
        while True:
            name = "c06priv%08x" % rng.getrandbits(32)
            if name not in core.PRIVATE_TABLES:
                break
        t = core.PeriodicTable(name)
        pmass.init(t)
        pdensity.init(t)
        out["private"] = t
    return out


def _atom_id(z, sym, a=None):
    return "%d-%s" % (z, sym) if a is None else "%d-%s-%d" % (z, sym, a)


def _result(evaluations, distinct, rule, exhaustive, samples, violations, notes, counts=None):
    notes = list(notes)
    if counts:
        notes.append("violations per family (uncapped): " +
                     ", ".join("%s=%d" % kv for kv in sorted(counts.items())))
    if len(violations) > MAX_VIOLATIONS:
        notes.append("violation list capped at %d of %d" % (MAX_VIOLATIONS, len(violations)))
    return {"evaluations": evaluations, "distinct": distinct, "rule": rule,
            "exhaustive": exhaustive, "samples": samples[:5],
            "violations": _cap(violations), "notes": notes}


def _family(key):
    return ":".join(key.split(":")[:2])


def _cap(violations):
    """At most MAX_VIOLATIONS, stable; every family gets its first few entries before any
    family gets more, so a flood in one clause cannot hide another clause."""
    if len(violations) <= MAX_VIOLATIONS:
        return violations
    seen = {}
    first, rest = [], []
    for i, v in enumerate(violations):
        fam = _family(v["key"])
        seen[fam] = seen.get(fam, 0) + 1
        (first if seen[fam] <= PER_FAMILY_FIRST_PASS else rest).append(i)
    keep = sorted((first + rest)[:MAX_VIOLATIONS])
    return [violations[i] for i in keep]


# ---------------------------------------------------------------------------------------------
# Task 1: eval_tables
# ---------------------------------------------------------------------------------------------

ABUNDANCE_REL = 1e-12
SUM_ABS = 1e-9
WEIGHT_SLACK_REL = 1e-12

EVAL_RULE = (
    "Exhaustive over {public table, one fresh private table (PeriodicTable + mass.init + density.init)} "
    "x every element of the table and every row of isotope_mass / element_mass / isotope_abundance / "
    "element_densities (read from module source via ast with an independent Decimal reader) "
    "x fields. One evaluation = one (table, atom, field) comparison. Fields: symbol (table[Z].symbol vs row), "
    "isotope mass,_mass_unc (exact float equality with float(Decimal cell)); element mass,_mass_unc "
    "(exact; atomic-weight table value, else column 4 of isotope_mass as mass.init documents, neutron from "
    "constants.py); abundance,_abundance_unc (100*x/sum(x) per element, rel 1e-12 because the loader "
    "normalises in floats; isotopes not in the composition table must be exactly 0, including n-1); "
    "abundance_sum (|sum-100|<=1e-9 for each element listed in the composition table); weighted_mass "
    "(|sum(p_i m_i)/100 - M| <= max(unc(M), 1e-12*|M|) using the served values, for composition-table "
    "elements that have an atomic weight; the 1e-12*|M| slack only absorbs float rounding of a <=10 term "
    "sum (~1e-15 relative) and is >100x below the smallest stated uncertainty 5e-9); density "
    "(exact vs element_densities literal; None stays None), density_caveat (tuple rows: the string; plain "
    "rows: ''; None rows: any str, the table has no entry); isotope_set (served isotopes of an element == "
    "rows of isotope_mass, plus n-1). Both tiers run the same complete enumeration. distinct = evaluations "
    "whose expected value comes from a table cell, i.e. excluding the constant-0 abundance checks of "
    "isotopes absent from the composition table.")


class _Collector(object):
    def __init__(self, task):
        self.task = task
        self.evaluations = 0
        self.trivial = 0
        self.violations = []
        self.counts = {}
        self.samples = []

    def ok(self, trivial=False):
        self.evaluations += 1
        if trivial:
            self.trivial += 1

    def sample(self, case):
        if len(self.samples) < 5:
            self.samples.append(case)

    def fail(self, family, ident, what, inp, observed, expected, count_eval=True, trivial=False):
        if count_eval:
            self.ok(trivial)
        self.counts[family] = self.counts.get(family, 0) + 1
        self.violations.append({"key": "%s:%s:%s" % (self.task, family, ident), "what": what,
                                "input": inp, "observed": observed, "expected": expected})


def _check_value(col, family, ident, inp, status_value, expected, cmp, what, trivial=False, src=None):
    """Compare one served attribute with its expected value."""
    status, value = status_value
    exp_json = expected if src is None else {"value": expected, "from": src}
    if status == "raise":
        col.fail(family, ident, what + " (access raised)", inp, value, exp_json, trivial=trivial)
        return False
    if cmp(value, expected):
        col.ok(trivial)
        return True
    col.fail(family, ident, what, inp, value, exp_json, trivial=trivial)
    return False


def _eval_atom_fields(col, exp, table, tname, z, a, fields=None):
    """All eval_tables comparisons for element z (a is None) or isotope (z, a) of one table.

    `fields` restricts to a subset (replay)."""
    def want(f):
        return fields is None or f in fields

    sym = exp.symbol.get(z)
    try:
        el = table[z]
    except Exception as exc:
        col.fail("element_missing", "%s:%s" % (_atom_id(z, sym or "?"), tname),
                 "element Z=%d of the mass tables is not in the table" % z,
                 {"task": "eval_tables", "table": tname, "Z": z, "A": None, "field": "element_missing"},
                 "%s: %s" % (type(exc).__name__, exc), "element present")
        return
    served_sym = getattr(el, "symbol", None)
    if sym is None:
        sym = served_sym

    def inp(field):
        return {"task": "eval_tables", "table": tname, "Z": z, "symbol": sym, "A": a, "field": field}

    def ident():
        return "%s:%s" % (_atom_id(z, sym, a), tname)

    if a is None:
        # ---------------- element ----------------
        if want("symbol"):
            _check_value(col, "symbol", ident(), inp("symbol"), ("ok", served_sym), sym,
                         lambda x, y: x == y, "table[Z].symbol differs from the symbol in the mass tables")
        if z in exp.el_mass:
            m, u, src = exp.el_mass[z]
            if want("mass"):
                _check_value(col, "mass", ident(), inp("mass"), _get(el, "mass"), m, _exact,
                             "element mass is not the atomic-weight table entry", src=src)
            if want("_mass_unc"):
                _check_value(col, "_mass_unc", ident(), inp("_mass_unc"), _get(el, "_mass_unc"), u, _exact,
                             "element mass uncertainty is not the atomic-weight table entry", src=src)
        elif want("mass"):
            col.fail("mass", ident(), "element has no row in any mass table", inp("mass"),
                     repr(_get(el, "mass")), "a mass-table row")
        d = exp.density.get(sym)
        if d is None:
            if want("density"):
                col.fail("density", ident(), "element has no entry in element_densities", inp("density"),
                         repr(_get(el, "density")), "an element_densities entry")
        else:
            if want("density"):
                _check_value(col, "density", ident(), inp("density"), _get(el, "density"), d["density"],
                             _exact, "element density is not the element_densities entry")
            if want("density_caveat"):
                if d["kind"] == "none":
                    _check_value(col, "density_caveat", ident(), inp("density_caveat"),
                                 _get(el, "density_caveat"), "<any str>",
                                 lambda x, y: isinstance(x, str),
                                 "density_caveat of an element without density is not a string")
                else:
                    _check_value(col, "density_caveat", ident(), inp("density_caveat"),
                                 _get(el, "density_caveat"), d["caveat"], lambda x, y: x == y,
                                 "density_caveat is not the element_densities entry")
        # isotope set
        if want("isotope_set"):
            expected_set = sorted(A for (Z, A) in exp.iso_mass if Z == z)
            status, served = _get(el, "isotopes")
            served_l = sorted(served) if status == "ok" else served
            if status == "ok" and served_l == expected_set:
                col.ok()
            else:
                extra = sorted(set(served_l) - set(expected_set)) if status == "ok" else None
                missing = sorted(set(expected_set) - set(served_l)) if status == "ok" else None
                col.fail("isotope_set", ident(), "isotopes of the element differ from the isotope_mass rows",
                         inp("isotope_set"), {"extra": extra, "missing": missing} if status == "ok" else served,
                         {"count": len(expected_set)})
        # composition-table clauses
        if z in exp.abundance and exp.abundance[z]:
            isotopes = list(el)
            if want("abundance_sum"):
                try:
                    total = math.fsum(iso.abundance for iso in isotopes)
                    if abs(total - 100.0) <= SUM_ABS:
                        col.ok()
                    else:
                        col.fail("abundance_sum", ident(),
                                 "abundances of an element listed in the composition table do not sum to 100%",
                                 inp("abundance_sum"), total, 100.0)
                except Exception as exc:
                    col.fail("abundance_sum", ident(), "summing abundances raised", inp("abundance_sum"),
                             "%s: %s" % (type(exc).__name__, exc), 100.0)
            if z in exp.has_weight and want("weighted_mass"):
                try:
                    wm = math.fsum(iso.abundance * iso.mass for iso in isotopes) / 100.0
                    M, U = el.mass, el._mass_unc
                    bound = max(U, WEIGHT_SLACK_REL * abs(M))
                    if abs(wm - M) <= bound:
                        col.ok()
                    else:
                        col.fail("weighted_mass", ident(),
                                 "abundance-weighted isotope mass differs from the atomic weight by more "
                                 "than its stated uncertainty",
                                 inp("weighted_mass"),
                                 {"weighted": wm, "difference": wm - M},
                                 {"atomic_weight": M, "uncertainty": U, "bound": bound})
                    if z == 8:
                        col.sample({"table": tname, "atom": _atom_id(z, sym), "field": "weighted_mass",
                                    "weighted": wm, "atomic_weight": M, "unc": U})
                except Exception as exc:
                    col.fail("weighted_mass", ident(), "computing the weighted mass raised",
                             inp("weighted_mass"), "%s: %s" % (type(exc).__name__, exc), "a number")
        return

    # ---------------- isotope ----------------
    try:
        iso = el[a]
    except Exception as exc:
        col.fail("isotope_missing", ident(), "isotope row of isotope_mass is not in the table",
                 inp("isotope_missing"), "%s: %s" % (type(exc).__name__, exc), "isotope present")
        return
    if (z, a) in exp.iso_mass:
        m, u = exp.iso_mass[(z, a)]
        src = exp.iso_cell[(z, a)]
        if want("mass"):
            ok = _check_value(col, "mass", ident(), inp("mass"), _get(iso, "mass"), m, _exact,
                              "isotope mass is not the isotope_mass entry", src=src)
            if ok and (z, a) in ((26, 56), (92, 238)):
                col.sample({"table": tname, "atom": _atom_id(z, sym, a), "field": "mass", "cell": src,
                            "expected": m, "served": iso.mass})
        if want("_mass_unc"):
            _check_value(col, "_mass_unc", ident(), inp("_mass_unc"), _get(iso, "_mass_unc"), u, _exact,
                         "isotope mass uncertainty is not the isotope_mass entry", src=src)
    elif want("mass"):
        col.fail("mass", ident(), "served isotope has no row in isotope_mass", inp("mass"),
                 repr(_get(iso, "mass")), "an isotope_mass row")
    listed = exp.abundance.get(z, {})
    if a in listed:
        p, pu, cell = listed[a]
        close = lambda x, y: _close(x, y, ABUNDANCE_REL)
        src = "isotope_abundance %r normalised by element total %s" % (cell, exp.abundance_raw_total[z])
        if want("abundance"):
            ok = _check_value(col, "abundance", ident(), inp("abundance"), _get(iso, "abundance"), p, close,
                              "abundance is not the (normalised) composition-table entry", src=src)
            if ok and (z, a) == (8, 16):
                col.sample({"table": tname, "atom": _atom_id(z, sym, a), "field": "abundance", "cell": cell,
                            "expected": p, "served": iso.abundance})
        if want("_abundance_unc"):
            _check_value(col, "_abundance_unc", ident(), inp("_abundance_unc"), _get(iso, "_abundance_unc"),
                         pu, close, "abundance uncertainty is not the (normalised) composition-table entry",
                         src=src)
    else:
        if want("abundance"):
            _check_value(col, "abundance", ident(), inp("abundance"), _get(iso, "abundance"), 0, _exact,
                         "isotope absent from the composition table does not have abundance 0"
                         + (" (the neutron pseudo-isotope n-1: mass.init hard-codes 100)" if z == 0 else ""),
                         trivial=True)
        if want("_abundance_unc"):
            _check_value(col, "_abundance_unc", ident(), inp("_abundance_unc"), _get(iso, "_abundance_unc"),
                         0, _exact, "isotope absent from the composition table has a non-zero abundance "
                         "uncertainty", trivial=True)


def _atoms_to_check(exp, table):
    """Union of what the tables list and what the table object serves, in (Z, A) order."""
    zs = set(exp.el_mass) | set(z for z, _ in exp.iso_mass) | set(exp.abundance)
    pairs = set(exp.iso_mass)
    for z, block in exp.abundance.items():
        pairs |= set((z, a) for a in block)
    try:
        for el in table:
            zs.add(el.number)
            for iso in el:
                pairs.add((el.number, iso.isotope))
    except Exception:
        pass
    return sorted(zs), sorted(pairs)


def _lazy_isotope_note(exp, table):
    """Observation only: do the lazily loaded neutron tables add nuclides that have no isotope_mass row?"""
    try:
        for attr in ("neutron", "neutron_activation"):
            _get(table[1], attr)
        served = set((el.number, iso.isotope) for el in table for iso in el)
        extra = sorted(served - set(exp.iso_mass))
        return ("after forcing the lazy neutron / neutron_activation loads the public table serves %d isotopes, "
                "%d of them without an isotope_mass row %s" % (len(served), len(extra), extra[:10]))
    except Exception as exc:
        return "lazy-load isotope observation failed: %s: %s" % (type(exc).__name__, exc)


def task_eval_tables(tier, seed, arg):
    exp = Expected()
    exp.crosscheck_with_modules()
    col = _Collector("eval_tables")
    notes = list(exp.notes)
    tables = _tables(seed)
    for tname in ("public", "private"):
        table = tables[tname]
        zs, pairs = _atoms_to_check(exp, table)
        for z in zs:
            _eval_atom_fields(col, exp, table, tname, z, None)
        for z, a in pairs:
            _eval_atom_fields(col, exp, table, tname, z, a)
        notes.append("%s table: %d elements, %d isotopes checked" % (tname, len(zs), len(pairs)))
    notes.append(_lazy_isotope_note(exp, tables["public"]))
    for sym in exp.density_order:
        if sym not in set(exp.symbol.values()):
            notes.append("element_densities key %s is not a symbol of the mass tables" % sym)
    comp_without_weight = sorted(z for z in exp.abundance if z not in exp.has_weight)
    if comp_without_weight:
        notes.append("composition-table elements without an atomic weight (weighted_mass skipped): %s"
                     % comp_without_weight)
    notes.append("tables read: isotope_mass %d rows, element_mass %d rows, isotope_abundance %d elements / "
                 "%d isotopes, element_densities %d entries (%d None)"
                 % (len(exp.mass_rows), len(exp.element_rows), len(exp.abundance_blocks),
                    sum(len(b["isotopes"]) for b in exp.abundance_blocks), len(exp.density),
                    sum(1 for d in exp.density.values() if d["kind"] == "none")))
    return _result(col.evaluations, col.evaluations - col.trivial, EVAL_RULE, True, col.samples,
                   col.violations, notes, col.counts)


# ---------------------------------------------------------------------------------------------
# Task 2: density_algebra
# ---------------------------------------------------------------------------------------------

DENSITY_REL = 1e-12
CUBE_REL = 1e-9

DENSITY_RULE = (
    "Exhaustive over every element of the public table and every isotope it serves. Element: "
    "number_density == density*N_A/mass (rel 1e-12, N_A read from constants.py source), "
    "number_density*interatomic_distance**3 == 1e24 (rel 1e-9), and when density is None both are None "
    "without raising. Isotope: density == element.density*iso.mass/element.mass (rel 1e-12) and is None "
    "without raising when the element density is None (one violation per element, "
    "key isotope_density_raises:<Sym>, with the number of affected isotopes); iso.number_density == "
    "iso.density*N_A/iso.mass (rel 1e-12), iso.number_density*iso.interatomic_distance**3 == 1e24 "
    "(rel 1e-9), None propagating as None. One evaluation = one such comparison; distinct = evaluations "
    "on atoms whose element density is a number (the None cases all have the same expected value).")


def _density_checks(col, el, n_a, only=None, only_a=None):
    """All density_algebra checks of one element (and its isotopes); `only`/`only_a` restrict (replay)."""
    z, sym = el.number, el.symbol

    def want(check, a=None):
        return (only is None or only == check) and (only is None or only_a == a)

    def inp(check, a=None):
        return {"task": "density_algebra", "Z": z, "symbol": sym, "A": a, "check": check}

    s_rho, rho = _get(el, "density")
    s_m, m = _get(el, "mass")
    if s_rho == "raise" or s_m == "raise":
        col.fail("element_access_raises", _atom_id(z, sym), "element density or mass raised",
                 inp("element_access_raises"), {"density": rho, "mass": m}, "values")
        return 0
    unknown = rho is None
    trivial = unknown

    def number_and_distance(obj, a, rho_x, m_x):
        ident = _atom_id(z, sym, a)
        s_n, n = _get(obj, "number_density")
        s_d, d = _get(obj, "interatomic_distance")
        if want("number_density", a):
            if s_n == "raise":
                col.fail("number_density", ident, "number_density raised", inp("number_density", a), n,
                         None if unknown else "rho*N_A/m", trivial=trivial)
            elif unknown or rho_x is None:
                if n is None:
                    col.ok(trivial)
                else:
                    col.fail("number_density", ident, "number_density is not None although density is unknown",
                             inp("number_density", a), n, None, trivial=trivial)
            elif not (_is_number(rho_x) and _is_number(m_x) and m_x != 0):
                col.fail("number_density", ident, "density or mass of the atom is not a usable number",
                         inp("number_density", a), {"density": rho_x, "mass": m_x, "number_density": n},
                         "numbers")
            else:
                expected = rho_x * n_a / m_x
                if _close(n, expected, DENSITY_REL):
                    col.ok()
                    if (z, a) in ((26, None), (1, 2)):
                        col.sample({"atom": ident, "check": "number_density", "density": rho_x, "mass": m_x,
                                    "N_A": n_a, "served": n, "expected": expected})
                else:
                    col.fail("number_density", ident, "number_density != density*N_A/mass",
                             inp("number_density", a), n, expected)
        if want("interatomic_distance", a):
            if s_d == "raise":
                col.fail("interatomic_distance", ident, "interatomic_distance raised",
                         inp("interatomic_distance", a), d, None if unknown else "n*d^3=1e24", trivial=trivial)
            elif unknown or rho_x is None:
                if d is None:
                    col.ok(trivial)
                else:
                    col.fail("interatomic_distance", ident,
                             "interatomic_distance is not None although density is unknown",
                             inp("interatomic_distance", a), d, None, trivial=trivial)
            elif _is_number(n) and _is_number(d) and _close(n * d ** 3, 1e24, CUBE_REL):
                col.ok()
            else:
                col.fail("interatomic_distance", ident, "number_density*interatomic_distance**3 != 1e24",
                         inp("interatomic_distance", a),
                         {"n": n, "d": d, "n*d^3": n * d ** 3 if _is_number(n) and _is_number(d) else None}, 1e24)

    number_and_distance(el, None, rho, m)

    raised = []          # (A, message) of isotopes whose density access raised
    replay_raises = only == "isotope_density_raises"
    for iso in el:
        a = iso.isotope
        ident = _atom_id(z, sym, a)
        s_im, im = _get(iso, "mass")
        s_id, irho = _get(iso, "density")
        if only is None or replay_raises or (only == "isotope_density" and only_a == a):
            if s_id == "raise":
                # collected; reported once per element below
                col.ok(trivial)
                raised.append((a, irho))
            elif replay_raises:
                col.ok(trivial)
            elif unknown:
                if irho is None:
                    col.ok(trivial)
                else:
                    col.fail("isotope_density", ident,
                             "isotope density is not None although the element density is unknown",
                             inp("isotope_density", a), irho, None, trivial=trivial)
            elif s_im == "raise" or not _is_number(im) or not _is_number(m):
                col.fail("isotope_density", ident, "isotope or element mass unavailable",
                         inp("isotope_density", a), {"iso_mass": im, "element_mass": m}, "masses")
            else:
                expected = rho * im / m
                if _close(irho, expected, DENSITY_REL):
                    col.ok()
                    if (z, a) == (1, 2):
                        col.sample({"atom": ident, "check": "isotope_density", "element_density": rho,
                                    "iso_mass": im, "element_mass": m, "served": irho, "expected": expected})
                else:
                    col.fail("isotope_density", ident,
                             "isotope density != element density * isotope mass / element mass",
                             inp("isotope_density", a), irho, expected)
        if s_id == "raise" and not unknown:
            continue        # reported through isotope_density_raises; no reference density for n and d
        number_and_distance(iso, a, None if unknown else irho, im)

    if raised:
        a0, msg0 = raised[0]
        col.counts["isotope_density_raises"] = col.counts.get("isotope_density_raises", 0) + 1
        col.violations.append({
            "key": "density_algebra:isotope_density_raises:%s" % sym,
            "what": "isotope.density raises instead of returning %s"
                    % ("None for an element whose density is unknown" if unknown else "the scaled density"),
            "input": inp("isotope_density_raises", a0),
            "observed": {"exception": msg0, "isotopes_affected": len(raised),
                         "first_isotopes": [a for a, _ in raised[:8]]},
            "expected": None if unknown else "element.density*iso.mass/element.mass"})
    return len(raised)


def task_density_algebra(tier, seed, arg):
    import periodictable
    consts = _read_constants()
    n_a = consts["avogadro_number"]
    col = _Collector("density_algebra")
    notes = []
    try:
        import periodictable.constants as pc
        if pc.avogadro_number != n_a:
            notes.append("constants.avogadro_number attribute %r differs from source literal %r"
                         % (pc.avogadro_number, n_a))
    except Exception as exc:                                       # pragma: no cover
        notes.append("cannot import constants: %r" % (exc,))
    n_el = n_iso = n_unknown = raised_total = 0
    for el in periodictable.elements:
        n_el += 1
        n_iso += len(el.isotopes)
        raised_total += _density_checks(col, el, n_a)
        if _get(el, "density") == ("ok", None):
            n_unknown += 1
    notes.append("%d elements (%d with unknown density), %d isotopes; N_A=%r; isotope.density raised for "
                 "%d isotopes in total" % (n_el, n_unknown, n_iso, n_a, raised_total))
    return _result(col.evaluations, col.evaluations - col.trivial, DENSITY_RULE, True, col.samples,
                   col.violations, notes, col.counts)


# ---------------------------------------------------------------------------------------------
# Task 3: parse_uncertainty_cells
# ---------------------------------------------------------------------------------------------

RANGE_ULPS = 4

PARSE_RULE = (
    "Part A (exhaustive): every numeric cell of the embedded tables whose loader calls "
    "util.parse_uncertainty -- mass.py isotope_mass (mass, old abundance, element-mass columns, empty "
    "cells included), element_mass (value column and the [low,high] remarks), isotope_abundance "
    "(composition column and [low,high] remarks), and nsf.py nsftable / nsftableI cells as fix_number "
    "passes them ('<' and '*' removed) -- parsed by the real parse_uncertainty and by the independent "
    "Decimal reader; one evaluation per distinct-by-position cell, distinct = distinct cell strings. "
    "Part B (BOUNDED, seeded sample, not exhaustive): synthetic strings in the documented notations "
    "(val, val(unc), val(unc)#, val(u.nc), integer val(unc), unc with more digits than val has "
    "decimals, negative val, [nominal], [low,high], empty), quick 2000 / thorough 50000 from "
    "random.Random(seed). Comparison: value and uncertainty exactly equal to float(Decimal) for all forms "
    "except [low,high], where the documented formula is evaluated in floats by the library and low, high are "
    "each rounded to a float before being added / subtracted: midpoint and (high-low)/sqrt(12) both within "
    "4 ulp of max(|low|,|high|) (absolute) of the exact Decimal result. A trailing '#' is documented only "
    "after val(unc), so 'val#' is not generated. exhaustive=False because of part B.")


def _compare_cell(cell):
    """Return (ok, observed, expected, form)."""
    from periodictable.util import parse_uncertainty
    try:
        v, u, form = read_number(cell)
        expected = (_f(v), _f(u))
    except CellError as exc:
        return None, None, str(exc), "unreadable"
    try:
        got = parse_uncertainty(cell)
    except Exception as exc:
        return False, "%s: %s" % (type(exc).__name__, exc), list(expected), form
    if not (isinstance(got, tuple) and len(got) == 2):
        return False, repr(got), list(expected), form
    if form == "empty":
        ok = got[0] is None and got[1] is None
    elif form == "range":
        m = _RE_RANGE.match(cell.strip())
        scale = max(abs(float(m.group(1))), abs(float(m.group(2))), sys.float_info.min)
        tol = RANGE_ULPS * math.ulp(scale)
        ok = (_is_number(got[0]) and _is_number(got[1])
              and abs(got[0] - expected[0]) <= tol and abs(got[1] - expected[1]) <= tol)
    else:
        ok = _exact(got[0], expected[0]) and _exact(got[1], expected[1])
    return ok, list(got), list(expected), form


def _table_cells():
    """[(where, cell)] for every numeric cell handed to parse_uncertainty by a loader."""
    exp = Expected()
    cells = []
    for r in exp.mass_rows:
        atom = _atom_id(r["Z"], r["sym"], r["A"])
        cells.append(("isotope_mass/%s/mass" % atom, r["mass"]))
        cells.append(("isotope_mass/%s/old_abundance" % atom, r["old_abundance"]))
        cells.append(("isotope_mass/%s/element_mass" % atom, r["avg"]))
    for r in exp.element_rows:
        atom = _atom_id(r["Z"], r["sym"])
        if r["value"] != "-":
            cells.append(("element_mass/%s/value" % atom, r["value"]))
        for i, x in enumerate(r["extra"]):
            if x.startswith("["):
                cells.append(("element_mass/%s/remark%d" % (atom, i), x))
    for b in exp.abundance_blocks:
        for iso in b["isotopes"]:
            atom = _atom_id(b["Z"], b["sym"], iso["A"])
            cells.append(("isotope_abundance/%s/value" % atom, iso["value"]))
            for i, x in enumerate(iso["extra"]):
                if x.startswith("["):
                    cells.append(("isotope_abundance/%s/remark%d" % (atom, i), x))
    notes = []          # exp.notes (table-structure observations) are reported by eval_tables
    # nsf tables (fix_number -> parse_uncertainty); layout from the comment block above nsftable
    try:
        tree, _, _ = _parse_module("nsf")
        assigns = _top_level_assignments(tree)
        clean = lambda s: s.replace("<", "").replace("*", "")
        for line in _string_table(assigns, "nsftable").split("\n"):
            c = line.split(",")
            if " " not in c[1] and c[0].count("-") == 2:
                cells.append(("nsftable/%s/abundance" % c[0], clean(c[1])))
            for i in (3, 4, 5, 7, 8, 9, 10):
                cells.append(("nsftable/%s/col%d" % (c[0], i), clean(c[i])))
        for line in _string_table(assigns, "nsftableI").split("\n"):
            c = line.split(",")
            for i in range(1, len(c)):
                cells.append(("nsftableI/%s/col%d" % (c[0], i), clean(c[i])))
    except Exception as exc:
        notes.append("nsf tables not included: %s: %s" % (type(exc).__name__, exc))
    return cells, notes


def _digits(rng, n, first_nonzero=False):
    s = "".join(rng.choice("0123456789") for _ in range(n))
    if first_nonzero and s and s[0] == "0":
        s = rng.choice("123456789") + s[1:]
    return s


def _synthetic(rng):
    """One synthetic cell: (class, string)."""
    def val(max_int=4, max_frac=13, force_frac=None):
        ni = rng.randint(1, max_int)
        nf = rng.randint(0, max_frac) if force_frac is None else force_frac
        s = _digits(rng, ni, first_nonzero=(ni > 1))
        if nf:
            s += "." + _digits(rng, nf)
        return s, nf
    kind = rng.choice(("plain", "value_unc", "value_unc", "value_unc_hash", "unc_point",
                       "int_unc", "unc_wider", "negative", "nominal", "range", "range", "empty"))
    if kind == "plain":
        return kind, val()[0]
    if kind in ("value_unc", "value_unc_hash", "negative"):
        nf = rng.randint(1, 13)
        v, _ = val(force_frac=nf)
        u = _digits(rng, rng.randint(1, min(nf, 4)), first_nonzero=True)
        s = "%s(%s)" % (v, u)
        if kind == "value_unc_hash":
            s += "#"
        if kind == "negative":
            s = "-" + s
        return kind, s
    if kind == "unc_point":
        v, nf = val(max_frac=3)
        u = _digits(rng, rng.randint(1, 2), first_nonzero=True) + "." + _digits(rng, rng.randint(1, 2))
        return kind, "%s(%s)" % (v, u)
    if kind == "int_unc":
        v, _ = val(force_frac=0)
        return kind, "%s(%s)" % (v, _digits(rng, rng.randint(1, 2), first_nonzero=True))
    if kind == "unc_wider":
        nf = rng.randint(1, 3)
        v, _ = val(force_frac=nf)
        return kind, "%s(%s)" % (v, _digits(rng, nf + rng.randint(1, 2), first_nonzero=True))
    if kind == "nominal":
        return kind, "[%s]" % val(max_frac=3)[0]
    if kind == "range":
        nf = rng.randint(0, 6)
        lo = Decimal(val(max_int=3, force_frac=nf)[0])
        width = Decimal(val(max_int=2, force_frac=nf)[0])
        hi = lo + width
        fmt = "%%.%df" % nf
        return kind, "[%s,%s]" % (fmt % lo, fmt % hi)
    return kind, ""


def task_parse_uncertainty_cells(tier, seed, arg):
    col = _Collector("parse_uncertainty_cells")
    cells, notes = _table_cells()
    distinct = set()
    forms = {}
    for where, cell in cells:
        ok, got, expected, form = _compare_cell(cell)
        forms[form] = forms.get(form, 0) + 1
        distinct.add(cell)
        inp = {"task": "parse_uncertainty_cells", "cell": cell, "where": where}
        if ok is None:
            # not a documented notation: the independent reader has no reference value
            col.fail("unreadable_cell", where, "table cell is in none of the documented notations",
                     inp, _safe_parse(cell), expected)
        elif ok:
            col.ok()
            if where in ("isotope_mass/26-Fe-56/mass", "isotope_abundance/1-H-1/value",
                         "element_mass/82-Pb/value"):
                col.sample({"where": where, "cell": cell, "parse_uncertainty": got, "reader": expected})
        else:
            col.fail("table_cell", where, "parse_uncertainty disagrees with the documented reading of a "
                     "table cell", inp, got, expected)
    n_table = col.evaluations
    wider = [w for w, c in cells if _unc_wider(c)]
    notes.append("table cells whose (unc) has more digits than val has decimals: %d in mass.py tables, %d in "
                 "nsf tables %s (fix_number keeps only the value of nsf cells)"
                 % (sum(1 for w in wider if not w.startswith("nsftable")),
                    sum(1 for w in wider if w.startswith("nsftable")),
                    [w for w in wider if w.startswith("nsftable")][:5]))
    notes.append("part A: %d table cells (%d distinct strings), forms %s"
                 % (n_table, len(distinct), dict(sorted(forms.items()))))
    # ---- part B: bounded
    n = 2000 if tier == "quick" else 50000
    rng = random.Random(seed)
    synth_distinct = set()
    class_total, class_fail = {}, {}
    for _ in range(n):
        kind, s = _synthetic(rng)
        class_total[kind] = class_total.get(kind, 0) + 1
        new = s not in synth_distinct
        synth_distinct.add(s)
        ok, got, expected, form = _compare_cell(s)
        inp = {"task": "parse_uncertainty_cells", "cell": s, "class": kind}
        if ok:
            col.ok()
            if kind in ("unc_point", "range") and len(col.samples) < 5 and new:
                col.sample({"synthetic": kind, "cell": s, "parse_uncertainty": got, "reader": expected})
            continue
        class_fail[kind] = class_fail.get(kind, 0) + 1
        if not new:
            col.ok()
            continue
        if ok is None:
            col.fail("generator_bug", s, "synthetic string not readable by the independent reader",
                     inp, None, expected)
        else:
            col.fail("synthetic_" + kind, s, "parse_uncertainty disagrees with the documented reading of "
                     "%r (class %s)" % (s, kind), inp, got, expected)
    notes.append("part B (bounded sample): %d synthetic strings (%d distinct); per class total %s; "
                 "per class failing %s" % (n, len(synth_distinct), dict(sorted(class_total.items())),
                                           dict(sorted(class_fail.items()))))
    return _result(col.evaluations, len(distinct) + len(synth_distinct), PARSE_RULE, False, col.samples,
                   col.violations, notes, col.counts)


def _unc_wider(cell):
    m = _RE_VALUNC.match(cell.strip())
    if not m or "." in m.group(2) or "." not in m.group(1):
        return False
    return len(m.group(2)) > len(m.group(1).split(".")[1])


def _safe_parse(cell):
    from periodictable.util import parse_uncertainty
    try:
        return list(parse_uncertainty(cell))
    except Exception as exc:
        return "%s: %s" % (type(exc).__name__, exc)


# ---------------------------------------------------------------------------------------------
# Task 4: replay
# ---------------------------------------------------------------------------------------------

def task_replay(tier, seed, arg):
    arg = arg or {}
    inp = arg.get("input") or {}
    key = arg.get("key")
    task = inp.get("task") or (key.split(":")[0] if key else None)
    notes = ["replay of %s" % key]
    if task == "eval_tables":
        exp = Expected()
        col = _Collector("eval_tables")
        tname = inp.get("table", "public")
        table = _tables(seed, which=(tname,))[tname]
        field = inp.get("field")
        fields = None if field in (None, "element_missing", "isotope_missing") else {field}
        _eval_atom_fields(col, exp, table, tname, int(inp["Z"]),
                          None if inp.get("A") is None else int(inp["A"]), fields)
        rule = "replay: the single (table, atom, field) comparison of eval_tables; " + EVAL_RULE
    elif task == "density_algebra":
        import periodictable
        col = _Collector("density_algebra")
        n_a = _read_constants()["avogadro_number"]
        el = periodictable.elements[int(inp["Z"])]
        check = inp.get("check")
        _density_checks(col, el, n_a, only=check,
                        only_a=None if inp.get("A") is None else int(inp["A"]))
        rule = "replay: one density_algebra check of one atom; " + DENSITY_RULE
    elif task == "parse_uncertainty_cells":
        col = _Collector("parse_uncertainty_cells")
        cell = inp.get("cell", "")
        ok, got, expected, form = _compare_cell(cell)
        if ok:
            col.ok()
        else:
            family = key.split(":")[1] if key and key.count(":") >= 2 else "cell"
            ident = key.split(":", 2)[2] if key and key.count(":") >= 2 else cell
            col.fail(family, ident, "parse_uncertainty disagrees with the documented reading of %r" % cell,
                     inp, got if ok is not None else _safe_parse(cell), expected)
        col.sample({"cell": cell, "parse_uncertainty": got, "reader": expected, "form": form})
        rule = "replay: one cell; " + PARSE_RULE
    else:
        return {"evaluations": 0, "distinct": 0, "rule": "replay", "exhaustive": False, "samples": [],
                "violations": [], "notes": ["replay: cannot tell the task from arg %r" % (arg,)]}
    if key is not None:
        reproduced = any(v["key"] == key for v in col.violations)
        notes.append("violation %s" % ("reproduced" if reproduced else "NOT reproduced"))
    res = _result(col.evaluations, col.evaluations - col.trivial, rule, False, col.samples,
                  col.violations, notes, col.counts)
    return res
