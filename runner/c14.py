"""C14 native checks: neutron activation (periodictable.activation.activity and friends).

Oracle side (independent of the code under test):
  * ``activation.dat`` is read HERE (tab separated; rows whose first column stripped is '' or 'xx' are not
    data; surrounding double quotes dropped; 23 columns in the documented order); cross sections and
    half-lives of the oracle come from this reader, never from ``isotope.neutron_activation``;
  * the three reaction chains are evaluated from their closed-form solutions with ``decimal`` (60 digits,
    raised automatically when the cancellation in a bracket eats more than 35 of them), ``exp`` is
    ``Decimal.exp()``; the inputs of the oracle are the exact values of the doubles handed to the code
    (``Decimal(float)``), ln 2 is exact to the working precision;
  * the unit factor 1.6278e19 (uCi per reaction rate) is part of the definition and taken as given.

Tasks: grid, element_sum, table_columns, replay.
"""
import decimal
import math
import multiprocessing
import os
import random
import sys
import time
from decimal import Decimal

MAX_VIOLATIONS = 60
MAX_EXAMPLES = 3
REL_VALUE = 1e-9
ABS_VALUE = 1e-300
REL_EXACT = 1e-12
REST_TIMES = (0.0, 1.0, 24.0, 1e5)
CD_CHOICES = (0.0, 1.0, 70.0)
FAST_CHOICES = (0.0, 50.0)
FLUENCE_RANGE = (1e2, 1e16)
EXPOSURE_RANGE = (1e-3, 1e4)
MASS_RANGE = (1e-6, 1e3)
NPROC = 16

# documented column layout of activation.dat (own copy; compared with activation.COLUMN_NAMES in table_columns)
COLS = ["_symbol", "_index", "Z", "symbol", "A", "isotope", "abundance", "daughter", "_Thalf", "_Thalf_unit",
        "isomer", "percentIT", "reaction", "fast", "thermalXS", "gT", "resonance", "Thalf_hrs", "Thalf_str",
        "Thalf_parent", "thermalXS_parent", "resonance_parent", "comments"]
INT_COLS = (1, 2, 4)
BOOL_COLS = (13,)
FLOAT_COLS = (6, 11, 14, 15, 16, 17, 19, 20, 21)

_D1E24 = Decimal("1e-24")
_DUNIT = Decimal("1.6278e19")
_D3600 = Decimal(3600)


# --------------------------------------------------------------------------- own reader of activation.dat

def _dat_path():
    import periodictable
    return os.path.join(os.path.dirname(os.path.abspath(periodictable.__file__)), "activation.dat")


def _unquote(cell):
    if len(cell) >= 2 and cell[0] == '"' and cell[-1] == '"':
        return cell[1:-1]
    return cell


def _num(text):
    s = text.strip()
    return float(s) if s else 0.0


_DAT_CACHE = {}


def read_dat(path=None):
    """Rows of activation.dat as dicts (typed by the documented column classes)."""
    path = path or _dat_path()
    if path in _DAT_CACHE:
        return _DAT_CACHE[path]
    rows = []
    with open(path, "r") as fh:
        for lineno, line in enumerate(fh, 1):
            line = line.rstrip("\r\n")
            cells = line.split("\t")
            if cells[0].strip() in ("", "xx"):
                continue
            if len(cells) != len(COLS):
                raise ValueError("activation.dat line %d: %d columns, expected %d" % (lineno, len(cells), len(COLS)))
            cells = [_unquote(c) for c in cells]
            rec = {"line": lineno, "raw": cells}
            for k, name in enumerate(COLS):
                c = cells[k]
                if k in INT_COLS:
                    rec[name] = int(c)
                elif k in BOOL_COLS:
                    rec[name] = (c == "y")
                elif k in FLOAT_COLS:
                    rec[name] = _num(c)
                elif name == "comments":
                    rec[name] = _unquote(c.strip()).replace('""', '"').strip()
                else:
                    rec[name] = c
            rec["Thalf_str"] = "%s %s" % (rec["_Thalf"], rec["_Thalf_unit"])
            rows.append(rec)
    # row names; duplicated (isotope, daughter, reaction) triples get the table index appended
    count = {}
    for r in rows:
        t = (r["isotope"], r["daughter"], r["reaction"])
        count[t] = count.get(t, 0) + 1
    for r in rows:
        t = (r["isotope"], r["daughter"], r["reaction"])
        name = "%s->%s:%s" % t
        if count[t] > 1:
            name += "#%d" % r["_index"]
        r["name"] = name
        for f in ("thermalXS", "resonance", "Thalf_hrs", "Thalf_parent", "thermalXS_parent", "resonance_parent"):
            r["d_" + f] = Decimal(r[f])
    _DAT_CACHE[path] = rows
    return rows


def rows_by_isotope(rows):
    out = {}
    order = []
    for r in rows:
        k = (r["Z"], r["A"])
        if k not in out:
            out[k] = []
            order.append(k)
        out[k].append(r)
    return order, out


# --------------------------------------------------------------------------- 60-digit oracle

class OracleSingular(Exception):
    pass


def _ctx(prec):
    ctx = decimal.Context(prec=prec, Emax=decimal.MAX_EMAX, Emin=decimal.MIN_EMIN,
                          rounding=decimal.ROUND_HALF_EVEN)
    ctx.traps[decimal.Overflow] = False
    ctx.traps[decimal.Underflow] = False
    ctx.traps[decimal.Inexact] = False
    ctx.traps[decimal.Rounded] = False
    ctx.traps[decimal.Subnormal] = False
    ctx.traps[decimal.Clamped] = False
    return ctx


def _chain(row, fluence, Cd, fr, mass, t, eps_mode):
    """One evaluation at the current decimal context.  Returns (A0, digits_lost_measure, k1) or None."""
    D = Decimal
    if row["fast"] and fr == 0:
        return None
    LN2 = D(2).ln()
    dfl, dm, dt = D(fluence), D(mass), D(t)
    use_eps = (Cd >= 1)
    if eps_mode == "flip":
        use_eps = not use_eps
    if use_eps:
        eps = 1 / D(Cd) if Cd != 0 else D(1)
    else:
        eps = D(0)
    s1 = row["d_thermalXS"] + eps * row["d_resonance"]
    flux = dfl / D(fr) if row["fast"] else dfl
    root = flux * s1 * _D1E24 * dm / D(row["A"]) * _DUNIT
    if row["d_Thalf_hrs"] == 0:
        raise OracleSingular("Thalf_hrs == 0")
    lam = LN2 / row["d_Thalf_hrs"]
    reaction = row["reaction"]
    k1 = flux * s1 * _D3600 * _D1E24
    if reaction == "b":
        if row["d_Thalf_parent"] == 0:
            raise OracleSingular("Thalf_parent == 0")
        lp = LN2 / row["d_Thalf_parent"]
        den = lp - lam
        if den == 0:
            raise OracleSingular("lambda_parent == lambda")
        t1 = lp * (-lam * dt).exp() / den
        t2 = lam * (-lp * dt).exp() / den
        B = 1 - (t1 - t2)
        big = max(D(1), abs(t1), abs(t2))
        A0 = root * B
        loss = _loss(big, B)
        return A0, loss, D(0)
    s2 = row["d_thermalXS_parent"] + eps * row["d_resonance_parent"]
    if reaction == "2n":
        if row["d_Thalf_parent"] == 0:
            raise OracleSingular("Thalf_parent == 0")
        lp = LN2 / row["d_Thalf_parent"]
        r1 = k1
        c2 = dfl * _D1E24 * _D3600 * s2
        r2 = c2 + lp
        r3 = lam
        d21, d31, d32 = r2 - r1, r3 - r1, r3 - r2
        if d21 == 0 or d31 == 0 or d32 == 0:
            raise OracleSingular("two rates coincide")
        t1 = (-r1 * dt).exp() / (d21 * d31)
        t2 = (-r2 * dt).exp() / (-d21 * d32)
        t3 = (-r3 * dt).exp() / (d31 * d32)
        B = t1 + t2 + t3
        big = max(abs(t1), abs(t2), abs(t3))
        A0 = root * lam * c2 * B
        loss = max(_loss(big, B), _loss(max(r1, r2), d21), _loss(max(r1, r3), d31), _loss(max(r2, r3), d32))
        return A0, loss, k1
    k2 = dfl * s2 * _D3600 * _D1E24
    den = lam - k1 + k2
    if den == 0:
        raise OracleSingular("lambda - k1 + k2 == 0")
    e1 = (-k1 * dt).exp()
    e2 = (-(k2 + lam) * dt).exp()
    B = e1 - e2
    A0 = root * lam / den * B
    loss = max(_loss(max(e1, e2), B), _loss(max(lam, k1, k2), den))
    return A0, loss, k1


def _loss(big, val):
    """Decimal digits eaten by cancellation (big/|val|), as a float; inf when val == 0 < big."""
    if big == 0:
        return 0.0
    if val == 0:
        return float("inf")
    q = abs(big / val)
    return float(q.log10()) if q > 1 else 0.0


def oracle(row, fluence, Cd, fr, mass, t, eps_mode="spec", stats=None):
    """(A0 as Decimal, k1 as Decimal, precision used) or None when the row is omitted (fast row, fast_ratio 0)."""
    prec = 60
    while True:
        with decimal.localcontext(_ctx(prec)):
            out = _chain(row, fluence, Cd, fr, mass, t, eps_mode)
            if out is None:
                return None
            A0, loss, k1 = out
            if loss <= prec - 25 or (A0 == 0 and loss == 0):
                if stats is not None and prec > 60:
                    stats["oracle_precision_raised"] = stats.get("oracle_precision_raised", 0) + 1
                    stats["oracle_max_precision"] = max(stats.get("oracle_max_precision", 60), prec)
                return +A0, +k1, prec
        prec *= 2
        if prec > 4000:
            raise OracleSingular("cancellation not resolved at %d digits" % (prec // 2))


def rest_factor(row, T, prec=60):
    """2^(-T/T_half) as Decimal."""
    with decimal.localcontext(_ctx(prec)):
        return (-(Decimal(2).ln()) * Decimal(T) / row["d_Thalf_hrs"]).exp()


def _rest_factors(row):
    if "rf" not in row:
        row["rf"] = [rest_factor(row, T) for T in REST_TIMES]
    return row["rf"]


# --------------------------------------------------------------------------- helpers

def _jf(v):
    if v is None or isinstance(v, (str, bool, int)):
        return v
    if isinstance(v, float):
        if math.isnan(v):
            return "nan"
        if math.isinf(v):
            return "inf" if v > 0 else "-inf"
        return v
    if isinstance(v, Decimal):
        return _jf(float(v))
    if isinstance(v, dict):
        return dict((str(k), _jf(x)) for k, x in v.items())
    if isinstance(v, (list, tuple)):
        return [_jf(x) for x in v]
    return repr(v)


def _close(o, e, rel, ab):
    try:
        o = float(o)
    except Exception:
        return False
    if o == e:
        return True
    return abs(o - e) <= rel * abs(e) + ab      # False for NaN


def _isotope_obj(table, Z, A):
    return table[Z][A]


def _match_records(rows, records):
    """Pair each row of my reader with the record of the code under test that carries the same data.

    Returns (list of records or None per row, note or None)."""
    fields = ("daughter", "reaction", "fast", "thermalXS", "resonance", "Thalf_hrs", "Thalf_parent",
              "thermalXS_parent", "resonance_parent")
    free = list(records)
    out = []
    note = None
    for r in rows:
        hit = None
        for rec in free:
            try:
                if all(getattr(rec, f) == r[f] for f in fields):
                    hit = rec
                    break
            except Exception:
                pass
        if hit is None:
            for rec in free:
                if getattr(rec, "daughter", None) == r["daughter"] and getattr(rec, "reaction", None) == r["reaction"]:
                    hit = rec
                    note = "record of %s matched by (daughter, reaction) only: data fields differ" % r["name"]
                    break
        if hit is not None:
            free.remove(hit)
        out.append(hit)
    return out, note


def _raising_record(exc):
    tb = exc.__traceback__
    ai = None
    while tb is not None:
        if tb.tb_frame.f_code.co_name == "activity":
            ai = tb.tb_frame.f_locals.get("ai", ai)
        tb = tb.tb_next
    return ai


class Collector(object):
    """Violations grouped by (cause, row)."""

    def __init__(self):
        self.groups = {}       # (cause, rowname) -> {"count": n, "examples": [...], "order": k}
        self.stats = {}
        self.evaluations = 0
        self.distinct = 0
        self.samples = []
        self.ratio_hist = {}

    def add(self, cause, row, what, inp, observed, expected, severity=None):
        g = self.groups.get((cause, row["name"]))
        if g is None:
            g = {"count": 0, "examples": [], "row_line": row["line"], "what": what, "worst": None,
                 "worst_severity": None}
            self.groups[(cause, row["name"])] = g
        g["count"] += 1
        ex = None
        if len(g["examples"]) < MAX_EXAMPLES:
            ex = {"what": what, "input": _jf(inp), "observed": _jf(observed), "expected": _jf(expected)}
            g["examples"].append(ex)
        if severity is not None and (g["worst_severity"] is None or severity > g["worst_severity"]):
            g["worst_severity"] = severity
            g["worst"] = ex or {"what": what, "input": _jf(inp), "observed": _jf(observed),
                                "expected": _jf(expected)}

    def dump(self):
        return {"groups": self.groups, "stats": self.stats, "evaluations": self.evaluations,
                "distinct": self.distinct, "samples": self.samples, "ratio_hist": self.ratio_hist}


def _merge(parts):
    tot = Collector()
    for p in parts:
        tot.evaluations += p["evaluations"]
        tot.distinct += p["distinct"]
        for s in p["samples"]:
            if len(tot.samples) < 5:
                tot.samples.append(s)
        for k, v in p["stats"].items():
            if k.endswith("_max_precision"):
                tot.stats[k] = max(tot.stats.get(k, 0), v)
            else:
                tot.stats[k] = tot.stats.get(k, 0) + v
        for k, v in p["ratio_hist"].items():
            tot.ratio_hist[k] = tot.ratio_hist.get(k, 0) + v
        for key, g in p["groups"].items():
            t = tot.groups.get(key)
            if t is None:
                tot.groups[key] = {"count": g["count"], "examples": list(g["examples"]),
                                   "row_line": g["row_line"], "what": g["what"], "worst": g["worst"],
                                   "worst_severity": g["worst_severity"]}
            else:
                t["count"] += g["count"]
                for e in g["examples"]:
                    if len(t["examples"]) < MAX_EXAMPLES:
                        t["examples"].append(e)
                if g["worst_severity"] is not None and (t["worst_severity"] is None
                                                        or g["worst_severity"] > t["worst_severity"]):
                    t["worst_severity"], t["worst"] = g["worst_severity"], g["worst"]
    return tot


def _relerr(o, e):
    try:
        o = float(o)
        if not math.isfinite(o):
            return float("inf")
        if e == 0:
            return float("inf") if o != 0 else 0.0
        return abs(o - e) / abs(e)
    except Exception:
        return float("inf")


def _ratio_bucket(o, e):
    try:
        if e == 0 or not math.isfinite(o):
            return "expected 0 or non-finite observed"
        q = o / e
    except Exception:
        return "n/a"
    if abs(q - 1.5) <= 1e-6:
        return "observed/expected = 1.5 (+-1e-6)"
    if q < 0:
        return "observed/expected < 0"
    d = abs(q - 1)
    if d <= 1e-6:
        return "|observed/expected - 1| in (1e-9, 1e-6]"
    if d <= 1e-3:
        return "|observed/expected - 1| in (1e-6, 1e-3]"
    if d <= 0.1:
        return "|observed/expected - 1| in (1e-3, 0.1]"
    return "|observed/expected - 1| > 0.1 (not 1.5)"


# --------------------------------------------------------------------------- one grid point

def _point_input(rows0, pt, **extra):
    r = rows0
    inp = {"Z": r["Z"], "A": r["A"], "isotope": r["isotope"], "fluence": pt["fluence"],
           "Cd_ratio": pt["Cd_ratio"], "fast_ratio": pt["fast_ratio"], "mass": pt["mass"],
           "exposure": pt["exposure"], "exposure_next": pt.get("exposure_next"),
           "rest_times": list(REST_TIMES)}
    inp.update(extra)
    return inp


def _call(act, iso, mass, pt, exposure, rest):
    env = act.ActivationEnvironment(fluence=pt["fluence"], Cd_ratio=pt["Cd_ratio"], fast_ratio=pt["fast_ratio"])
    return act.activity(iso, mass, env, exposure, rest)


def _exception_violation(col, exc, rows, recs, pt, call_desc, call_extra):
    ai = _raising_record(exc)
    row = None
    for r, rec in zip(rows, recs):
        if rec is not None and rec is ai:
            row = r
    attributed = row is not None
    if row is None:
        row = rows[0]
    cause = "exception_%s" % type(exc).__name__
    inp = _point_input(row, pt, row_index=row["_index"], daughter=row["daughter"], reaction=row["reaction"],
                       **call_extra)
    what = ("activity(%s, ...) raised %s while computing %s (%s); physical inputs must never fail to compute"
            % (row["isotope"], type(exc).__name__,
               row["name"] if attributed else "an unidentified row", call_desc))
    col.add(cause, row, what, inp, "%s: %s" % (type(exc).__name__, exc), "a non-negative activity for every product")
    col.stats["calls_raising"] = col.stats.get("calls_raising", 0) + 1
    col.stats["rows_not_computed_because_another_row_raised"] = \
        col.stats.get("rows_not_computed_because_another_row_raised", 0) + (len(rows) - 1)


def check_point(act, iso, rows, recs, pt, col, want_sample=False):
    """All C14 grid obligations of one isotope at one grid point."""
    fl, Cd, fr, mass, t = pt["fluence"], pt["Cd_ratio"], pt["fast_ratio"], pt["mass"], pt["exposure"]
    stats = col.stats

    # oracle first (needed for `distinct` even if the call raises)
    orc = []
    for r in rows:
        try:
            orc.append(oracle(r, fl, Cd, fr, mass, t, stats=stats))
        except OracleSingular as exc:
            orc.append(exc)
            stats["oracle_singular"] = stats.get("oracle_singular", 0) + 1

    col.evaluations += len(rows)
    try:
        res = _call(act, iso, mass, pt, t, REST_TIMES)
        err = None
    except Exception as exc:        # noqa: any exception is a finding
        res, err = None, exc
    if err is not None:
        _exception_violation(col, err, rows, recs, pt, "main call", {})
        for o in orc:
            if o is not None and not isinstance(o, Exception) and o[0] != 0:
                col.distinct += 1
        return

    res_by_id = dict((id(k), (k, v)) for k, v in res.items())
    seen = set()
    base = {}
    for r, rec, o in zip(rows, recs, orc):
        inp = None

        def mkinp(r=r):
            return _point_input(r, pt, row_index=r["_index"], daughter=r["daughter"], reaction=r["reaction"])
        got = res_by_id.get(id(rec)) if rec is not None else None
        if got is not None:
            seen.add(id(rec))
        obs = None if got is None else list(got[1])
        if o is None:
            # fast row with fast_ratio == 0: must be absent
            if obs is not None:
                col.add("fast_not_omitted", r, "fast reaction %s is reported although fast_ratio == 0" % r["name"],
                        mkinp(), obs, "absent")
                if any(v != 0 for v in obs):
                    col.distinct += 1
            continue
        if obs is None:
            col.add("missing_product", r,
                    "%s is missing from the result although it is not a fast reaction suppressed by fast_ratio == 0"
                    % r["name"], mkinp(), "absent", "present")
            continue
        if obs and obs[0] != 0:
            col.distinct += 1
        base[r["name"]] = obs[0]
        if isinstance(o, Exception):
            continue
        A0, k1, prec = o
        rf = _rest_factors(r)
        exp = [float(A0 * f) for f in rf]
        # -- negative
        neg = [v for v in obs if isinstance(v, float) and v < 0]
        if neg:
            col.add("negative", r, "activity of %s is negative" % r["name"], mkinp(), obs, exp)
        # -- value against the closed form (every rest time)
        bad = [k for k in range(len(REST_TIMES)) if k >= len(obs) or not _close(obs[k], exp[k], REL_VALUE, ABS_VALUE)]
        if want_sample and len(col.samples) < 5:
            col.samples.append({"input": _jf(mkinp()), "observed": _jf(obs), "expected": _jf(exp),
                                "oracle_digits": prec})
        if bad:
            cause = "value"
            detail = ""
            # is it the epithermal switch?  (classification only, the violation stands either way)
            try:
                alt = oracle(r, fl, Cd, fr, mass, t, eps_mode="flip") if Cd != 0 else None
                if alt is not None and r["d_resonance"] != 0 and Cd != 0 \
                        and _close(obs[0], float(alt[0]), REL_VALUE, ABS_VALUE):
                    cause = "epithermal_flag"
                    detail = " (it equals the closed form with the epithermal term %s)" % (
                        "dropped" if Cd >= 1 else "included")
            except OracleSingular:
                pass
            k = bad[0]
            if 0 in bad:
                b = _ratio_bucket(obs[0], exp[0])
                col.ratio_hist[b] = col.ratio_hist.get(b, 0) + 1
            else:
                col.ratio_hist["T=0 entry agrees, a later rest entry does not"] = \
                    col.ratio_hist.get("T=0 entry agrees, a later rest entry does not", 0) + 1
            col.add(cause, r,
                    "%s: activity differs from the exact chain solution beyond rel 1e-9 + abs 1e-300%s; first failing "
                    "rest index %d" % (r["name"], detail, k), mkinp(), obs, exp,
                    severity=_relerr(obs[k] if k < len(obs) else float("nan"), exp[k]))
        # -- rest factor relative to the T = 0 entry
        for k, T in enumerate(REST_TIMES):
            if k == 0 or k >= len(obs):
                continue
            want = obs[0] * float(rf[k])
            if not _close(obs[k], want, REL_EXACT, ABS_VALUE):
                col.add("rest_factor", r,
                        "%s: entry for rest time %g h is not the T=0 entry times 2^(-T/T_half) (rel 1e-12)"
                        % (r["name"], T), mkinp(), {"entries": obs, "index": k}, want)
                break
    for key_id, (k, v) in res_by_id.items():
        if key_id not in seen:
            col.add("unexpected_product", rows[0],
                    "result contains a product that is not a row of activation.dat for %s" % rows[0]["isotope"],
                    _point_input(rows[0], pt, row_index=rows[0]["_index"], daughter=rows[0]["daughter"],
                                 reaction=rows[0]["reaction"]),
                    "%s->%s:%s" % (getattr(k, "isotope", "?"), getattr(k, "daughter", "?"),
                                   getattr(k, "reaction", "?")), "absent")

    # -- proportional to mass
    try:
        res2 = _call(act, iso, 2 * mass, pt, t, (0.0,))
    except Exception as exc:        # noqa
        pt2 = dict(pt, mass=2 * mass)
        _exception_violation(col, exc, rows, recs, pt2, "call with the doubled mass", {"aux": "mass_doubled"})
        res2 = None
    if res2 is not None:
        r2 = dict((id(k), v) for k, v in res2.items())
        for r, rec in zip(rows, recs):
            if r["name"] not in base or id(rec) not in r2:
                continue
            want = 2 * base[r["name"]]
            if not _close(r2[id(rec)][0], want, REL_EXACT, 0.0):
                col.add("mass_proportional", r,
                        "%s: doubling the mass does not double the activity (rel 1e-12)" % r["name"],
                        _point_input(r, pt, row_index=r["_index"], daughter=r["daughter"], reaction=r["reaction"]),
                        {"mass": base[r["name"]], "2*mass": r2[id(rec)][0]}, want)

    # -- exposure: A(t2) >= A(t1) * exp(-k1 (t2 - t1)) on consecutive exposure grid points
    t2 = pt.get("exposure_next")
    if t2 is not None and t2 > t:
        try:
            res3 = _call(act, iso, mass, pt, t2, (0.0,))
        except Exception as exc:    # noqa
            pt3 = dict(pt, exposure=t2, exposure_next=None)
            _exception_violation(col, exc, rows, recs, pt3, "call at the next exposure grid point",
                                 {"aux": "exposure_next"})
            res3 = None
        if res3 is not None:
            r3 = dict((id(k), v) for k, v in res3.items())
            for r, rec, o in zip(rows, recs, orc):
                if r["name"] not in base or id(rec) not in r3 or o is None or isinstance(o, Exception):
                    continue
                k1 = o[1]
                with decimal.localcontext(_ctx(60)):
                    dep = float((-k1 * (Decimal(t2) - Decimal(t))).exp())
                a1, a2 = base[r["name"]], r3[id(rec)][0]
                floor = a1 * dep * (1 - REL_VALUE) - ABS_VALUE
                stats["exposure_pairs"] = stats.get("exposure_pairs", 0) + 1
                if not (a2 >= floor):
                    col.add("exposure_decrease", r,
                            "%s: activity after the longer exposure is below the activity after the shorter one "
                            "reduced by the depletion of the target exp(-k1*(t2-t1)) (slack rel 1e-9)" % r["name"],
                            _point_input(r, pt, row_index=r["_index"], daughter=r["daughter"],
                                         reaction=r["reaction"]),
                            {"A(t1)": a1, "A(t2)": a2, "t1": t, "t2": t2}, {"A(t2) >=": floor, "depletion": dep})


# --------------------------------------------------------------------------- grid

def _loguniform(rng, lo, hi):
    return 10.0 ** rng.uniform(math.log10(lo), math.log10(hi))


def grid_points(seed, isotope_name, n_random):
    """Corner points first (fluence x exposure corners x every Cd x every fast ratio, mass 1 g), then seeded
    log-uniform points.  `exposure_next` = next larger exposure of the same isotope's grid."""
    rng = random.Random("c14:%d:%s" % (seed, isotope_name))
    pts = []
    for fl in FLUENCE_RANGE:
        for cd in CD_CHOICES:
            for fr in FAST_CHOICES:
                pts.append({"fluence": fl, "Cd_ratio": cd, "fast_ratio": fr, "mass": 1.0,
                            "exposure": EXPOSURE_RANGE[0], "exposure_next": EXPOSURE_RANGE[1], "corner": True})
                pts.append({"fluence": fl, "Cd_ratio": cd, "fast_ratio": fr, "mass": 1.0,
                            "exposure": EXPOSURE_RANGE[1], "exposure_next": None, "corner": True})
    rnd = []
    for _ in range(n_random):
        rnd.append({"fluence": _loguniform(rng, *FLUENCE_RANGE), "Cd_ratio": rng.choice(CD_CHOICES),
                    "fast_ratio": rng.choice(FAST_CHOICES), "mass": _loguniform(rng, *MASS_RANGE),
                    "exposure": _loguniform(rng, *EXPOSURE_RANGE), "corner": False})
    exps = sorted(set(p["exposure"] for p in rnd) | set(EXPOSURE_RANGE))
    nxt = dict((a, b) for a, b in zip(exps, exps[1:]))
    for p in rnd:
        p["exposure_next"] = nxt.get(p["exposure"])
    return pts + rnd


def _grid_worker(job):
    seed, Z, A, n_random, lo, hi = job
    import periodictable
    from periodictable import activation as act
    col = Collector()
    rows = [r for r in read_dat() if r["Z"] == Z and r["A"] == A]
    try:
        iso = _isotope_obj(periodictable.elements, Z, A)
        records = list(iso.neutron_activation)
    except Exception as exc:        # noqa
        col.evaluations += len(rows)
        col.add("exception_%s" % type(exc).__name__, rows[0],
                "isotope %s of activation.dat has no activation data in the table" % rows[0]["isotope"],
                {"Z": Z, "A": A, "isotope": rows[0]["isotope"], "row_index": rows[0]["_index"]},
                "%s: %s" % (type(exc).__name__, exc), "neutron_activation records")
        return col.dump()
    recs, note = _match_records(rows, records)
    if note:
        col.stats["note:" + note] = 1
    pts = grid_points(seed, rows[0]["isotope"], n_random)[lo:hi]
    for k, pt in enumerate(pts):
        check_point(act, iso, rows, recs, pt, col,
                    want_sample=(lo == 0 and k in (0, 30) and rows[0]["isotope"] in ("Co-59", "Au-197", "C-13")))
    return col.dump()


GRID_RULE = ("cases = (row of activation.dat, grid point): all 513 rows (own reader) x per isotope 24 corner points "
             "(fluence in {1e2,1e16} x exposure in {1e-3,1e4} h x Cd in {0,1,70} x fast_ratio in {0,50}, mass 1 g) "
             "+ N seeded points (quick N=40, thorough N=4000; fluence, exposure, mass log-uniform over [1e2,1e16], "
             "[1e-3,1e4] h, [1e-6,1e3] g; Cd in {0,1,70}; fast_ratio in {0,50}), rest times (0,1,24,1e5) h.  One real "
             "call activation.activity(isotope, mass, env, exposure, rest_times) per (isotope, point); every product "
             "and rest time against the exact chain solution evaluated in decimal (60 digits, raised when "
             "cancellation eats > 35) at RELATIVE 1e-9 + ABSOLUTE 1e-300; also per case: no exception, no negative "
             "entry, fast rows absent iff fast_ratio == 0, epithermal term iff Cd >= 1 (via the oracle; mismatches "
             "that equal the flipped-epithermal oracle are labelled epithermal_flag), doubled mass -> doubled "
             "activity (rel 1e-12), rest entries == T=0 entry * 2^(-T/T_half) (rel 1e-12 + abs 1e-300), and "
             "A(t2) >= A(t1)*exp(-k1*(t2-t1))*(1-1e-9) - 1e-300 for t2 = next larger exposure of the isotope's grid "
             "with all other inputs fixed (k1 = target depletion rate of the chain; 0 for 'b').  evaluations = "
             "(row, point) pairs; distinct = pairs whose observed T=0 activity is non-zero (when the call raised: "
             "whose oracle value is non-zero).  Rows are enumerated exhaustively, the continuous inputs are a "
             "sample.  Violations are grouped by (cause, row): one entry per group with up to 3 inputs.")


def _select(groups):
    """Round-robin over causes, at most MAX_VIOLATIONS (cause,row) groups; stable order."""
    by_cause = {}
    for (cause, rowname), g in groups.items():
        by_cause.setdefault(cause, []).append((g["row_line"], rowname, g))
    for c in by_cause:
        by_cause[c].sort(key=lambda x: (x[0], x[1]))
    causes = sorted(by_cause)
    out = []
    k = 0
    while len(out) < MAX_VIOLATIONS and any(k < len(by_cause[c]) for c in causes):
        for c in causes:
            if k < len(by_cause[c]) and len(out) < MAX_VIOLATIONS:
                out.append((c,) + by_cause[c][k][1:])
        k += 1
    return out


def _grid_result(tot, rule, exhaustive, notes, task="grid"):
    violations = []
    for cause, rowname, g in _select(tot.groups):
        ex = g["examples"]
        v = {"key": "%s:%s:%s" % (task, cause, rowname),
             "what": ex[0]["what"] + " [%d failing grid points for this row and cause; %d shown]"
                     % (g["count"], len(ex)),
             "input": ex[0]["input"], "observed": ex[0]["observed"], "expected": ex[0]["expected"],
             "more_inputs": [{"input": e["input"], "observed": e["observed"],
                              "expected": e["expected"]} for e in ex[1:]]}
        if g.get("worst") is not None:
            v["worst_relative_error"] = _jf(g["worst_severity"])
            if g["worst"] not in ex:
                v["worst_input"] = {"input": g["worst"]["input"], "observed": g["worst"]["observed"],
                                    "expected": g["worst"]["expected"]}
        violations.append(v)
    per_cause = {}
    for (cause, rowname), g in tot.groups.items():
        c = per_cause.setdefault(cause, {"cases": 0, "rows": []})
        c["cases"] += g["count"]
        c["rows"].append((g["row_line"], rowname, g["count"], g.get("worst_severity")))
    for cause in sorted(per_cause):
        c = per_cause[cause]
        c["rows"].sort(key=lambda x: (x[0], x[1]))
        notes.append("cause %s: %d failing (row, point) cases in %d rows; row (cases%s): %s"
                     % (cause, c["cases"], len(c["rows"]),
                        ", max rel err" if any(w is not None for _, _, _, w in c["rows"]) else "",
                        ", ".join("%s (%d%s)" % (n, k, "" if w is None else ", %.2g" % w)
                                  for _, n, k, w in c["rows"])))
    if tot.ratio_hist:
        notes.append("value/epithermal mismatches by observed/expected at T=0: %s"
                     % "; ".join("%s: %d" % kv for kv in sorted(tot.ratio_hist.items())))
    if len(tot.groups) > len(violations):
        notes.append("violation list holds %d of %d (cause,row) groups (round-robin over causes, file order "
                     "within a cause); the notes above list all of them" % (len(violations), len(tot.groups)))
    for k in sorted(tot.stats):
        notes.append("%s = %s" % (k, tot.stats[k]))
    return {"evaluations": tot.evaluations, "distinct": tot.distinct, "rule": rule, "exhaustive": exhaustive,
            "samples": tot.samples, "violations": violations, "notes": notes}


def _pool(n):
    ctx = multiprocessing.get_context("fork")
    return ctx.Pool(min(NPROC, max(1, n)))


def task_grid(tier, seed, arg):
    t0 = time.time()
    rows = read_dat()
    order, by_iso = rows_by_isotope(rows)
    n_random = 40 if tier == "quick" else 4000
    if isinstance(arg, dict) and "n_random" in arg:
        n_random = int(arg["n_random"])
    total = 24 + n_random
    block = 500
    jobs = []
    for (Z, A) in order:
        for lo in range(0, total, block):
            jobs.append((seed, Z, A, n_random, lo, min(total, lo + block)))
    # import in the parent first so that forked workers share the loaded tables
    import periodictable
    from periodictable import activation as act  # noqa
    try:
        _ = periodictable.elements[1][2].neutron_activation
    except Exception:
        pass
    pool = _pool(len(jobs))
    try:
        parts = pool.map(_grid_worker, jobs, chunksize=1)
    finally:
        pool.close()
        pool.join()
    tot = _merge(parts)
    notes = ["own reader: %d data rows of activation.dat, %d isotopes, reactions: %s; fast rows: %d"
             % (len(rows), len(order),
                ", ".join("%s=%d" % (k, sum(1 for r in rows if r["reaction"] == k))
                          for k in sorted(set(r["reaction"] for r in rows))),
                sum(1 for r in rows if r["fast"])),
             "grid points per row: %d (24 corners + %d seeded), seed=%d; wall time %.1f s"
             % (total, n_random, seed, time.time() - t0),
             "the unit constant 1.6278e19 (= 6.023e23/3.7e4) is taken as given by the oracle"]
    if len(rows) != 513:
        notes.append("ROW COUNT differs from the property's quantifier (513): %d" % len(rows))
    return _grid_result(tot, GRID_RULE, False, notes)


# --------------------------------------------------------------------------- element_sum

# the last six name a natural element together with one of its own isotopes, in both orders: the
# contributions to one product must ADD whichever comes first
FIXED_FORMULAS = ["Co30Fe70", "Au", "Eu", "U", "NaCl",
                  "HDO", "DHO", "CoCo[59]", "Co[59]Co", "Eu2Eu[151]O3", "Li[6]LiF2"]
ENVS = [{"fluence": 1e5, "Cd_ratio": 70.0, "fast_ratio": 50.0},
        {"fluence": 1e13, "Cd_ratio": 0.0, "fast_ratio": 0.0},
        {"fluence": 3e8, "Cd_ratio": 1.0, "fast_ratio": 50.0}]
SUM_REST = (0.0, 1.0, 24.0, 360.0)


def _random_formulas(seed, n):
    import periodictable
    rows = read_dat()
    order, _ = rows_by_isotope(rows)
    rng = random.Random("c14:element_sum:%d" % seed)
    out = []
    while len(out) < n:
        k = rng.randint(2, 4)
        parts = []
        used = set()
        for _ in range(k):
            if rng.random() < 0.25:
                Z, A = rng.choice(order)
                sym = periodictable.elements[Z].symbol
                atom = "%s[%d]" % (sym, A)
            else:
                Z = rng.randint(1, 92)
                atom = periodictable.elements[Z].symbol
            if atom in used:
                continue
            used.add(atom)
            cnt = rng.choice([1, 1, 2, 3, 4, 7, 12])
            parts.append(atom + (str(cnt) if cnt != 1 else ""))
        if len(parts) >= 2:
            out.append("".join(parts))
    return out


def _own_mass_fractions(formula):
    atoms = formula.atoms
    tot = sum(float(n) * float(a.mass) for a, n in atoms.items())
    return dict((a, float(n) * float(a.mass) / tot) for a, n in atoms.items())


def _element_sum_case(act, core, fstr, mass, envd, exposure, abname, viol, notes, counters, samples):
    import periodictable
    rows = read_dat()
    iaea = {}
    for r in rows:
        iaea.setdefault((r["Z"], r["A"]), r["abundance"])
    inp = {"formula": fstr, "mass": mass, "env": envd, "exposure": exposure, "rest_times": list(SUM_REST),
           "abundance": abname}
    abfn = getattr(act, abname)
    env = act.ActivationEnvironment(**envd)
    base_key = "element_sum:%%s:%s:%s:f%g" % (fstr, abname, envd["fluence"])
    try:
        sample = act.Sample(fstr, mass)
        sample.calculate_activation(env, exposure=exposure, rest_times=SUM_REST, abundance=abfn)
        got = dict(sample.activity)
    except Exception as exc:    # noqa
        counters["evaluations"] += 1
        viol.append({"key": base_key % ("exception_%s" % type(exc).__name__),
                     "what": "Sample(%r).calculate_activation raised %s" % (fstr, type(exc).__name__),
                     "input": inp, "observed": "%s: %s" % (type(exc).__name__, exc),
                     "expected": "abundance-weighted sum of the isotopes' activities"})
        return
    # expected: own mass fractions, abundance from the function passed (IAEA: own reader of the abundance column)
    expected = {}
    try:
        fr = _own_mass_fractions(sample.formula)
        for atom, frac in fr.items():
            if core.isisotope(atom):
                for k, v in act.activity(atom, mass * frac, env, exposure, SUM_REST).items():
                    prev = expected.get(k, [0.0] * len(SUM_REST))
                    expected[k] = [a + b for a, b in zip(prev, v)]
            else:
                for A in atom.isotopes:
                    iso = atom[A]
                    if abname == "IAEA1987_isotopic_abundance":
                        ab = iaea.get((atom.number, A), 0.0)
                    else:
                        ab = iso.abundance
                    ab_passed = abfn(iso)
                    if ab != ab_passed:
                        counters["abundance_fn_differs"] = counters.get("abundance_fn_differs", 0) + 1
                    m = mass * frac * ab / 100.0
                    if m:
                        for k, v in act.activity(iso, m, env, exposure, SUM_REST).items():
                            prev = expected.get(k, [0.0] * len(SUM_REST))
                            expected[k] = [a + b for a, b in zip(prev, v)]
    except Exception as exc:    # noqa
        counters["evaluations"] += 1
        viol.append({"key": base_key % ("exception_%s" % type(exc).__name__),
                     "what": "activity() of an isotope of %r raised %s while the sample calculation did not"
                             % (fstr, type(exc).__name__),
                     "input": inp, "observed": "%s: %s" % (type(exc).__name__, exc), "expected": "no exception"})
        return

    def pname(k):
        return "%s->%s:%s" % (getattr(k, "isotope", "?"), getattr(k, "daughter", "?"), getattr(k, "reaction", "?"))
    keys = list(expected.keys()) + [k for k in got if k not in expected]
    if not keys:
        counters["evaluations"] += 1
        counters["empty"] = counters.get("empty", 0) + 1
        notes.append("%s with %s at fluence %g: no product at all (every isotope mass or activation list is empty)"
                     % (fstr, abname, envd["fluence"]))
    for k in keys:
        counters["evaluations"] += 1
        e = expected.get(k)
        o = got.get(k)
        if e is not None and any(v != 0 for v in e):
            counters["distinct"] += 1
        ok = (e is not None and o is not None and len(o) == len(e)
              and all(_close(a, b, REL_EXACT, 0.0) for a, b in zip(o, e)))
        if len(samples) < 5 and fstr in ("Co30Fe70", "NaCl") and e is not None and e[0] > 0 and len(samples) < 2 + 3 * (fstr == "NaCl"):
            samples.append({"input": inp, "product": pname(k), "observed": _jf(o), "expected": _jf(e)})
        if not ok:
            cause = "missing" if o is None else ("unexpected" if e is None else "sum")
            viol.append({"key": (base_key % cause) + ":" + pname(k),
                         "what": "sample.activity[%s] of %s is not the sum over isotopes of activity(iso, "
                                 "mass*mass_fraction*abundance/100) with %s (rel 1e-12)" % (pname(k), fstr, abname),
                         "input": inp, "observed": _jf(o), "expected": _jf(e)})
    # a second calculation on the same Sample replaces the first (no accumulation across calls)
    try:
        sample.calculate_activation(env, exposure=exposure, rest_times=SUM_REST, abundance=abfn)
        counters["evaluations"] += 1
        again = dict(sample.activity)
        if set(map(id, again)) != set(map(id, got)) or any(list(again[k]) != list(got[k]) for k in got if k in again):
            viol.append({"key": base_key % "recalculate",
                         "what": "a second calculate_activation on the same Sample does not reproduce the first",
                         "input": inp, "observed": "differs", "expected": "identical activities"})
    except Exception as exc:    # noqa
        viol.append({"key": base_key % ("exception_%s" % type(exc).__name__),
                     "what": "second calculate_activation raised", "input": inp,
                     "observed": "%s: %s" % (type(exc).__name__, exc), "expected": "no exception"})


SUM_RULE = ("cases = (formula, abundance function, environment, product): formulas Co30Fe70, Au, Eu, U, NaCl + 20 "
            "seeded random compounds (2-4 atoms, Z in 1..92, a quarter of the atoms a specific isotope that has "
            "activation data); masses seeded log-uniform in [1e-3,1e2] g; 3 environments; exposure 10 h; rest "
            "(0,1,24,360).  Expected: sum over the formula's atoms (mass fractions computed here from "
            "formula.atoms and .mass) and the element's isotopes of activity(iso, mass*fraction*abundance/100) "
            "with abundance = Isotope.abundance (NIST2001) or the abundance column of activation.dat read here "
            "(IAEA1987).  rel 1e-12 per entry; the key sets must agree.  distinct = products with a non-zero "
            "expected activity.  A sample, not exhaustive.")


def task_element_sum(tier, seed, arg):
    from periodictable import activation as act, core
    n = 20 if tier == "quick" else 200
    formulas = FIXED_FORMULAS + _random_formulas(seed, n)
    rng = random.Random("c14:element_sum:mass:%d" % seed)
    viol, notes, samples = [], [], []
    counters = {"evaluations": 0, "distinct": 0}
    cases = 0
    for fstr in formulas:
        mass = 10.0 if fstr in FIXED_FORMULAS else _loguniform(rng, 1e-3, 1e2)
        for envd in ENVS:
            for abname in ("NIST2001_isotopic_abundance", "IAEA1987_isotopic_abundance"):
                cases += 1
                _element_sum_case(act, core, fstr, mass, envd, 10.0, abname, viol, notes, counters, samples)
    notes = sorted(set(notes))
    notes.insert(0, "formulas: %s" % ", ".join(formulas))
    notes.insert(1, "sample calculations: %d; isotopes where the abundance function passed disagrees with the "
                    "expected source (IAEA column / Isotope.abundance): %d"
                 % (cases, counters.get("abundance_fn_differs", 0)))
    if len(viol) > MAX_VIOLATIONS:
        notes.append("violation list truncated to %d of %d" % (MAX_VIOLATIONS, len(viol)))
    return {"evaluations": counters["evaluations"], "distinct": counters["distinct"], "rule": SUM_RULE,
            "exhaustive": False, "samples": samples, "violations": viol[:MAX_VIOLATIONS], "notes": notes}


# --------------------------------------------------------------------------- table_columns

_private_counter = [0]


def _tables(seed):
    import periodictable
    from periodictable import core, mass, activation
    yield "public", periodictable.elements
    _private_counter[0] += 1
    name = "c14p%08x_%d_%d" % (random.Random(seed).getrandbits(32), os.getpid(), _private_counter[0])
    t = core.PeriodicTable(name)
    mass.init(t)
    activation.init(t)
    yield "private", t


def _typed_equal(obs, exp):
    if isinstance(exp, bool):
        return type(obs) is bool and obs == exp
    if isinstance(exp, int):
        return type(obs) is int and obs == exp
    if isinstance(exp, float):
        return type(obs) is float and (obs == exp)
    return type(obs) is str and obs == exp


def _table_columns(seed, only=None):
    from periodictable import activation
    rows = read_dat()
    order, by_iso = rows_by_isotope(rows)
    fields = [c for c in COLS if not c.startswith("_")]
    viol, notes, samples = [], [], []
    evaluations = distinct = 0
    if list(activation.COLUMN_NAMES) != COLS:
        notes.append("activation.COLUMN_NAMES differs from the documented layout used here: %r" % (activation.COLUMN_NAMES,))
    for cls, mine in (("INT_COLUMNS", INT_COLS), ("BOOL_COLUMNS", BOOL_COLS), ("FLOAT_COLUMNS", FLOAT_COLS)):
        if tuple(getattr(activation, cls)) != tuple(mine):
            notes.append("activation.%s = %r differs from the documented classes %r" % (cls, getattr(activation, cls), mine))
    # the table states the half-life of an activated parent twice (its own row; the 'b' rows it feeds): they must agree,
    # otherwise the exact chain solution "with the tabulated half-lives" is not defined
    for i, r in enumerate(rows):
        if r["reaction"] != "b":
            continue
        j = i - 1
        while j >= 0 and (rows[j]["reaction"] == "b" or rows[j]["isotope"] != r["isotope"]):
            j -= 1
        inp = {"table": "activation.dat", "Z": r["Z"], "A": r["A"], "field": "parent_half_life", "row": r["name"]}
        if only is not None and only != inp:
            continue
        evaluations += 1
        distinct += 1
        if j < 0 or abs(rows[j]["Thalf_hrs"] - r["Thalf_parent"]) > 1e-9 * abs(rows[j]["Thalf_hrs"]):
            viol.append({"key": "table_columns:parent_half_life:%s" % r["name"],
                         "what": "row %s (decay-fed): its parent half-life %r h differs from the half-life %r h of the row that creates "
                                 "the parent (%s)" % (r["name"], r["Thalf_parent"], rows[j]["Thalf_hrs"] if j >= 0 else None,
                                                      rows[j]["name"] if j >= 0 else "no such row"),
                         "input": inp, "observed": r["Thalf_parent"], "expected": rows[j]["Thalf_hrs"] if j >= 0 else None})
    # every row states its half-life twice as well: value + unit (columns 9, 10) and the same in hours (column 18, the one the
    # calculation uses): they must agree (1 y = 8760 h in this table)
    HOURS = {"s": 1 / 3600.0, "m": 1 / 60.0, "h": 1.0, "d": 24.0, "y": 8760.0}
    for r in rows:
        inp = {"table": "activation.dat", "Z": r["Z"], "A": r["A"], "field": "half_life_hours", "row": r["name"]}
        if only is not None and only != inp:
            continue
        evaluations += 1
        distinct += 1
        try:
            listed = float(r["_Thalf"]) * HOURS[str(r["_Thalf_unit"]).strip()]
        except (KeyError, ValueError, TypeError):
            listed = None
        if listed is None or abs(r["Thalf_hrs"] - listed) > 1e-4 * abs(listed):
            viol.append({"key": "table_columns:half_life_hours:%s" % r["name"],
                         "what": "row %s: the half-life in hours (%r, used by the calculation) is not the listed half-life %s %s"
                                 % (r["name"], r["Thalf_hrs"], r["_Thalf"], r["_Thalf_unit"]),
                         "input": inp, "observed": r["Thalf_hrs"], "expected": listed})
    for label, table in _tables(seed):
        n_rec = 0
        for (Z, A) in order:
            mine = by_iso[(Z, A)]
            try:
                recs = list(table[Z][A].neutron_activation)
                err = None
            except Exception as exc:    # noqa
                recs, err = [], "%s: %s" % (type(exc).__name__, exc)
            n_rec += len(recs)
            inp = {"table": label, "Z": Z, "A": A, "field": "len"}
            if only is None or only == inp:
                evaluations += 1
            if len(recs) != len(mine):
                if only is None or only == inp:
                    viol.append({"key": "table_columns:count:%s:%s" % (mine[0]["isotope"], label),
                                 "what": "%s has %d rows in activation.dat but %d records%s"
                                         % (mine[0]["isotope"], len(mine), len(recs), (" (" + err + ")") if err else ""),
                                 "input": inp, "observed": len(recs), "expected": len(mine)})
            for k, r in enumerate(mine):
                rec = recs[k] if k < len(recs) else None
                for f in fields:
                    inp = {"table": label, "Z": Z, "A": A, "position": k, "row_index": r["_index"], "field": f}
                    if only is not None and only != inp:
                        continue
                    evaluations += 1
                    exp = r[f]
                    if not (isinstance(exp, float) and exp == 0.0) and exp != "":
                        distinct += 1
                    try:
                        obs = getattr(rec, f)
                        ok = _typed_equal(obs, exp)
                        obs_js = _jf(obs) if ok else "%r (%s)" % (obs, type(obs).__name__)
                    except Exception as exc:    # noqa
                        ok, obs_js = False, "%s: %s" % (type(exc).__name__, exc)
                    if len(samples) < 5 and label == "public" and r["name"] in ("Co-59->Co-60:act",) and f in (
                            "thermalXS", "Thalf_hrs", "Thalf_str", "fast", "A"):
                        samples.append({"input": inp, "observed": obs_js, "expected": _jf(exp)})
                    if not ok:
                        viol.append({"key": "table_columns:%s:%s:%s" % (f, r["name"], label),
                                     "what": "record field %s of %s (position %d of %s) differs in value or type "
                                             "from line %d of activation.dat" % (f, r["name"], k, r["isotope"], r["line"]),
                                     "input": inp, "observed": obs_js,
                                     "expected": "%r (%s)" % (exp, type(exp).__name__)})
                if rec is not None and only is None:
                    extra = sorted(set(vars(rec)) - set(fields))
                    missing = sorted(set(fields) - set(vars(rec)))
                    evaluations += 1
                    if extra or missing:
                        viol.append({"key": "table_columns:fieldset:%s:%s" % (r["name"], label),
                                     "what": "record of %s does not have exactly the named (non-underscore) fields" % r["name"],
                                     "input": {"table": label, "Z": Z, "A": A, "position": k, "field": "fieldset"},
                                     "observed": {"extra": extra, "missing": missing}, "expected": fields})
        # converse: no isotope outside activation.dat carries records
        if only is None:
            stray = []
            for el in table:
                for A in el.isotopes:
                    if (el.number, A) not in by_iso and hasattr(el[A], "neutron_activation"):
                        stray.append("%s-%d" % (el.symbol, A))
            evaluations += 1
            if stray:
                viol.append({"key": "table_columns:stray:%s" % label,
                             "what": "isotopes without a row in activation.dat carry activation records",
                             "input": {"table": label, "field": "stray"}, "observed": stray, "expected": []})
        notes.append("[%s] isotopes with rows=%d, records found=%d (rows read here=%d)" % (label, len(order), n_rec, len(rows)))
    return evaluations, distinct, viol, notes, samples


COLUMNS_RULE = ("exhaustive: every data row of activation.dat (own reader: 513 rows) x every named field "
                "(Z, symbol, A, isotope, abundance, daughter, isomer, percentIT, reaction, fast, thermalXS, gT, "
                "resonance, Thalf_hrs, Thalf_str, Thalf_parent, thermalXS_parent, resonance_parent, comments) x "
                "{public table, fresh private table}: elements[Z][A].neutron_activation[k].field has exactly the "
                "value AND type of the row (int / bool ('y') / float (blank -> 0.0) / str verbatim without "
                "surrounding quotes; Thalf_str = '<_Thalf> <_Thalf_unit>'; comments stripped); records per isotope "
                "in file order and as many as rows; only the named fields; no records on other isotopes; the parent half-life of "
                "each of the 29 decay-fed ('b') rows equals the half-life of the row creating that parent.  Exact "
                "equality.  distinct = field comparisons whose expected value is not blank/0.")


def task_table_columns(tier, seed, arg):
    evaluations, distinct, viol, notes, samples = _table_columns(seed)
    if len(viol) > MAX_VIOLATIONS:
        notes.append("violation list truncated to %d of %d" % (MAX_VIOLATIONS, len(viol)))
    return {"evaluations": evaluations, "distinct": distinct, "rule": COLUMNS_RULE, "exhaustive": True,
            "samples": samples, "violations": viol[:MAX_VIOLATIONS], "notes": notes}


# --------------------------------------------------------------------------- replay

def task_replay(tier, seed, arg):
    if not isinstance(arg, dict) or "input" not in arg:
        raise ValueError("replay needs --arg '{\"input\": ..., \"key\": ...}'")
    inp = arg["input"]
    key = arg.get("key") or ""
    task = key.split(":", 1)[0] if key else ("table_columns" if "field" in inp else
                                              "element_sum" if "formula" in inp else "grid")
    if task == "grid":
        import periodictable
        from periodictable import activation as act
        Z, A = int(inp["Z"]), int(inp["A"])
        rows = [r for r in read_dat() if r["Z"] == Z and r["A"] == A]
        col = Collector()
        iso = _isotope_obj(periodictable.elements, Z, A)
        recs, note = _match_records(rows, list(iso.neutron_activation))
        pt = {"fluence": float(inp["fluence"]), "Cd_ratio": float(inp["Cd_ratio"]),
              "fast_ratio": float(inp["fast_ratio"]), "mass": float(inp["mass"]),
              "exposure": float(inp["exposure"]),
              "exposure_next": None if inp.get("exposure_next") is None else float(inp["exposure_next"])}
        check_point(act, iso, rows, recs, pt, col, want_sample=True)
        res = _grid_result(col, "replay of one grid point (all rows of the isotope): " + GRID_RULE, False,
                           ["replayed input=%r key=%r" % (inp, key)] + ([note] if note else []))
        res["violations"].sort(key=lambda v: (v["key"] != key,))
        return res
    if task == "element_sum":
        from periodictable import activation as act, core
        viol, notes, samples = [], [], []
        counters = {"evaluations": 0, "distinct": 0}
        _element_sum_case(act, core, inp["formula"], float(inp["mass"]), dict(inp["env"]), float(inp["exposure"]),
                          inp["abundance"], viol, notes, counters, samples)
        viol.sort(key=lambda v: (v["key"] != key,))
        return {"evaluations": counters["evaluations"], "distinct": counters["distinct"],
                "rule": "replay of one sample calculation: " + SUM_RULE, "exhaustive": False, "samples": samples,
                "violations": viol[:MAX_VIOLATIONS], "notes": ["replayed input=%r key=%r" % (inp, key)] + notes}
    evaluations, distinct, viol, notes, samples = _table_columns(seed, only=None if inp.get("field") in (
        "len", "fieldset", "stray") else dict(inp))
    if inp.get("field") in ("len", "fieldset", "stray"):
        viol = [v for v in viol if v["input"] == inp] + [v for v in viol if v["input"] != inp]
    viol.sort(key=lambda v: (v["key"] != key,))
    if evaluations == 0:
        notes.append("NO evaluation matched the replay input")
    return {"evaluations": evaluations, "distinct": distinct,
            "rule": "replay of one table_columns input: " + COLUMNS_RULE, "exhaustive": False, "samples": samples,
            "violations": viol[:MAX_VIOLATIONS], "notes": ["replayed input=%r key=%r" % (inp, key)] + notes}
