"""C20 -- ancillary tables (covalent radius, crystal structure, K emission lines, magnetic form
factors, Cromer-Mann coefficients) against independent readers of the embedded data, and the
magnetic form-factor formulas.

Tasks: eval_tables, formfactors, replay (see /verif/runner/README.md).

Independence: every expected value is re-read here from the module *source text* (``ast`` string /
list literals) or from the DABAX data file, with readers written from the documented layouts.  The
library's loaders (``init``, ``_update_cmformulas``) and evaluators (``formfactor_0/_n``) are only
ever called as the code under test.
"""
import ast
import math
import os
import random
import re
import sys
import time
from fractions import Fraction

REPO = os.environ.get("VERIF_REPO", "/repo")
PKG = os.path.join(REPO, "periodictable")

ZMAX = 118
MAG_FIELDS = ("j0", "j2", "j4", "j6", "J")
MAX_VIOLATIONS = 60


# --------------------------------------------------------------------------------------------
# independent readers
# --------------------------------------------------------------------------------------------

def _module_ast(filename):
    with open(os.path.join(PKG, filename), "rb") as fh:
        raw = fh.read()
    return ast.parse(raw), raw          # bytes: ast honours the coding cookie (latin-1 in one file)


def _literal(tree, name):
    for node in tree.body:
        if isinstance(node, ast.Assign) and len(node.targets) == 1 \
                and isinstance(node.targets[0], ast.Name) and node.targets[0].id == name:
            return ast.literal_eval(node.value), node
    raise LookupError("no module-level literal %r" % name)


def _init_literals(tree, fname="init"):
    """`table[<int>].<attr> = <constant>` statements inside the loader: entries embedded as code."""
    out = {}
    for node in tree.body:
        if isinstance(node, ast.FunctionDef) and node.name == fname:
            for st in ast.walk(node):
                if isinstance(st, ast.Assign) and len(st.targets) == 1:
                    t = st.targets[0]
                    if isinstance(t, ast.Attribute) and isinstance(t.value, ast.Subscript) \
                            and isinstance(t.value.value, ast.Name) and t.value.value.id == "table" \
                            and isinstance(t.value.slice, ast.Constant) \
                            and isinstance(t.value.slice.value, int) \
                            and isinstance(st.value, ast.Constant):
                        out[(t.value.slice.value, t.attr)] = st.value.value
    return out


def read_cordero():
    """Cordero table: `Z|'-'  label  radius  [uncertainty(0.01 A)  n_measurements]`.

    A row with a number opens the element; following '-' rows are alternate spin states of the same
    element (not used: first spin state wins).  Missing uncertainty field => 0."""
    tree, raw = _module_ast("covalent_radius.py")
    text, node = _literal(tree, "Cordero")
    notes = []
    radius, unc, label, nrows, nalt = {}, {}, {}, 0, 0
    zero_unc_syms = []
    cur = None
    for ln in text.split("\n"):
        f = ln.split()
        if not f:
            continue
        nrows += 1
        if f[0] == "-":
            nalt += 1
            if cur is None:
                notes.append("Cordero: alternate row before any element row: %r" % ln)
            continue
        Z = int(f[0])
        cur = Z
        if Z in radius:                       # a second numbered row of the same element: keep first
            notes.append("Cordero: element Z=%d has a second numbered row (first kept)" % Z)
            continue
        label[Z] = f[1]
        radius[Z] = float(f[2])
        if len(f) > 3:
            unc[Z] = float(Fraction(f[3]) / 100)     # field counts 0.01 Angstrom
            if Fraction(f[3]) == 0:
                zero_unc_syms.append(f[1])
        else:
            unc[Z] = 0.0
            zero_unc_syms.append(f[1])
    # confirmation from the module's own comments / docstring
    src = raw.decode("latin-1")
    # (comments are read for the notes only; a reformatted source simply has none to confirm)
    pos = src.find('Cordero = ')
    head = src[:pos] if pos >= 0 else ""
    c1 = len(head.split("\n")) >= 2 and "uncertainty (0.01A)" in head.split("\n")[-2]
    c2 = "only the first spin state is used" in head
    doc = ast.get_docstring(tree) or ""
    m = re.search(r"uncertainty of 0\.00\.\s+These are ([A-Za-z,\s]+?)\.", doc)
    doc_zero = [s.strip() for s in m.group(1).replace("\n", " ").split(",")] if m else None
    notes.append("Cordero comments: column header says uncertainty unit 0.01A: %s; 'only the first "
                 "spin state is used': %s; docstring zero-uncertainty list %s %s rows without/with "
                 "zero uncertainty field %s"
                 % (c1, c2, doc_zero, "==" if doc_zero is not None and sorted(doc_zero) ==
                    sorted(zero_unc_syms) else "!=", sorted(zero_unc_syms)))
    lit = _init_literals(tree)
    return dict(radius=radius, unc=unc, label=label, nrows=nrows, nalt=nalt, literals=lit,
                notes=notes)


def read_crystal():
    tree, raw = _module_ast("crystal_structure.py")
    lst, node = _literal(tree, "crystal_structures")
    lines = raw.decode("latin-1").split("\n")
    comments = []
    for elt in node.value.elts:
        ln = lines[elt.end_lineno - 1]
        comments.append(ln.rsplit("#", 1)[1].strip() if "#" in ln else None)
    return dict(entries=list(lst), comments=comments)


def read_emission():
    tree, _ = _module_ast("xsf.py")
    text, _ = _literal(tree, "spectral_lines_data")
    rows, notes, n = {}, [], 0
    for ln in text.split("\n"):
        f = ln.split()
        if not f:
            continue
        n += 1
        if len(f) != 3:
            notes.append("emission: malformed row %r" % ln)
            continue
        if f[0] in rows:
            notes.append("emission: duplicate row for %s (first kept)" % f[0])
            continue
        rows[f[0]] = (float(f[1]), float(f[2]))
    return dict(rows=rows, nrows=n, notes=notes)


_CFML_RE = re.compile(
    r'Magnetic_(Form|j2|j4|j6)\s*\(\s*(\d+)\s*\)\s*=\s*Magnetic_Form_Type\s*\(\s*"([^"]*)"\s*,'
    r'\s*(?:&\s*\n)?\s*\(/([^/]*)/\)\s*\)')


def read_cfml(symbol_by_upper):
    """CrysFML source fragment: `Magnetic_Form(n) = Magnetic_Form_Type("<M|J><EL><q>", (/7 numbers/))`
    and `Magnetic_j2|j4|j6(n) = Magnetic_Form_Type("<EL><q>", (/7 numbers/))`, `&` = continuation.
    <EL> is the upper-cased element symbol (one or two letters), <q> the trailing digits."""
    tree, _ = _module_ast("magnetic_ff.py")
    text, _ = _literal(tree, "CFML_DATA")
    notes = []
    data = {}            # (symbol, charge) -> {field: tuple}
    per_kind = {}
    seq = {}
    nstmt = len(re.findall(r"Magnetic_\w+\s*\(\s*\d+\s*\)\s*=", text))
    nmatch = 0
    for m in _CFML_RE.finditer(text):
        nmatch += 1
        kind, idx, lab, nums = m.group(1), int(m.group(2)), m.group(3), m.group(4)
        seq.setdefault(kind, []).append(idx)
        vals = tuple(float(x) for x in nums.replace("&", " ").replace("\n", " ").split(","))
        if len(vals) != 7:
            notes.append("CFML: %s(%d) %r has %d numbers" % (kind, idx, lab, len(vals)))
        lab = lab.strip()
        if kind == "Form":
            pre, ion = lab[0], lab[1:].strip()
            field = {"M": "j0", "J": "J"}.get(pre)
            if field is None:
                notes.append("CFML: Form label %r has prefix %r" % (lab, pre))
                continue
        else:
            field, ion = kind, lab
        mm = re.fullmatch(r"([A-Z]+)(\d+)", ion)
        if not mm or mm.group(1) not in symbol_by_upper:
            notes.append("CFML: cannot read ion label %r of %s(%d)" % (lab, kind, idx))
            continue
        sym, q = symbol_by_upper[mm.group(1)], int(mm.group(2))
        slot = data.setdefault((sym, q), {})
        if field in slot:
            notes.append("CFML: %s(%d) repeats %s for %s%d with %s numbers (first kept)"
                         % (kind, idx, field, sym, q,
                            "identical" if slot[field] == vals else "DIFFERENT"))
            continue
        slot[field] = vals
        per_kind[field] = per_kind.get(field, 0) + 1
    if nmatch != nstmt:
        notes.append("CFML: %d statements but %d parsed" % (nstmt, nmatch))
    for k, v in seq.items():
        if v != list(range(1, len(v) + 1)):
            notes.append("CFML: Magnetic_%s indices are not 1..%d in order" % (k, len(v)))
    return dict(data=data, per_kind=per_kind, nstmt=nstmt, notes=notes)


def read_waaskirf():
    """DABAX: `#S <n> <symbol>` opens a block, `#N <ncols>`, `#L <column labels>`, then one data row."""
    path = os.path.join(PKG, "xsf", "f0_WaasKirf.dat")
    entries, order, notes = {}, [], []
    sym = labels = None
    with open(path) as fh:
        for ln in fh:
            if ln.startswith("#S"):
                sym = ln.split()[2]
                labels = None
            elif ln.startswith("#L"):
                labels = ln.split()[1:]
            elif ln.startswith("#") or not ln.strip():
                continue
            else:
                vals = [float(x) for x in ln.split()]
                if sym is None or labels is None or len(vals) != len(labels):
                    notes.append("WaasKirf: stray data row %r" % ln[:40])
                    continue
                col = dict(zip(labels, vals))
                ent = dict(a=[col["a%d" % i] for i in range(1, 6)],
                           b=[col["b%d" % i] for i in range(1, 6)], c=col["c"])
                if sym in entries:
                    notes.append("WaasKirf: duplicate block %s (last kept, as for a dict)" % sym)
                else:
                    order.append(sym)
                entries[sym] = ent
                sym = None
    return dict(entries=entries, order=order, notes=notes)


# --------------------------------------------------------------------------------------------
# context: tables under test + oracles
# --------------------------------------------------------------------------------------------

class Ctx(object):
    pass


def _touch_public(pt):
    """First-touch every lazy group on the public table (C10 ordering defects are not C20's)."""
    for sym, attr in (("H", "covalent_radius"), ("H", "crystal_structure"), ("Cu", "K_alpha"),
                      ("Fe", "magnetic_ff")):
        try:
            getattr(getattr(pt.elements, sym), attr)
        except Exception:
            pass


def _make_private(ctx, seed):
    from periodictable import core, covalent_radius, crystal_structure, xsf, magnetic_ff
    rng = random.Random(seed)
    while True:
        name = "c20p%08x" % rng.getrandbits(32)
        if name not in core.PRIVATE_TABLES:
            break
    t = core.PeriodicTable(name)
    errs = []
    for label, fn in (("covalent_radius.init", covalent_radius.init),
                      ("crystal_structure.init", crystal_structure.init),
                      ("xsf.init_spectral_lines", xsf.init_spectral_lines),
                      ("magnetic_ff.init", magnetic_ff.init)):
        try:
            fn(t)
        except Exception as exc:                       # reported by the caller
            errs.append("%s(private) raised %s: %s" % (label, type(exc).__name__, exc))
    ctx.tables["private"] = t
    ctx.private_name = name
    ctx.private_errors = errs
    return t


def _build_ctx():
    sys.path.insert(0, REPO) if REPO not in sys.path else None
    import periodictable as pt
    ctx = Ctx()
    ctx.pt = pt
    ctx.tables = {"public": pt.elements}
    ctx.symbols = {}
    for Z in range(0, ZMAX + 1):
        ctx.symbols[Z] = pt.elements[Z].symbol
    ctx.nelements = sum(1 for _ in pt.elements)
    upper = {s.upper(): s for s in ctx.symbols.values()}
    ctx.cordero = read_cordero()
    ctx.crystal = read_crystal()
    ctx.emission = read_emission()
    ctx.cfml = read_cfml(upper)
    ctx.cm = read_waaskirf()
    # expected radius entries: literals in init first, table rows override (statement order)
    ctx.radius = {}
    ctx.unc = {}
    for (Z, attr), v in ctx.cordero["literals"].items():
        if attr == "covalent_radius":
            ctx.radius[Z] = float(v)
        elif attr == "covalent_radius_uncertainty":
            ctx.unc[Z] = float(v)
    ctx.radius.update(ctx.cordero["radius"])
    ctx.unc.update(ctx.cordero["unc"])
    ctx.mag_by_symbol = {}
    for (sym, q) in ctx.cfml["data"]:
        ctx.mag_by_symbol.setdefault(sym, set()).add(q)
    ctx.cm_by_element = {}
    for s in ctx.cm["entries"]:
        m = re.match(r"[A-Z][a-z]?", s)
        ctx.cm_by_element.setdefault(m.group(0) if m else s, []).append(s)
    return ctx


# --------------------------------------------------------------------------------------------
# evaluation of one case
# --------------------------------------------------------------------------------------------

def _js(v):
    """JSON-able rendering of an observed value."""
    try:
        import numpy
        if isinstance(v, numpy.ndarray):
            return v.tolist()
        if isinstance(v, numpy.generic):
            return v.item()
    except Exception:
        pass
    if isinstance(v, (list, tuple)):
        return [_js(x) for x in v]
    if isinstance(v, dict):
        return {str(k): _js(x) for k, x in v.items()}
    if v is None or isinstance(v, (bool, int, float, str)):
        return v
    return repr(v)


def _get(fn):
    try:
        return ("value", fn())
    except AttributeError as exc:
        return ("AttributeError", str(exc))
    except KeyError as exc:
        return ("KeyError", str(exc))
    except Exception as exc:
        return ("exception", "%s: %s" % (type(exc).__name__, exc))


def _absent_ok(got):
    return got[0] in ("AttributeError", "KeyError") or (got[0] == "value" and got[1] is None)


def _obs(got):
    return {"value": _js(got[1])} if got[0] == "value" else {got[0]: got[1]}


def _close(a, b, rel):
    return a == b or abs(a - b) <= rel * max(abs(a), abs(b))


def _seq_equal(obs, exp):
    try:
        o = [float(x) for x in obs]
    except Exception:
        return False
    return len(o) == len(exp) and all(x == y for x, y in zip(o, exp))


def _whose(ctx, family, value):
    """Which table entries carry this value (to name the neighbour when data is relabelled)."""
    hits = []
    try:
        if family == "covalent_radius":
            hits = [ctx.symbols.get(Z, Z) for Z, v in sorted(ctx.radius.items()) if v == value]
        elif family == "covalent_radius_uncertainty":
            hits = [ctx.symbols.get(Z, Z) for Z, v in sorted(ctx.unc.items())
                    if _close(v, value, 1e-12)]
        elif family == "crystal_structure":
            hits = [ctx.symbols.get(Z, Z) for Z, v in enumerate(ctx.crystal["entries"])
                    if v is not None and v == value]
        elif family in ("K_alpha", "K_beta1"):
            i = 0 if family == "K_alpha" else 1
            hits = [s for s, v in sorted(ctx.emission["rows"].items()) if v[i] == value]
        elif family.startswith("magnetic_ff."):
            fld = family.split(".")[1]
            hits = ["%s%d.%s" % (s, q, f) for (s, q), d in sorted(ctx.cfml["data"].items())
                    for f, v in d.items() if _seq_equal(value, list(v))]
        elif family.startswith("cromermann"):
            for s in ctx.cm["order"]:
                e = ctx.cm["entries"][s]
                if (hasattr(value, "a") and _seq_equal(value.a, e["a"])) \
                        or (isinstance(value, (list, tuple)) and
                            (_seq_equal(value, e["a"]) or _seq_equal(value, e["b"]))) \
                        or (isinstance(value, float) and value == e["c"]):
                    hits.append(s)
    except Exception:
        pass
    return hits[:4]


def _key(inp):
    return "eval_tables:%s:%s:%s" % (inp["family"], inp["id"], inp["table"])


def _eval_case(ctx, inp):
    """Returns dict(ok, observed, expected, what, positive)."""
    fam, tab = inp["family"], inp["table"]
    res = dict(ok=True, observed=None, expected=None, what="", positive=False)

    def finish_value(got, exp, eq, clause):
        res["positive"] = True
        res["expected"] = _js(exp)
        res["observed"] = _obs(got)
        if got[0] != "value" or got[1] is None or not eq(got[1]):
            res["ok"] = False
            other = _whose(ctx, fam, got[1]) if got[0] == "value" and got[1] is not None else []
            res["what"] = "%s of %s (%s table) is not the embedded table entry%s" % (
                clause, inp["id"], tab,
                "; the observed value is the entry of %s" % other if other else "")

    def finish_absent(got, clause):
        res["expected"] = "None / AttributeError / KeyError (no table entry)"
        res["observed"] = _obs(got)
        if not _absent_ok(got):
            res["ok"] = False
            other = _whose(ctx, fam, got[1]) if got[0] == "value" else []
            res["what"] = "%s has no entry for %s but the %s table reports data%s" % (
                clause, inp["id"], tab,
                " -- it is the entry of %s" % other if other else
                (" that is no entry of the table" if got[0] == "value" else ""))

    if fam.startswith("cromermann"):
        from periodictable import cromermann
        sym = inp["id"]
        got = _get(lambda: cromermann.getCMformula(sym))
        ent = ctx.cm["entries"].get(sym)
        fld = fam.split(".")[1]
        if fld == "entry":
            finish_absent(got, "the Cromer-Mann table")
            return res
        if got[0] == "value" and got[1] is not None:
            got = _get(lambda: getattr(got[1], fld))
        if fld == "c":
            finish_value(got, ent["c"], lambda v: isinstance(v, float) and v == ent["c"],
                         "Cromer-Mann c")
        else:
            finish_value(got, ent[fld], lambda v: _seq_equal(v, ent[fld]), "Cromer-Mann " + fld)
        return res

    table = ctx.tables[tab]
    Z = inp["Z"]
    el = table[Z]
    sym = ctx.symbols[Z]

    if fam == "covalent_radius":
        got = _get(lambda: el.covalent_radius)
        if Z in ctx.radius:
            finish_value(got, ctx.radius[Z], lambda v: isinstance(v, float) and v == ctx.radius[Z],
                         "covalent_radius")
        else:
            finish_absent(got, "the Cordero table")
    elif fam == "covalent_radius_uncertainty":
        got = _get(lambda: el.covalent_radius_uncertainty)
        if Z in ctx.unc:
            finish_value(got, ctx.unc[Z],
                         lambda v: isinstance(v, float) and _close(v, ctx.unc[Z], 1e-12),
                         "covalent_radius_uncertainty (field x 0.01 A, rel 1e-12)")
        else:
            finish_absent(got, "the Cordero table")
    elif fam == "crystal_structure":
        got = _get(lambda: el.crystal_structure)
        ents = ctx.crystal["entries"]
        if Z < len(ents) and ents[Z] is not None:
            finish_value(got, ents[Z], lambda v: isinstance(v, dict) and v == ents[Z],
                         "crystal_structure (list index Z)")
        else:
            finish_absent(got, "the crystal structure list")
    elif fam in ("K_alpha", "K_beta1"):
        got = _get(lambda: getattr(el, fam))
        row = ctx.emission["rows"].get(sym)
        if row is not None:
            exp = row[0 if fam == "K_alpha" else 1]
            finish_value(got, exp, lambda v: isinstance(v, float) and v == exp, fam)
        else:
            finish_absent(got, "the emission line table")
    elif fam == "magnetic_ff.charges":
        got = _get(lambda: el.magnetic_ff)
        exp = sorted(ctx.mag_by_symbol.get(sym, ()))
        if exp:
            res["positive"] = True
            res["expected"] = exp
            if got[0] == "value" and got[1] is not None:
                try:
                    keys = sorted(got[1].keys())
                except Exception:
                    keys = repr(got[1])
                res["observed"] = {"charges": _js(keys)}
                res["ok"] = keys == exp
            else:
                res["observed"] = _obs(got)
                res["ok"] = False
            if not res["ok"]:
                res["what"] = ("the charge states under %s.magnetic_ff (%s table) are not those "
                               "listed for the element in the CFML table" % (sym, tab))
        else:
            res["expected"] = "None / AttributeError / empty (no CFML entry)"
            if got[0] == "value" and got[1] is not None:
                try:
                    keys = sorted(got[1].keys())
                except Exception:
                    keys = repr(got[1])
                res["observed"] = {"charges": _js(keys)}
                res["ok"] = keys == []
            else:
                res["observed"] = _obs(got)
                res["ok"] = _absent_ok(got)
            if not res["ok"]:
                res["what"] = ("the CFML table has no entry for %s but the %s table reports "
                               "magnetic form factors" % (sym, tab))
    elif fam.startswith("magnetic_ff."):
        fld = fam.split(".")[1]
        q = inp["charge"]
        got = _get(lambda: el.magnetic_ff)
        if got[0] == "value" and got[1] is not None:
            got = _get(lambda: got[1][q])
        if fld == "entry":
            finish_absent(got, "the CFML table")
            return res
        slot = ctx.cfml["data"][(sym, q)]
        if got[0] == "value" and got[1] is not None:
            got = _get(lambda: getattr(got[1], fld))
        if fld in slot:
            exp = list(slot[fld])
            finish_value(got, exp, lambda v: isinstance(v, (tuple, list)) and _seq_equal(v, exp),
                         "magnetic_ff[%d].%s" % (q, fld))
        else:
            finish_absent(got, "the CFML <%s> list" % fld)
    else:
        raise ValueError("unknown family %r" % fam)
    return res


def _cases_for_table(ctx, tab):
    """All (element/ion, field) cases of one table, each exactly once."""
    table = ctx.tables[tab]
    out = []
    for Z in range(0, ZMAX + 1):
        sym = ctx.symbols[Z]
        for fam in ("covalent_radius", "covalent_radius_uncertainty", "crystal_structure",
                    "K_alpha", "K_beta1", "magnetic_ff.charges"):
            out.append(dict(family=fam, table=tab, Z=Z, id=sym, nontrivial=True))
        listed = ctx.mag_by_symbol.get(sym, set())
        try:
            ions = set(int(c) for c in table[Z].ions)
        except Exception:
            ions = set()
        for q in sorted(ions | set(range(0, 8)) | listed):
            ident = "%s%d" % (sym, q)
            if q in listed:
                for fld in MAG_FIELDS:
                    out.append(dict(family="magnetic_ff." + fld, table=tab, Z=Z, charge=q,
                                    id=ident, nontrivial=True))
            else:
                # an ion without entry: only non-trivial when the element has *some* entry
                out.append(dict(family="magnetic_ff.entry", table=tab, Z=Z, charge=q, id=ident,
                                nontrivial=bool(listed)))
    return out


def _cm_symbol(sym, q):
    if q == 0:
        return sym
    return "%s%d%s" % (sym, abs(q), "+" if q > 0 else "-")


def _cases_cm(ctx):
    out = []
    for s in ctx.cm["order"]:
        for fld in ("a", "b", "c"):
            out.append(dict(family="cromermann." + fld, table="global", id=s, nontrivial=True))
    table = ctx.tables["public"]
    seen = set(ctx.cm["entries"])
    for Z in range(0, ZMAX + 1):
        sym = ctx.symbols[Z]
        try:
            ions = set(int(c) for c in table[Z].ions)
        except Exception:
            ions = set()
        for q in sorted(ions | {0}):
            s = _cm_symbol(sym, q)
            if s in seen:
                continue
            seen.add(s)
            out.append(dict(family="cromermann.entry", table="global", id=s,
                            nontrivial=(q == 0 or sym in ctx.cm_by_element)))
    return out


def _pick_violations(viol):
    """At most MAX_VIOLATIONS, round-robin over families so that no family hides another."""
    if len(viol) <= MAX_VIOLATIONS:
        return viol
    groups, order = {}, []
    for v in viol:
        fam = v["key"].split(":")[1]
        if fam not in groups:
            groups[fam] = []
            order.append(fam)
        groups[fam].append(v)
    chosen = []
    i = 0
    while len(chosen) < MAX_VIOLATIONS:
        progressed = False
        for fam in order:
            if i < len(groups[fam]) and len(chosen) < MAX_VIOLATIONS:
                chosen.append(groups[fam][i])
                progressed = True
        if not progressed:
            break
        i += 1
    idx = {id(v): n for n, v in enumerate(viol)}
    chosen.sort(key=lambda v: idx[id(v)])
    return chosen


def _run_cases(ctx, cases, viol, counts, samples, want_samples):
    verdict = {}
    for inp in cases:
        try:
            r = _eval_case(ctx, inp)
        except Exception as exc:
            r = dict(ok=False, observed={"harness/exception": "%s: %s" % (type(exc).__name__, exc)},
                     expected=None, what="evaluating the case raised", positive=False)
        key = _key(inp)
        verdict[key] = (r["ok"], r["observed"])
        fam = inp["family"]
        c = counts.setdefault(fam, dict(n=0, positive=0, negative=0, nontrivial=0, failed=0))
        c["n"] += 1
        c["positive" if r["positive"] else "negative"] += 1
        if inp.get("nontrivial"):
            c["nontrivial"] += 1
        if not r["ok"]:
            c["failed"] += 1
            public_inp = {k: v for k, v in inp.items() if k != "nontrivial"}
            viol.append(dict(key=key, what=r["what"], input=public_inp, observed=r["observed"],
                             expected=r["expected"]))
        if want_samples and fam in want_samples and r["positive"]:
            want_samples.discard(fam)
            samples.append(dict(key=key, observed=r["observed"], expected=r["expected"]))
    return verdict


def task_eval_tables(tier, seed, arg):
    t0 = time.time()
    ctx = _build_ctx()
    notes, viol, counts, samples = [], [], {}, []
    want = {"covalent_radius", "crystal_structure", "K_alpha", "magnetic_ff.j0", "cromermann.a"}

    # public first (first touch of the lazy groups), then the private table
    pub_cases = _cases_for_table(ctx, "public")
    pub_verdict = _run_cases(ctx, pub_cases, viol, counts, samples, want)
    _make_private(ctx, seed)
    for e in ctx.private_errors:
        viol.append(dict(key="eval_tables:init:%s:private" % e.split("(")[0], what=e,
                         input=dict(family="init", table="private", id=e.split("(")[0]),
                         observed=e, expected="loader completes"))
    prv_cases = _cases_for_table(ctx, "private")
    _run_cases(ctx, prv_cases, viol, counts, samples, set())
    cm_cases = _cases_cm(ctx)
    _run_cases(ctx, cm_cases, viol, counts, samples, want)

    # public table re-read after the private table was initialised (not counted as evaluations)
    flips = 0
    for inp in pub_cases:
        try:
            r = _eval_case(ctx, inp)
        except Exception as exc:
            r = dict(ok=False, observed=repr(exc), expected=None, what="", positive=False)
        before = pub_verdict[_key(inp)]
        if (r["ok"], r["observed"]) != before:
            flips += 1
            pi = {k: v for k, v in inp.items() if k != "nontrivial"}
            pi["after_private_init"] = True
            viol.append(dict(key=_key(inp) + "@after-private-init",
                             what="the public table's value changed after initialising a private "
                                  "table", input=pi, observed=r["observed"], expected=before[1]))

    total = sum(c["n"] for c in counts.values())
    distinct = sum(c["nontrivial"] for c in counts.values())
    nviol = len(viol)
    fam_fail = {}
    for v in viol:
        fam_fail[v["key"].split(":")[1]] = fam_fail.get(v["key"].split(":")[1], 0) + 1

    cfml = ctx.cfml
    notes.append("oracle rows read independently: Cordero %d rows (%d numbered elements + %d "
                 "alternate spin-state rows skipped) + %d literal entr%s in init %s => %d radii, %d "
                 "uncertainties; crystal list %d slots (%d non-None); emission %d rows; CFML %d "
                 "statements -> %d charge states over %d elements (per field %s); Waasmaier-Kirfel "
                 "%d blocks"
                 % (ctx.cordero["nrows"], len(ctx.cordero["radius"]), ctx.cordero["nalt"],
                    len(ctx.cordero["literals"]), "y" if len(ctx.cordero["literals"]) == 1 else "ies",
                    sorted("%s[%d]=%r" % (a, z, v) for (z, a), v in ctx.cordero["literals"].items()),
                    len(ctx.radius), len(ctx.unc), len(ctx.crystal["entries"]),
                    sum(1 for e in ctx.crystal["entries"] if e is not None),
                    len(ctx.emission["rows"]), cfml["nstmt"], len(cfml["data"]),
                    len(ctx.mag_by_symbol), dict(sorted(cfml["per_kind"].items())),
                    len(ctx.cm["entries"])))
    notes.append("evaluations per family (n/positive=entry exists/negative=no entry/non-trivial/"
                 "failed): " + "; ".join("%s %d/%d/%d/%d/%d" % (f, c["n"], c["positive"],
                                                                 c["negative"], c["nontrivial"],
                                                                 c["failed"])
                                         for f, c in sorted(counts.items())))
    notes.append("elements per table: Z=0..%d (%d; the table iterates %d elements); private table "
                 "%r initialised with covalent_radius.init, crystal_structure.init, "
                 "xsf.init_spectral_lines, magnetic_ff.init (none of them needs mass/density) "
                 "AFTER the public table's lazy groups were first touched; Cromer-Mann formulas are "
                 "a module-level dict without table (label 'global')"
                 % (ZMAX, ZMAX + 1, ctx.nelements, ctx.private_name))
    notes.append("public table re-read after private init: %d of %d cases changed" %
                 (flips, len(pub_cases)))
    mism = [(i, ctx.symbols.get(i), c) for i, c in enumerate(ctx.crystal["comments"])
            if c != ctx.symbols.get(i)]
    notes.append("crystal_structures: trailing '#Sym' comments differing from the symbol of index "
                 "Z (documentation only; index is the layout): %s" % mism)
    bad_label = [(Z, ctx.symbols.get(Z), lab) for Z, lab in sorted(ctx.cordero["label"].items())
                 if not lab.startswith(ctx.symbols.get(Z, "?"))]
    notes.append("Cordero: row labels not starting with the symbol of their Z: %s" % bad_label)
    nbit = sum(1 for Z, u in ctx.unc.items()
               if isinstance(getattr(ctx.tables["public"][Z], "covalent_radius_uncertainty", None),
                             float)
               and ctx.tables["public"][Z].covalent_radius_uncertainty != u)
    notes.append("covalent_radius_uncertainty: %d public values differ in the last bits from the "
                 "correctly rounded field/100 (compared at rel 1e-12 because of the unit "
                 "conversion); all other fields compared with exact equality" % nbit)
    notes.append("CFML labels: 'M'/'J' prefix only on Magnetic_Form statements; ion = letters "
                 "(symbol, upper case) + trailing digits (charge), so Form 'MO1' is O charge 1 "
                 "(like 'JO1 ') while j2/j4 'MO1 ' is Mo charge 1; charge read as the unsigned "
                 "digit of the label")
    for src in (ctx.cordero, ctx.emission, ctx.cfml, ctx.cm):
        notes.extend(src["notes"])
    if nviol:
        notes.append("violations: %d in total, per family %s%s"
                     % (nviol, dict(sorted(fam_fail.items())),
                        "; list truncated to %d round-robin over families" % MAX_VIOLATIONS
                        if nviol > MAX_VIOLATIONS else ""))
    notes.append("runtime %.2f s" % (time.time() - t0))
    return dict(
        evaluations=total, distinct=distinct,
        rule="one case per (table in {public, fresh private}, element Z=0..118 or ion, field): "
             "covalent_radius, covalent_radius_uncertainty, crystal_structure, K_alpha, K_beta1, "
             "set of magnetic charge states, j0/j2/j4/j6/J per listed charge state, one 'entry' "
             "case per unlisted charge in el.ions U {0..7}; plus (table-less) Cromer-Mann a/b/c "
             "for all blocks of f0_WaasKirf.dat and one 'entry' case per neutral symbol / el.ions "
             "ion without block.  Expected values come from readers of the module source (ast "
             "literals) and the DABAX file; exact float equality except uncertainty (rel 1e-12).  "
             "A case is non-trivial when the entry exists, or it is an element-level absence, or "
             "an ion-level absence of an element that has some entry in that table (a neighbour "
             "to be confused with); all cases are distinct by construction.  No bound: the finite "
             "space is enumerated completely.",
        exhaustive=True, samples=samples[:5], violations=_pick_violations(viol), notes=notes)


# --------------------------------------------------------------------------------------------
# formfactors
# --------------------------------------------------------------------------------------------

TOL = 1e-12
STRICT_MISSES = [0]      # points accepted only through the cancellation-safe scale (|terms| sum)


def _terms(coef, Q):
    A, a, B, b, C, c, D = coef
    s = Q / (4.0 * math.pi)
    s2 = s * s
    t = (A * math.exp(-a * s2), B * math.exp(-b * s2), C * math.exp(-c * s2), D)
    return s2, t


def _expected_ff(coef, Q, order0):
    s2, t = _terms(coef, Q)
    val = t[0] + t[1] + t[2] + t[3]
    scale = abs(t[0]) + abs(t[1]) + abs(t[2]) + abs(t[3])
    if not order0:
        val, scale = s2 * val, s2 * scale
    return val, scale


def _q_grid(seed, n):
    import numpy
    rng = numpy.random.default_rng(seed)
    q = rng.uniform(0.0, 30.0, size=max(n - 2, 0))
    return sorted([0.0, 30.0] + [float(x) for x in q])


def _ff_check(ctx, tab, sym, Z, q, fld, mode, Qs):
    """Compare <fld>_Q on the listed Q values. Returns (n_evaluated, failures[list of dict])."""
    import numpy
    coef = ctx.cfml["data"][(sym, q)][fld]
    order0 = fld in ("j0", "J")
    fails = []
    try:
        ff = ctx.tables[tab][Z].magnetic_ff[q]
        meth = getattr(ff, fld + "_Q")
        if mode == "scalar":
            obs = [meth(x) for x in Qs]
        else:
            arr = numpy.array(Qs, dtype=float)
            out = meth(arr)
            if numpy.shape(out) != arr.shape:
                return len(Qs), [dict(Q=None, observed="shape %r" % (numpy.shape(out),),
                                      expected="shape %r" % (arr.shape,))]
            obs = list(out)
    except Exception as exc:
        return len(Qs), [dict(Q=None, observed="%s: %s" % (type(exc).__name__, exc),
                              expected="a value")]
    for x, o in zip(Qs, obs):
        e, scale = _expected_ff(coef, x, order0)
        try:
            o = float(o)
            ok = (o == e) or abs(o - e) <= TOL * max(abs(e), scale)
            if ok and abs(o - e) > TOL * abs(e):
                STRICT_MISSES[0] += 1
        except Exception:
            ok = False
        if not ok:
            fails.append(dict(Q=x, observed=_js(o), expected=e))
    return len(Qs), fails


def _ff_zero(ctx, tab, sym, Z, q, fld):
    try:
        ff = ctx.tables[tab][Z].magnetic_ff[q]
        v = float(getattr(ff, fld + "_Q")(0.0))
    except Exception as exc:
        return False, "%s: %s" % (type(exc).__name__, exc)
    if fld == "j0":
        return abs(v - 1.0) <= 0.005, v
    return v == 0.0, v


def task_formfactors(tier, seed, arg):
    t0 = time.time()
    ctx = _build_ctx()
    _touch_public(ctx.pt)
    _make_private(ctx, seed)
    npts = 20 if tier == "quick" else 400
    Qs = _q_grid(seed, npts)
    zsym = {s: Z for Z, s in ctx.symbols.items()}
    viol, notes, samples = [], list(ctx.private_errors), []
    n_zero = n_grid = 0
    n_states = 0
    worst_j0 = (0.0, None)
    worst_J = (0.0, None)
    per_field = {}
    for (sym, q), slot in sorted(ctx.cfml["data"].items(), key=lambda kv: (zsym[kv[0][0]], kv[0][1])):
        Z = zsym[sym]
        n_states += 1
        for tab in ("public", "private"):
            for fld in MAG_FIELDS:
                if fld not in slot:
                    continue
                per_field[fld] = per_field.get(fld, 0) + 1
                ident = "%s%d" % (sym, q)
                if fld != "J":
                    ok, v = _ff_zero(ctx, tab, sym, Z, q, fld)
                    n_zero += 1
                    if fld == "j0" and isinstance(v, float) and abs(v - 1) > worst_j0[0]:
                        worst_j0 = (abs(v - 1), "%s %s" % (ident, tab))
                    if not ok:
                        viol.append(dict(
                            key="formfactors:%s_at_0:%s:%s" % (fld, ident, tab),
                            what=("<j0>(Q=0) is not within 0.005 of 1" if fld == "j0" else
                                  "<%s>(Q=0) is not exactly 0" % fld),
                            input=dict(kind="zero", table=tab, symbol=sym, Z=Z, charge=q, field=fld),
                            observed=v, expected=1.0 if fld == "j0" else 0.0))
                else:
                    try:
                        vj = float(ctx.tables[tab][Z].magnetic_ff[q].J_Q(0.0))
                        if abs(vj - 1) > worst_J[0]:
                            worst_J = (abs(vj - 1), "%s %s" % (ident, tab))
                    except Exception:
                        pass
                for mode in ("scalar", "vector"):
                    n, fails = _ff_check(ctx, tab, sym, Z, q, fld, mode, Qs)
                    n_grid += n
                    if fails:
                        viol.append(dict(
                            key="formfactors:%s_Q:%s:%s:%s" % (fld, ident, mode, tab),
                            what="%s_Q(Q) differs from %s(A exp(-a s^2)+B exp(-b s^2)+C exp(-c s^2)"
                                 "+D), s=Q/4pi, at %d of %d grid points (%s call)"
                                 % (fld, "" if fld in ("j0", "J") else "s^2 ", len(fails), n, mode),
                            input=dict(kind="grid", table=tab, symbol=sym, Z=Z, charge=q, field=fld,
                                       mode=mode,
                                       Q=[f["Q"] for f in fails[:5] if f["Q"] is not None] or Qs[:5]),
                            observed=[f["observed"] for f in fails[:5]],
                            expected=[f["expected"] for f in fails[:5]]))
                    elif len(samples) < 5 and mode == "scalar" and tab == "public" \
                            and fld in ("j0", "j2") and q == 2:
                        x = Qs[len(Qs) // 2]
                        samples.append(dict(ion=ident, field=fld, Q=x,
                                            observed=float(getattr(
                                                ctx.tables[tab][Z].magnetic_ff[q], fld + "_Q")(x)),
                                            expected=_expected_ff(slot[fld], x, fld == "j0")[0]))
    notes.append("%d magnetic charge states x {public, private %r}; coefficient sets per field "
                 "(both tables) %s; Q=0 checks %d (exhaustive: every j0/j2/j4/j6 set of every "
                 "charge state, both tables); grid checks %d = sets x %d Q values x {scalar, "
                 "numpy vector}" % (n_states, ctx.private_name, dict(sorted(per_field.items())),
                                    n_zero, n_grid, len(Qs)))
    notes.append("largest |j0(0)-1| = %.6g at %s (bound 0.005); largest |J(0)-1| = %.6g at %s (J is "
                 "not constrained at Q=0 by the property: note only)"
                 % (worst_j0[0], worst_j0[1], worst_J[0], worst_J[1]))
    notes.append("grid points that pass only through the cancellation-safe scale (i.e. would fail "
                 "a plain rel 1e-12 on the value): %d" % STRICT_MISSES[0])
    notes.append("coefficients for the expected values are read from the CFML text by this "
                 "module's reader, not taken from the library's tuples; expected value by "
                 "math.exp per point")
    notes.extend(ctx.cfml["notes"])
    nviol = len(viol)
    if nviol:
        fam = {}
        for v in viol:
            fam[v["key"].split(":")[1]] = fam.get(v["key"].split(":")[1], 0) + 1
        notes.append("violations: %d in total, per family %s" % (nviol, dict(sorted(fam.items()))))
    notes.append("runtime %.2f s" % (time.time() - t0))
    return dict(
        evaluations=n_zero + n_grid, distinct=n_zero + n_grid,
        rule="Q=0 part EXHAUSTIVE: for each of the CFML charge states and each listed coefficient "
             "set, public and private table: |j0_Q(0)-1| <= 0.005, j2_Q(0) == j4_Q(0) == j6_Q(0) "
             "== 0 exactly.  Grid part BOUNDED: Q in {0, 30} U %d uniform draws from [0, 30] "
             "(numpy default_rng(seed)); j0_Q/J_Q == A exp(-a s^2)+B exp(-b s^2)+C exp(-c s^2)+D, "
             "j2_Q/j4_Q/j6_Q == s^2 * (same), s = Q/(4 pi), once per Q as a python float and once "
             "as one numpy vector; tolerance 1e-12 relative to max(|value|, sum of |terms|) so "
             "that cancellation near sign changes is not misreported.  Every (ion, field, table, "
             "mode, Q) is distinct; non-trivial = all (coefficient sets are non-zero)."
             % (len(Qs) - 2),
        exhaustive=False, samples=samples[:5], violations=_pick_violations(viol), notes=notes)


# --------------------------------------------------------------------------------------------
# replay
# --------------------------------------------------------------------------------------------

def task_replay(tier, seed, arg):
    arg = arg or {}
    inp = arg.get("input") or {}
    key = arg.get("key") or ""
    ctx = _build_ctx()
    _touch_public(ctx.pt)
    viol, notes, samples = [], [], []
    if key.startswith("formfactors:") or inp.get("kind") in ("zero", "grid"):
        tab = inp.get("table", "public")
        if tab == "private":
            _make_private(ctx, seed)
            notes.extend(ctx.private_errors)
        sym, Z, q, fld = inp["symbol"], inp["Z"], inp["charge"], inp["field"]
        if inp.get("kind") == "zero":
            ok, v = _ff_zero(ctx, tab, sym, Z, q, fld)
            samples.append(dict(input=inp, observed=v))
            n = 1
            if not ok:
                viol.append(dict(key=key, what=("<j0>(Q=0) is not within 0.005 of 1" if fld == "j0"
                                                else "<%s>(Q=0) is not exactly 0" % fld),
                                 input=inp, observed=v, expected=1.0 if fld == "j0" else 0.0))
        else:
            n, fails = _ff_check(ctx, tab, sym, Z, q, fld, inp.get("mode", "scalar"), list(inp["Q"]))
            samples.append(dict(input=inp, failures=len(fails)))
            if fails:
                viol.append(dict(key=key, what="%s_Q(Q) differs from the documented formula at %d of "
                                               "%d replayed Q" % (fld, len(fails), n),
                                 input=inp, observed=[f["observed"] for f in fails[:5]],
                                 expected=[f["expected"] for f in fails[:5]]))
        rule = "replay of one formfactors case"
    else:
        if inp.get("family") == "init":
            _make_private(ctx, seed)
            n = 1
            for e in ctx.private_errors:
                if e.startswith(inp.get("id", "")):
                    viol.append(dict(key=key, what=e, input=inp, observed=e,
                                     expected="loader completes"))
            samples.append(dict(input=inp, observed=ctx.private_errors))
        else:
            case = {k: v for k, v in inp.items() if k != "after_private_init"}
            if case.get("table") == "private" or inp.get("after_private_init"):
                if inp.get("after_private_init"):
                    before = _eval_case(ctx, case)
                _make_private(ctx, seed)
                notes.extend(ctx.private_errors)
            r = _eval_case(ctx, case)
            n = 1
            samples.append(dict(input=inp, observed=r["observed"], expected=r["expected"]))
            if inp.get("after_private_init"):
                if (r["ok"], r["observed"]) != (before["ok"], before["observed"]):
                    viol.append(dict(key=key, what="the public table's value changed after "
                                                   "initialising a private table",
                                     input=inp, observed=r["observed"], expected=before["observed"]))
            elif not r["ok"]:
                viol.append(dict(key=key or _key(case), what=r["what"], input=inp,
                                 observed=r["observed"], expected=r["expected"]))
        rule = "replay of one eval_tables case (public lazy groups touched first, then a fresh " \
               "private table if the case needs one)"
    return dict(evaluations=n, distinct=n, rule=rule, exhaustive=False, samples=samples,
                violations=viol, notes=notes)
