"""C07 native checks: embedded neutron scattering-length tables served verbatim.

Oracle side (independent of the loader):
  * the raw ``nsftable`` / ``nsftableI`` string literals are taken from the *source text* of
    ``periodictable/nsf.py`` with ``ast`` (never from anything ``nsf.init`` produced), rows and columns
    are split here from the documented layout
        Z-Sym[-A], abundance-or-halflife, spin, b_c, bp, bm, E-flag, coh, inc, total, abs
    and numbers are read with a Decimal based reader written here ("(unc)" dropped, "<x" and "x*" read
    as x, blank as missing);
  * ``ENERGY_DEPENDENT_TABLES`` is taken from the source text of ``nsf_tables.py`` with ``ast``;
  * the energy -> wavelength factor is computed here from the literals of ``constants.py`` (read with
    ``ast``) with the formula documented in the comments of nsf.py:
        lambda[A] = sqrt( h^2 / (2 m_n E) ),  E in meV  ->  (h eV s)^2 * (J/eV) / (2 m_n[u] u[kg]) * 1e23.

Tasks: eval_tables, energy_tables, replay.
"""
import ast
import math
import os
import random
import re
from decimal import Decimal, InvalidOperation

import numpy as np

MAX_VIOLATIONS = 60
ABS_WAVELENGTH = 1.798          # property text: b_c - i*absorption/(2000*1.798)
REL_FORMULA = 1e-12             # documented gap-fill formulas
REL_ENERGY = 1e-9               # energy-dependent tables (stated in the task)

# documented gap fills in nsf.init: (row id, field) -> formula over that row's other columns
GAPFILL = {
    ("54-Xe", "total"): "coherent+incoherent",
    ("63-Eu-151", "b_c"): "sqrt(coherent/(4*pi/100))",
}

ROW_FIELDS = ["b_c", "bp", "bm", "is_energy_dependent", "coherent", "incoherent", "total",
              "absorption", "b_c_complex", "b_c_i", "bp_i", "bm_i"]

_private_counter = [0]


# --------------------------------------------------------------------------- source readers

def _pkg_dir():
    import periodictable
    return os.path.dirname(os.path.abspath(periodictable.__file__))


def _module_literals(filename, names):
    """Module-level ``name = <literal>`` assignments read from source text (last assignment wins)."""
    path = os.path.join(_pkg_dir(), filename)
    with open(path, "r", encoding="utf-8") as fh:
        tree = ast.parse(fh.read(), filename=path)
    out = {}
    for node in tree.body:
        if isinstance(node, ast.Assign):
            for tgt in node.targets:
                if isinstance(tgt, ast.Name) and tgt.id in names:
                    out[tgt.id] = ast.literal_eval(node.value)
    missing = [n for n in names if n not in out]
    if missing:
        raise RuntimeError("literals %s not found in %s" % (missing, path))
    return out


_NUM_RE = re.compile(r"^[+-]?(\d+\.?\d*|\.\d+)([eE][+-]?\d+)?$")


def read_number(text):
    """Own reader: blank -> None; '<x' -> x; 'x*' -> x; 'x(unc)' -> x.  Decimal based."""
    s = text.strip()
    if s == "":
        return None
    if s.startswith("<"):
        s = s[1:].strip()
    s = s.replace("*", "")
    s = re.sub(r"\([^)]*\)", "", s).strip()
    if not _NUM_RE.match(s):
        raise ValueError("not a number: %r" % text)
    try:
        return float(Decimal(s))
    except InvalidOperation:
        raise ValueError("not a number: %r" % text)


_HALFLIFE_RE = re.compile(r"^\s*[<>~]?\s*\S+\s+[A-Za-z]+\s*$")


def _parse_id(text):
    parts = text.strip().split("-")
    if len(parts) not in (2, 3):
        raise ValueError("bad id %r" % text)
    Z = int(parts[0])
    sym = parts[1]
    A = int(parts[2]) if len(parts) == 3 else None
    return Z, sym, A


def read_tables():
    """Return (rows, rowsI, layout_problems, info) from the source text of nsf.py."""
    lit = _module_literals("nsf.py", ["nsftable", "nsftableI"])
    problems = []
    info = {"blank_lines": 0, "flags": {}, "halflife_rows": 0, "limit_cells": 0, "estimate_cells": 0,
            "unc_cells": 0}
    rows = []
    for lineno, line in enumerate(lit["nsftable"].split("\n")):
        if line.strip() == "":
            info["blank_lines"] += 1
            continue
        cols = line.split(",")
        if len(cols) != 11:
            problems.append(("nsftable", lineno, line, "expected 11 columns, got %d" % len(cols)))
            continue
        try:
            Z, sym, A = _parse_id(cols[0])
            rec = {"id": cols[0].strip(), "Z": Z, "sym": sym, "A": A, "line": line}
            p = cols[1]
            if " " in p.strip():
                if not _HALFLIFE_RE.match(p):
                    raise ValueError("abundance/half-life column %r" % p)
                rec["abundance"] = 0
                rec["halflife"] = True
                info["halflife_rows"] += 1
            else:
                rec["abundance"] = read_number(p)
                rec["halflife"] = False
            rec["nuclear_spin"] = cols[2]
            for name, c in zip(["b_c", "bp", "bm"], cols[3:6]):
                rec[name] = read_number(c)
            flag = cols[6].strip()
            info["flags"][flag] = info["flags"].get(flag, 0) + 1
            rec["is_energy_dependent"] = (flag == "E")
            for name, c in zip(["coherent", "incoherent", "total", "absorption"], cols[7:11]):
                rec[name] = read_number(c)
            for c in cols[1:]:
                info["limit_cells"] += c.count("<")
                info["estimate_cells"] += c.count("*")
                info["unc_cells"] += c.count("(")
        except Exception as exc:  # layout the documented format does not cover
            problems.append(("nsftable", lineno, line, "%s: %s" % (type(exc).__name__, exc)))
            continue
        # complex b_c from the row as written (before any gap fill)
        if rec["absorption"] is None:
            rec["b_c_complex"] = None
        else:
            re_part = rec["b_c"] if rec["b_c"] is not None else float("nan")
            rec["b_c_complex"] = complex(re_part, -rec["absorption"] / (2000 * ABS_WAVELENGTH))
        rec["b_c_i"] = rec["bp_i"] = rec["bm_i"] = None
        rec["approx"] = {}
        rows.append(rec)

    rowsI = []
    for lineno, line in enumerate(lit["nsftableI"].split("\n")):
        if line.strip() == "":
            info["blank_lines"] += 1
            continue
        cols = line.split(",")
        if len(cols) != 4:
            problems.append(("nsftableI", lineno, line, "expected 4 columns, got %d" % len(cols)))
            continue
        try:
            Z, sym, A = _parse_id(cols[0])
            recI = {"id": cols[0].strip(), "Z": Z, "sym": sym, "A": A, "line": line,
                    "b_c_i": read_number(cols[1]), "bp_i": read_number(cols[2]),
                    "bm_i": read_number(cols[3])}
        except Exception as exc:
            problems.append(("nsftableI", lineno, line, "%s: %s" % (type(exc).__name__, exc)))
            continue
        rowsI.append(recI)

    # gap fills (documented): only when the cell is really blank in the row
    for rec in rows:
        if (rec["id"], "total") in GAPFILL and rec["total"] is None \
                and rec["coherent"] is not None and rec["incoherent"] is not None:
            rec["total"] = rec["coherent"] + rec["incoherent"]
            rec["approx"]["total"] = GAPFILL[(rec["id"], "total")]
        if (rec["id"], "b_c") in GAPFILL and rec["b_c"] is None and rec["coherent"] is not None:
            rec["b_c"] = math.sqrt(rec["coherent"] / (4 * math.pi / 100))
            rec["approx"]["b_c"] = GAPFILL[(rec["id"], "b_c")]

    # companion table: attach to the row with the same id (last row of that id, as a reader would)
    by_id = {}
    for rec in rows:
        by_id.setdefault(rec["id"], []).append(rec)
    info["duplicate_ids"] = sorted(k for k, v in by_id.items() if len(v) > 1)
    info["imag_without_row"] = []
    for recI in rowsI:
        if recI["id"] not in by_id:
            info["imag_without_row"].append(recI["id"])
            continue
        for rec in by_id[recI["id"]]:
            for f in ("b_c_i", "bp_i", "bm_i"):
                rec[f] = recI[f]
    return rows, rowsI, problems, info


def read_energy_tables():
    lit = _module_literals("nsf_tables.py", ["ENERGY_DEPENDENT_TABLES"])
    return lit["ENERGY_DEPENDENT_TABLES"]


def energy_factor():
    """meV*A^2 factor: lambda = sqrt(EF / E[meV]), from constants.py literals."""
    c = _module_literals("constants.py", ["plancks_constant", "electron_volt", "neutron_mass",
                                          "atomic_mass_constant"])
    h = c["plancks_constant"]           # eV s
    eV = c["electron_volt"]             # J/eV
    m = c["neutron_mass"] * c["atomic_mass_constant"]   # kg
    # (h eV s * eV J/eV)^2 / (2 m) is J A^2 * 1e-20; /eV -> eV; *1e3 -> meV; m^2 -> A^2 is 1e20
    return h * h * eV / (2 * m) * 1e23


# --------------------------------------------------------------------------- bookkeeping

def _js(v):
    """JSON-able, NaN-safe rendering."""
    if v is None or isinstance(v, (str, bool)):
        return v
    if isinstance(v, (np.bool_,)):
        return bool(v)
    if isinstance(v, (complex, np.complexfloating)):
        return {"re": _js(float(v.real)), "im": _js(float(v.imag))}
    if isinstance(v, (int, np.integer)):
        return int(v)
    if isinstance(v, (float, np.floating)):
        f = float(v)
        if math.isnan(f):
            return "nan"
        if math.isinf(f):
            return "inf" if f > 0 else "-inf"
        return f
    if isinstance(v, dict):
        return {str(k): _js(x) for k, x in v.items()}
    if isinstance(v, (list, tuple)):
        return [_js(x) for x in v]
    if isinstance(v, np.ndarray):
        return [_js(x) for x in v.tolist()]
    return repr(v)


class Acc(object):
    def __init__(self, task, flt=None):
        self.task = task
        self.flt = flt
        self.evaluations = 0
        self.distinct = set()
        self.violations = []
        self.samples = []
        self.family = {}
        self.keys_seen = set()

    def wants(self, inp):
        if self.flt is None:
            return True
        return all(inp.get(k) == v for k, v in self.flt.items())

    def key(self, what, ident, label):
        k = "%s:%s:%s" % (self.task, what, ident)
        if label != "public":
            k += ":" + label
        return k

    def check(self, what, ident, label, inp, thunk, expected, cmp, sentence, nontrivial=True,
              sample=False):
        """Evaluate one obligation.  thunk() -> observed; cmp(observed, expected) -> bool."""
        if not self.wants(inp):
            return None
        self.evaluations += 1
        case = (label, what, str(ident), str(sorted(inp.items(), key=lambda kv: kv[0])))
        if nontrivial:
            self.distinct.add(case)
        try:
            observed = thunk()
            ok = bool(cmp(observed, expected))
            obs_js = _js(observed)
        except Exception as exc:
            ok = False
            observed = None
            obs_js = "%s: %s" % (type(exc).__name__, exc)
        if sample and len(self.samples) < 5:
            self.samples.append({"input": inp, "observed": obs_js, "expected": _js(expected)})
        if not ok:
            key = self.key(what, ident, label)
            fam = "%s:%s" % (self.task, what)
            self.family[fam] = self.family.get(fam, 0) + 1
            self.violations.append({"key": key, "what": sentence, "input": inp,
                                    "observed": obs_js, "expected": _js(expected)})
        return ok

    def result(self, rule, exhaustive, notes):
        total = len(self.violations)
        if total:
            notes = list(notes) + ["violations total=%d by family=%s" % (
                total, ", ".join("%s=%d" % kv for kv in sorted(self.family.items())))]
        if total > MAX_VIOLATIONS:
            notes.append("violation list truncated to %d of %d (stable order)" % (MAX_VIOLATIONS, total))
        return {"evaluations": self.evaluations, "distinct": len(self.distinct), "rule": rule,
                "exhaustive": bool(exhaustive), "samples": self.samples,
                "violations": self.violations[:MAX_VIOLATIONS], "notes": notes}


# --------------------------------------------------------------------------- comparisons

def _is_real(v):
    return isinstance(v, (int, float, np.integer, np.floating)) and not isinstance(v, (bool, np.bool_))


def same_exact(obs, exp):
    """Exact agreement: None<->None, bool<->bool, str<->str, float == float (nan==nan), complex by parts."""
    if exp is None:
        return obs is None
    if isinstance(exp, bool):
        return isinstance(obs, (bool, np.bool_)) and bool(obs) == exp
    if isinstance(exp, str):
        return isinstance(obs, str) and obs == exp
    if isinstance(exp, complex):
        if not isinstance(obs, (complex, np.complexfloating)):
            return False
        return same_exact(float(obs.real), float(exp.real)) and same_exact(float(obs.imag), float(exp.imag))
    if not _is_real(obs):
        return False
    o, e = float(obs), float(exp)
    if math.isnan(e):
        return math.isnan(o)
    return o == e


def same_rel(rel):
    def cmp(obs, exp):
        if exp is None:
            return obs is None
        if isinstance(exp, complex):
            if not isinstance(obs, (complex, np.complexfloating)):
                return False
            o, e = complex(obs), exp
            if o == e:
                return True
            return abs(o - e) <= rel * abs(e)
        if not _is_real(obs):
            return False
        o, e = float(obs), float(exp)
        if o == e:
            return True
        return abs(o - e) <= rel * abs(e)
    return cmp


# --------------------------------------------------------------------------- tables under test

def _tables(seed):
    """Yield (label, table) lazily, in a fixed order: public (first touch), private, public again."""
    import periodictable
    from periodictable import core, mass, density, nsf

    public = periodictable.elements
    _ = public.H.neutron              # public first touch: lazy load of the neutron property
    yield "public", public

    _private_counter[0] += 1
    rnd = random.Random(seed).getrandbits(32)
    name = "c07p%08x_%d_%d" % (rnd, os.getpid(), _private_counter[0])
    private = core.PeriodicTable(name)
    mass.init(private)
    density.init(private)
    nsf.init(private)
    yield "private", private

    # the public table again, now that a private neutron table has been initialised after it
    yield "public_after_private", public


def _atom(table, Z, sym, A):
    el = table[Z]
    if el.symbol != sym:
        raise LookupError("table[%d] is %s, row says %s" % (Z, el.symbol, sym))
    return el if A is None else el[A]


def _atom_id(Z, sym, A):
    return "%d-%s" % (Z, sym) if A is None else "%d-%s-%d" % (Z, sym, A)


# --------------------------------------------------------------------------- task: eval_tables

def _field_thunk(table, Z, sym, A, field):
    def thunk():
        atom = _atom(table, Z, sym, A)
        if field == "nuclear_spin":
            return atom.nuclear_spin
        return getattr(atom.neutron, field)
    return thunk


def _eval_tables(acc, seed):
    rows, rowsI, problems, info = read_tables()
    notes = []
    notes.append("source reader: nsftable rows=%d (isotope rows=%d, element rows=%d), nsftableI rows=%d, "
                 "blank lines=%d, half-life rows=%d, cells with '<'=%d, '*'=%d, '(unc)'=%d, E-flag column values=%s"
                 % (len(rows), sum(r["A"] is not None for r in rows), sum(r["A"] is None for r in rows),
                    len(rowsI), info["blank_lines"], info["halflife_rows"], info["limit_cells"],
                    info["estimate_cells"], info["unc_cells"], dict(sorted(info["flags"].items()))))
    if len(rows) != 364 or len(rowsI) != 16:
        notes.append("ROW COUNT differs from the property's quantifier (364 / 16): %d / %d"
                     % (len(rows), len(rowsI)))
    if info["duplicate_ids"]:
        notes.append("duplicate row ids in nsftable: %s" % info["duplicate_ids"])
    if info["imag_without_row"]:
        notes.append("nsftableI ids without a nsftable row: %s" % info["imag_without_row"])

    by_id = {}
    iso_rows_of = {}
    for rec in rows:
        by_id[rec["id"]] = rec
        if rec["A"] is not None:
            iso_rows_of.setdefault((rec["Z"], rec["sym"]), []).append(rec)
    imag_by_id = dict((r["id"], r) for r in rowsI)

    for label, table in _tables(seed):
        # layout problems are failures of "every row ... reports that row's values": cannot be read
        for (tname, lineno, line, msg) in problems:
            inp = {"table": label, "kind": "layout", "source": tname, "line": lineno}
            acc.check("layout", "%s:%d" % (tname, lineno), label, inp, lambda m=msg: m, None,
                      lambda o, e: False,
                      "row %r of %s does not follow the documented column layout" % (line, tname))

        counts = {"row_atoms": 0, "row_fields": 0, "imag_fields": 0, "single": [], "fallback": [],
                  "norow_elements": 0, "norow_isotopes": 0, "rows_without_sld": []}

        # 1. every row: every field
        for k, rec in enumerate(rows):
            Z, sym, A, rid = rec["Z"], rec["sym"], rec["A"], rec["id"]
            fields = list(ROW_FIELDS) + (["abundance", "nuclear_spin"] if A is not None else [])
            counts["row_atoms"] += 1
            for field in fields:
                exp = rec[field]
                inp = {"table": label, "kind": "row", "atom": rid, "field": field}
                if field in rec["approx"]:
                    cmp = same_rel(REL_FORMULA)
                    sentence = ("%s.%s is blank in the row and must be the documented gap fill %s"
                                % (rid, field, rec["approx"][field]))
                else:
                    cmp = same_exact
                    sentence = ("%s: neutron field %s differs from the value of the embedded row %r"
                                % (rid, field, rec["line"]))
                if field in ("b_c_i", "bp_i", "bm_i"):
                    counts["imag_fields"] += 1
                    if rid in imag_by_id:
                        sentence = ("%s: %s differs from the companion (imaginary) table row %r"
                                    % (rid, field, imag_by_id[rid]["line"]))
                    else:
                        sentence = "%s: %s must be missing (no companion-table row)" % (rid, field)
                counts["row_fields"] += 1
                acc.check(field, rid, label, inp, _field_thunk(table, Z, sym, A, field), exp, cmp,
                          sentence, nontrivial=(exp is not None),
                          sample=(label == "public" and k in (2, 6) and field in ("b_c", "b_c_complex", "abundance")))
            try:
                if not _atom(table, Z, sym, A).neutron.has_sld():
                    counts["rows_without_sld"].append(rid)
            except Exception:
                pass

        # 2. atoms of the table without a row
        for el in table:
            Z, sym = el.number, el.symbol
            eid = _atom_id(Z, sym, None)
            iso_rows = iso_rows_of.get((Z, sym), [])
            if eid not in by_id:
                if len(iso_rows) == 1:
                    # single-isotope element: reports its isotope's record
                    src = iso_rows[0]
                    counts["single"].append(sym)
                    for field in list(ROW_FIELDS) + ["abundance"]:
                        exp = src[field]
                        inp = {"table": label, "kind": "single", "atom": eid, "field": field,
                               "isotope": src["id"]}
                        cmp = same_rel(REL_FORMULA) if field in src["approx"] else same_exact
                        acc.check(field, eid, label, inp, _field_thunk(table, Z, sym, None, field), exp,
                                  cmp, "%s has no element row and exactly one isotope row %s: the element "
                                       "must report that isotope's %s" % (eid, src["id"], field),
                                  nontrivial=(exp is not None),
                                  sample=(label == "public" and sym == "Be" and field == "b_c"))
                elif len(iso_rows) == 0:
                    counts["norow_elements"] += 1
                    inp = {"table": label, "kind": "norow", "atom": eid, "field": "has_sld"}
                    acc.check("has_sld", eid, label, inp,
                              lambda t=table, Z=Z, s=sym: _atom(t, Z, s, None).neutron.has_sld(),
                              False, same_exact,
                              "%s is not in the neutron table and must report that no SLD is available" % eid,
                              sample=(label == "public" and sym == "Po"))
                else:
                    counts["fallback"].append(sym)
                    inp = {"table": label, "kind": "fallback", "atom": eid, "field": "has_sld",
                           "isotope_rows": [r["id"] for r in iso_rows]}

                    def thunk(t=table, Z=Z, s=sym, iso_rows=iso_rows):
                        e = _atom(t, Z, s, None)
                        served = None
                        for r in iso_rows:
                            try:
                                if e.neutron is e[r["A"]].neutron:
                                    served = r["id"]
                                    break
                            except Exception:
                                pass
                        if served is None and e.neutron.b_c is not None:
                            for r in iso_rows:
                                if all(same_exact(getattr(e.neutron, f), r[f]) for f in ROW_FIELDS):
                                    served = r["id"] + " (by value)"
                                    break
                        return {"has_sld": e.neutron.has_sld(), "b_c": e.neutron.b_c,
                                "serves_record_of": served}
                    acc.check("element_fallback", sym, label, inp, thunk,
                              {"has_sld": False, "b_c": None, "serves_record_of": None},
                              lambda o, e: (o["has_sld"] is False and o["serves_record_of"] is None
                                            and o["b_c"] is None),
                              "%s has %d isotope rows and no element row (not a single-isotope element), so the "
                              "element is not in the table and must report that no SLD is available; it serves "
                              "an isotope's record instead" % (eid, len(iso_rows)))
            for iso in el:
                A = iso.isotope
                iid = _atom_id(Z, sym, A)
                if iid in by_id:
                    continue
                counts["norow_isotopes"] += 1
                inp = {"table": label, "kind": "norow", "atom": iid, "field": "has_sld"}
                acc.check("has_sld", iid, label, inp,
                          lambda t=table, Z=Z, s=sym, A=A: _atom(t, Z, s, A).neutron.has_sld(),
                          False, same_exact,
                          "%s is not in the neutron table and must report that no SLD is available" % iid)

        notes.append("[%s] atoms with a row=%d, row field checks=%d (of which companion-table fields=%d); "
                     "single-isotope elements=%d %s; elements with several isotope rows and no element row=%s; "
                     "elements with no row at all=%d; isotopes with no row=%d; rows whose atom has has_sld()==False "
                     "(no density; not a property clause)=%d"
                     % (label, counts["row_atoms"], counts["row_fields"], counts["imag_fields"],
                        len(counts["single"]), counts["single"], counts["fallback"],
                        counts["norow_elements"], counts["norow_isotopes"], len(counts["rows_without_sld"])))

    gap = [r["id"] + "." + f for r in rows for f in r["approx"]]
    notes.append("gap fills compared with their documented formulas at rel %g: %s; for these rows b_c_complex "
                 "is still expected from the ROW's (blank) b_c, i.e. real part NaN" % (REL_FORMULA, gap))
    notes.append("element rows leave the abundance column blank; Neutron.abundance of element rows is not "
                 "checked (class default 0.), only isotope rows and single-isotope elements are")
    return notes


EVAL_RULE = ("one evaluation per (table state, atom, field): for every row of nsftable (source text via ast, own "
             "Decimal reader) the fields b_c,bp,bm,is_energy_dependent,coherent,incoherent,total,absorption,"
             "b_c_complex,b_c_i,bp_i,bm_i (+ neutron.abundance and nuclear_spin for isotope rows); single-isotope "
             "elements: the same fields + abundance against their isotope's row; every other element/isotope "
             "object of the table: has_sld() is False.  Table states: public (first touch), fresh private table, "
             "public again after the private init.  Exact float equality (NaN==NaN, None is None), except the two "
             "documented gap fills (rel 1e-12 against their formulas).  distinct = evaluations whose expected "
             "value is not None (all (state, atom, field) triples are distinct by construction).  Bound: the "
             "whole finite table, no sampling.")


def task_eval_tables(tier, seed, arg):
    acc = Acc("eval_tables")
    notes = _eval_tables(acc, seed)
    return acc.result(EVAL_RULE, True, notes)


# --------------------------------------------------------------------------- task: energy_tables

def _ed_name(sym, A):
    return sym if A is None else "%s-%d" % (sym, A)


def _ed_atom(table, sym, A):
    el = getattr(table, sym)
    return el if A is None else el[A]


def _bw_scalar(table, sym, A, lam):
    def thunk():
        v = _ed_atom(table, sym, A).neutron.scattering_by_wavelength(float(lam))[0]
        if np.ndim(v) != 0:
            raise TypeError("scalar wavelength returned an array of shape %s" % (np.shape(v),))
        return complex(v)
    return thunk


def _energy_tables(acc, tier, seed):
    ed = read_energy_tables()
    EF = energy_factor()
    rows, rowsI, problems, info = read_tables()
    by_id = dict((r["id"], r) for r in rows)
    rng = random.Random(seed)
    nfrac = 1 if tier == "quick" else 25
    notes = []
    nodes_total = sum(len(v) for v in ed.values())
    notes.append("ENERGY_DEPENDENT_TABLES (source text via ast): %d tables, %d nodes: %s; ENERGY_FACTOR computed "
                 "here = %.17g meV*A^2"
                 % (len(ed), nodes_total, ", ".join("%s=%d" % (_ed_name(*k), len(v)) for k, v in ed.items()), EF))
    if len(ed) != 14:
        notes.append("TABLE COUNT differs from the property's quantifier (14): %d" % len(ed))
    eflag = sorted(r["id"] for r in rows if r["is_energy_dependent"])
    notes.append("rows of nsftable flagged 'E': %s" % eflag)

    # random fractions are drawn once so that every table state sees the same inputs
    fracs = {}
    for key, values in ed.items():
        fracs[key] = [[rng.uniform(0.02, 0.98) for _ in range(nfrac)] for _ in range(len(values) - 1)]

    for label, table in _tables(seed):
        n_nodes = 0
        for (sym, A), values in ed.items():
            name = _ed_name(sym, A)
            en = [float(v[0]) for v in values]
            ys = [complex(float(v[1]), float(v[2])) for v in values]
            lam = [math.sqrt(EF / (1000.0 * e)) for e in en]
            n = len(values)

            # (a) wavelength axis of nsf_table strictly increasing and of the right length
            inp = {"table": label, "atom": name, "check": "axis"}

            def axis_thunk(t=table, s=sym, A=A):
                tab = _ed_atom(t, s, A).neutron.nsf_table
                if tab is None:
                    raise ValueError("nsf_table is None")
                x = np.asarray(tab[0], dtype=float)
                return {"n": int(x.size), "strictly_increasing": bool(np.all(np.diff(x) > 0)),
                        "n_values": int(np.asarray(tab[1]).size)}
            acc.check("axis", name, label, inp, axis_thunk,
                      {"n": n, "strictly_increasing": True, "n_values": n}, lambda o, e: o == e,
                      "%s: nsf_table wavelength axis must have one strictly increasing entry per tabulated energy" % name)

            # (b) nodes, scalar input
            for i in range(n):
                n_nodes += 1
                inp = {"table": label, "atom": name, "check": "node_scalar", "index": i}
                acc.check("node_scalar", "%s:%d" % (name, i), label, inp,
                          _bw_scalar(table, sym, A, lam[i]), ys[i], same_rel(REL_ENERGY),
                          "%s at E=%r eV (lambda=%.17g A): scattering_by_wavelength(scalar)[0] differs from the "
                          "tabulated complex scattering length" % (name, en[i], lam[i]),
                          sample=(label == "public" and name == "Sm" and i in (0, 9)))

            # (c) nodes, vector input (one call, all nodes in table order = decreasing wavelength)
            vec_cache = {}

            def vec(t=table, s=sym, A=A, lam=lam, cache=vec_cache):
                if "v" not in cache:
                    try:
                        v = _ed_atom(t, s, A).neutron.scattering_by_wavelength(np.array(lam, dtype=float))[0]
                        v = np.asarray(v)
                        if v.shape != (len(lam),):
                            raise TypeError("vector of %d wavelengths returned shape %s" % (len(lam), v.shape))
                        cache["v"] = v
                    except Exception as exc:
                        cache["v"] = exc
                if isinstance(cache["v"], Exception):
                    raise cache["v"]
                return cache["v"]
            for i in range(n):
                inp = {"table": label, "atom": name, "check": "node_vector", "index": i}
                acc.check("node_vector", "%s:%d" % (name, i), label, inp,
                          lambda i=i, vec=vec: complex(vec()[i]), ys[i], same_rel(REL_ENERGY),
                          "%s at E=%r eV: element %d of scattering_by_wavelength(vector of all node wavelengths)[0] "
                          "differs from the tabulated complex scattering length" % (name, en[i], i))

            # (d) clamping beyond both ends (scalar and vector)
            lo, hi = min(lam), max(lam)
            y_lo, y_hi = ys[lam.index(lo)], ys[lam.index(hi)]
            outside = [("below", lo * 0.999, y_lo), ("below", lo / 2, y_lo), ("below", 1e-3, y_lo),
                       ("above", hi * 1.001, y_hi), ("above", hi * 2, y_hi), ("above", 1e3, y_hi)]
            for j, (side, x, y) in enumerate(outside):
                inp = {"table": label, "atom": name, "check": "clamp_scalar", "index": j}
                acc.check("clamp_scalar", "%s:%d" % (name, j), label, inp, _bw_scalar(table, sym, A, x), y,
                          same_rel(REL_ENERGY),
                          "%s at lambda=%.17g A (%s the tabulated range [%.17g, %.17g]) must be clamped to the end "
                          "value" % (name, x, side, lo, hi))
            xs_out = [x for _, x, _ in outside]
            out_cache = {}

            def vec_out(t=table, s=sym, A=A, xs=xs_out, cache=out_cache):
                if "v" not in cache:
                    try:
                        cache["v"] = np.asarray(
                            _ed_atom(t, s, A).neutron.scattering_by_wavelength(np.array(xs, dtype=float))[0])
                    except Exception as exc:
                        cache["v"] = exc
                if isinstance(cache["v"], Exception):
                    raise cache["v"]
                return cache["v"]
            for j, (side, x, y) in enumerate(outside):
                inp = {"table": label, "atom": name, "check": "clamp_vector", "index": j}
                acc.check("clamp_vector", "%s:%d" % (name, j), label, inp,
                          lambda j=j, f=vec_out: complex(f()[j]), y, same_rel(REL_ENERGY),
                          "%s (vector input) at lambda=%.17g A (%s the tabulated range) must be clamped to the end "
                          "value" % (name, x, side))

            # (e) between two adjacent nodes: linear in WAVELENGTH
            for i in range(n - 1):
                for j, f in enumerate([0.5] + fracs[(sym, A)][i]):
                    x = lam[i] + f * (lam[i + 1] - lam[i])
                    y = ys[i] + f * (ys[i + 1] - ys[i])
                    inp = {"table": label, "atom": name, "check": "interp", "index": i, "j": j, "frac": f}
                    acc.check("interp", "%s:%d:%d" % (name, i, j), label, inp, _bw_scalar(table, sym, A, x), y,
                              same_rel(REL_ENERGY),
                              "%s between E=%r and %r eV at fraction %r of the WAVELENGTH interval (lambda=%.17g): "
                              "value is not the linear interpolation in wavelength" % (name, en[i], en[i + 1], f, x),
                              nontrivial=(ys[i] != ys[i + 1]))

        # (f) natural Lu = (b175*p175 + b176(lambda)*p176)/100
        if ("Lu", 176) in ed and "71-Lu-175" in by_id and "71-Lu-176" in by_id:
            values = ed[("Lu", 176)]
            en = [float(v[0]) for v in values]
            y176 = [complex(float(v[1]), float(v[2])) for v in values]
            lam = [math.sqrt(EF / (1000.0 * e)) for e in en]
            b175 = by_id["71-Lu-175"]["b_c_complex"]
            p_row = (by_id["71-Lu-175"]["abundance"], by_id["71-Lu-176"]["abundance"])
            try:
                p_iso = (float(table.Lu[175].abundance), float(table.Lu[176].abundance))
            except Exception as exc:
                p_iso = None
                notes.append("[%s] Lu[175]/Lu[176].abundance unavailable: %r" % (label, exc))
            inp = {"table": label, "atom": "Lu", "check": "axis"}

            def lu_axis(t=table):
                tab = t.Lu.neutron.nsf_table
                if tab is None:
                    raise ValueError("nsf_table is None")
                x = np.asarray(tab[0], dtype=float)
                return {"n": int(x.size), "strictly_increasing": bool(np.all(np.diff(x) > 0)),
                        "n_values": int(np.asarray(tab[1]).size)}
            acc.check("axis", "Lu", label, inp, lu_axis,
                      {"n": len(values), "strictly_increasing": True, "n_values": len(values)},
                      lambda o, e: o == e,
                      "natural Lu: nsf_table wavelength axis must be the strictly increasing axis of Lu-176")
            if p_iso is not None:
                worst_row = 0.0
                pts = [(i, 0.0) for i in range(len(values))] + [(i, 0.5) for i in range(len(values) - 1)]
                for (i, f) in pts:
                    if f == 0.0:
                        x, b176 = lam[i], y176[i]
                    else:
                        x = lam[i] + f * (lam[i + 1] - lam[i])
                        b176 = y176[i] + f * (y176[i + 1] - y176[i])
                    exp = (b175 * p_iso[0] + b176 * p_iso[1]) / 100.0
                    exp_row = (b175 * p_row[0] + b176 * p_row[1]) / 100.0
                    inp = {"table": label, "atom": "Lu", "check": "lu_nat", "index": i, "frac": f}
                    ok = acc.check("lu_nat", "%d:%s" % (i, "node" if f == 0.0 else "mid"), label, inp,
                                   _bw_scalar(table, "Lu", None, x), exp, same_rel(REL_ENERGY),
                                   "natural Lu at lambda=%.17g A is not (b_c_complex(Lu-175)*p175 + b(Lu-176; lambda)*p176)"
                                   "/100 with p = the isotopes' .abundance (%r, %r) and b175 from the Lu-175 row"
                                   % (x, p_iso[0], p_iso[1]),
                                   sample=(label == "public" and i == 0 and f == 0.0))
                    if ok is not None:
                        try:
                            o = _bw_scalar(table, "Lu", None, x)()
                            worst_row = max(worst_row, abs(o - exp_row) / abs(exp_row))
                        except Exception:
                            pass
                notes.append("[%s] natural Lu mixed with Isotope.abundance p175=%r p176=%r (that is what the "
                             "obligation uses); the neutron-table abundance column says %r / %r; max relative "
                             "deviation of the served value from the mix with the neutron-table abundances = %.3g"
                             % (label, p_iso[0], p_iso[1], p_row[0], p_row[1], worst_row))
        else:
            notes.append("[%s] natural Lu check skipped: Lu-176 table or Lu-175/176 rows not found" % label)
        notes.append("[%s] energy-dependent nodes visited=%d" % (label, n_nodes))
    return notes


ENERGY_RULE = ("for every (table state, energy-dependent table, node) of ENERGY_DEPENDENT_TABLES (source text via "
               "ast): scattering_by_wavelength(lambda_node)[0] == re+1j*im at rel 1e-9, lambda_node = "
               "sqrt(EF/(1000*E_eV)) with EF computed here from constants.py literals; scalar input (one call per "
               "node) and vector input (one call per table, one evaluation per element); per table: axis strictly "
               "increasing, 6 out-of-range wavelengths clamped to the end values (scalar and vector), and per "
               "adjacent node pair the midpoint plus 1 (quick) / 25 (thorough) seeded random fractions of the "
               "WAVELENGTH interval against linear interpolation (non-trivial when the two node values differ); "
               "natural Lu at every Lu-176 node and midpoint against (b175*p175+b176*p176)/100.  Nodes are "
               "enumerated exhaustively; the in-between points are a sample.  distinct = distinct (state, table, "
               "check, index) evaluations that are non-trivial.")


def task_energy_tables(tier, seed, arg):
    acc = Acc("energy_tables")
    notes = _energy_tables(acc, tier, seed)
    return acc.result(ENERGY_RULE, True, notes)


# --------------------------------------------------------------------------- task: replay

def task_replay(tier, seed, arg):
    """arg = {"input": <input of a violation>, "key": <its key>}: re-run exactly that input."""
    if not isinstance(arg, dict) or "input" not in arg:
        raise ValueError("replay needs --arg '{\"input\": ..., \"key\": ...}'")
    inp = arg["input"]
    key = arg.get("key") or ""
    task = key.split(":", 1)[0] if key else ("energy_tables" if "check" in inp else "eval_tables")
    # interp inputs carry their (seed dependent) fraction; they are matched on it, so rerun with any seed
    flt = dict((k, v) for k, v in inp.items() if not isinstance(v, (list, dict)))
    if task == "energy_tables":
        acc = Acc("energy_tables", flt)
        if inp.get("check") == "interp" and inp.get("frac") not in (None, 0.5):
            notes = _replay_interp(acc, inp)
        else:
            notes = _energy_tables(acc, "quick", seed)
        rule = "replay of one energy_tables input: " + ENERGY_RULE
    else:
        acc = Acc("eval_tables", flt)
        notes = _eval_tables(acc, seed)
        rule = "replay of one eval_tables input: " + EVAL_RULE
    res = acc.result(rule, False, ["replayed input=%r key=%r" % (inp, key)] + notes[:1])
    if key:
        hit = [v for v in res["violations"] if v["key"] == key]
        other = [v for v in res["violations"] if v["key"] != key]
        res["violations"] = hit + other
    if acc.evaluations == 0:
        res["notes"].append("NO evaluation matched the replay input")
    return res


def _replay_interp(acc, inp):
    """Replay one in-between point with the recorded fraction (independent of the seed)."""
    ed = read_energy_tables()
    EF = energy_factor()
    target = None
    for (sym, A), values in ed.items():
        if _ed_name(sym, A) == inp.get("atom"):
            target = (sym, A, values)
    if target is None:
        return ["atom %r has no energy-dependent table" % inp.get("atom")]
    sym, A, values = target
    i, f, j = int(inp["index"]), float(inp["frac"]), int(inp.get("j", 1))
    en = [float(v[0]) for v in values]
    ys = [complex(float(v[1]), float(v[2])) for v in values]
    lam = [math.sqrt(EF / (1000.0 * e)) for e in en]
    name = _ed_name(sym, A)
    for label, table in _tables(0):
        x = lam[i] + f * (lam[i + 1] - lam[i])
        y = ys[i] + f * (ys[i + 1] - ys[i])
        inp2 = {"table": label, "atom": name, "check": "interp", "index": i, "j": j, "frac": f}
        acc.check("interp", "%s:%d:%d" % (name, i, j), label, inp2, _bw_scalar(table, sym, A, x), y,
                  same_rel(REL_ENERGY),
                  "%s between E=%r and %r eV at fraction %r of the WAVELENGTH interval (lambda=%.17g): value is "
                  "not the linear interpolation in wavelength" % (name, en[i], en[i + 1], f, x))
    return []
