"""C08 native checks: one object per atom of a table, keys match, unknown keys raise.

Tasks
-----
identity_sweep      exhaustive: every element / isotope / ion / isotope ion of the public table and of
                    a fresh private table, every lookup route, pickle, deepcopy, iteration, change_table.
invalid_neighbours  exhaustive over a generated neighbour set of every valid key: each neighbour
                    must raise, or (when it is itself a valid key) return exactly the atom it names.
replay              re-run the `input` of a violation.

Oracle (independent of the code under test): `element_base` is re-read from the SOURCE text of
periodictable/core.py with `ast` (Z -> name, symbol, common + uncommon ion lists); the isotope list per
element is re-read from the `isotope_mass` string in the source text of periodictable/mass.py (rows
"Z-Sym-A,..."), plus the documented single neutron isotope n[1] and the documented aliases
D = H[2] ("deuterium"), T = H[3] ("tritium").  What an 'A-Sym' key *denotes* is decided by a reader
written here (documented format "number-symbol", number read with int(), symbol an element symbol, A an
isotope of that element), never by calling the library.
"""
import ast
import copy
import os
import pickle
import random
import string
import sys
import time

REPO = os.environ.get("VERIF_REPO", "/repo")
ALIASES = {2: ("D", "deuterium"), 3: ("T", "tritium")}   # documented special isotopes of hydrogen
MAX_VIOLATIONS = 60
PER_FAMILY = 3

APPEND = string.ascii_lowercase + string.ascii_uppercase + "019 -_+.{["
PREPEND = " x0-+"


# --------------------------------------------------------------------------------------------------
# oracle
# --------------------------------------------------------------------------------------------------
def _module_assign(path, name):
    with open(path) as fh:
        tree = ast.parse(fh.read())
    for node in tree.body:
        if isinstance(node, ast.Assign) and any(
                isinstance(t, ast.Name) and t.id == name for t in node.targets):
            return ast.literal_eval(node.value)
    raise LookupError("%s not assigned at module level in %s" % (name, path))


class Oracle(object):
    def __init__(self):
        self.notes = []
        core_src = os.path.join(REPO, "periodictable", "core.py")
        mass_src = os.path.join(REPO, "periodictable", "mass.py")
        base = _module_assign(core_src, "element_base")
        self.Zs = sorted(base)
        self.name = {Z: base[Z][0].lower() for Z in self.Zs}
        self.sym = {Z: base[Z][1] for Z in self.Zs}
        self.ions = {Z: tuple(sorted(set(base[Z][2]) | set(base[Z][3]))) for Z in self.Zs}
        self.sym2Z = {s: Z for Z, s in self.sym.items()}
        self.name2Z = {n: Z for Z, n in self.name.items()}
        iso = {Z: set() for Z in self.Zs}
        text = _module_assign(mass_src, "isotope_mass")
        for line in text.split("\n"):
            if not line.strip():
                continue
            z, sym, a = line.split(",")[0].split("-")
            z, a = int(z), int(a)
            if self.sym.get(z) != sym:
                self.notes.append("isotope_mass row %r: symbol differs from element_base[%d]=%r"
                                  % (line.split(",")[0], z, self.sym.get(z)))
            iso[z].add(a)
        iso[0].add(1)            # "A single neutron is an isotope of element 0"
        iso[1].update(ALIASES)   # D and T exist in every table
        self.isotopes = {Z: sorted(v) for Z, v in iso.items()}
        # key -> (Z, A) denotations
        self.symbol_keys = {s: (Z, None) for s, Z in self.sym2Z.items()}
        self.name_keys = {n: (Z, None) for n, Z in self.name2Z.items()}
        for A, (s, n) in ALIASES.items():
            self.symbol_keys[s] = (1, A)
            self.name_keys[n] = (1, A)
        self.counts = dict(
            elements=len(self.Zs),
            isotopes=sum(len(self.isotopes[Z]) for Z in self.Zs),
            ions=sum(len(self.ions[Z]) for Z in self.Zs),
            isotope_ions=sum(len(self.ions[Z]) * len(self.isotopes[Z]) for Z in self.Zs))

    def iso_symbol_name(self, Z, A):
        if Z == 1 and A in ALIASES:
            return ALIASES[A]
        return self.sym[Z], self.name[Z]

    def denote_isotope_key(self, s):
        """(Z, A) named by an isotope-style key, or None when the key names nothing."""
        parts = s.split("-")
        if len(parts) == 1:
            return self.symbol_keys.get(s)
        if len(parts) == 2:
            try:
                A = int(parts[0])
            except ValueError:
                return None
            Z = self.sym2Z.get(parts[1])
            if Z is not None and A in self.isotopes[Z]:
                return (Z, A)
        return None

    def objid(self, Z, A=None, q=None):
        if Z is None:
            return "table"
        s = "%d-%s" % (Z, self.sym[Z])
        if A is not None:
            s += "-%d" % A
        if q is not None:
            s += "{%+d}" % q
        return s


# --------------------------------------------------------------------------------------------------
# context: the two tables
# --------------------------------------------------------------------------------------------------
class Ctx(object):
    def __init__(self, seed):
        import periodictable
        from periodictable import core, mass
        self.pt, self.core = periodictable, core
        self.oracle = Oracle()
        for mod, fn in ((core, "core.py"), (mass, "mass.py")):
            got = os.path.realpath(getattr(mod, "__file__", ""))
            want = os.path.realpath(os.path.join(REPO, "periodictable", fn))
            if got != want:
                self.oracle.notes.append("imported %s is not the source that was read (%s)" % (got, want))
        rng = random.Random(seed)
        while True:
            name = "c08p%08x" % rng.getrandbits(32)
            if name not in core.PRIVATE_TABLES:
                break
        self.private_name = name
        private = core.PeriodicTable(name)
        mass.init(private)
        self.tables = {"public": periodictable.elements, "private": private}
        self._canon = {"public": {}, "private": {}}

    def close(self):
        self.core.PRIVATE_TABLES.pop(self.private_name, None)

    def other(self, tk):
        return "private" if tk == "public" else "public"

    def canon(self, tk, Z, A=None, q=None):
        """The reference object: table[Z], table[Z][A], (...).ion[q]; first one obtained is kept."""
        reg = self._canon[tk]
        k = (Z, A, q)
        if k not in reg:
            x = self.tables[tk][Z]
            if A is not None:
                x = x[A]
            if q is not None:
                x = x.ion[q]
            reg[k] = x
        return reg[k]

    def describe(self, r):
        """(Z, A, q) read from the object's own public attributes; ('non-atom', repr) otherwise."""
        core = self.core
        q = None
        base = r
        if isinstance(r, core.Ion):
            q = r.charge
            base = r.element
        if isinstance(base, core.Isotope):
            return (base.number, base.isotope, q)
        if isinstance(base, core.Element):
            return (base.number, None, q)
        return ("non-atom", _short(r))


def _short(x):
    try:
        s = repr(x)
    except Exception as exc:   # pragma: no cover
        s = "<repr failed: %r>" % (exc,)
    return "%s %s" % (type(x).__name__, s[:80])


def _exc(exc):
    return "raised %s: %s" % (type(exc).__name__, str(exc)[:120])


# --------------------------------------------------------------------------------------------------
# identity sweep
# --------------------------------------------------------------------------------------------------
def _element_routes(tk, tier):
    r = ["getitem", "attr", "symbol", "name", "isotope"]
    if tk == "public":
        r += ["module_symbol", "module_name"]
    return r + _restore_routes(tier) + ["change_table", "iter"]


def _alias_routes(tk):
    r = ["alias_attr", "alias_symbol", "alias_name", "alias_isotope"]
    if tk == "public":
        r += ["alias_module_symbol", "alias_module_name"]
    return r


def _restore_routes(tier):
    r = ["pickle", "deepcopy"]
    if tier != "quick":
        r += ["pickle%d" % p for p in range(pickle.HIGHEST_PROTOCOL + 1)] + ["pickle_in_list"]
    return r


def _ident_eval(ctx, tk, Z, A, q, route):
    """Evaluate one (table, object, route).  Returns None or (what, observed, expected)."""
    try:
        return _ident_eval_inner(ctx, tk, Z, A, q, route)
    except Exception as exc:
        return ("%s route raised for a valid key" % route, _exc(exc), "the object %s" %
                ctx.oracle.objid(Z, A, q))


def _same(ctx, r, x, Z, A, q, via):
    if r is x:
        return None
    return ("%s does not return the same object as table[Z]%s%s" %
            (via, "[A]" if A is not None else "", ".ion[q]" if q is not None else ""),
            "%s with (Z,A,q)=%s, id differs" % (_short(r), ctx.describe(r),),
            "the single object %s" % ctx.oracle.objid(Z, A, q))


def _ident_eval_inner(ctx, tk, Z, A, q, route):
    o, core, t = ctx.oracle, ctx.core, ctx.tables[tk]
    if Z is None:                                                    # the table itself
        items = list(t)
        nums = [e.number for e in items]
        if nums != o.Zs:
            return ("iteration over the table does not visit every Z once in increasing order",
                    nums, o.Zs)
        for e in items:
            if e is not ctx.canon(tk, e.number):
                return ("iteration yields an element that is not table[Z]", _short(e), "table[%d]" % e.number)
        return None
    x = ctx.canon(tk, Z, A, q)
    sym, name = o.sym[Z], o.name[Z]

    # -- restore routes, common to all kinds
    if route == "pickle":
        return _same(ctx, pickle.loads(pickle.dumps(x)), x, Z, A, q, "pickle.loads(pickle.dumps(x))")
    if route.startswith("pickle") and route[6:].isdigit():
        p = int(route[6:])
        return _same(ctx, pickle.loads(pickle.dumps(x, p)), x, Z, A, q, "pickle protocol %d round trip" % p)
    if route == "pickle_in_list":
        back = pickle.loads(pickle.dumps([x, {"k": x}, x]))
        for r in (back[0], back[1]["k"], back[2]):
            f = _same(ctx, r, x, Z, A, q, "pickle round trip inside a container")
            if f:
                return f
        return None
    if route == "deepcopy":
        return _same(ctx, copy.deepcopy(x), x, Z, A, q, "copy.deepcopy(x)")
    if route == "change_table":
        otk = ctx.other(tk)
        r = core.change_table(x, ctx.tables[otk])
        want = ctx.canon(otk, Z, A, q)
        d = ctx.describe(r)
        if d != (Z, A, q):
            return ("change_table gives an atom with different (Z, A, charge)", d, (Z, A, q))
        if r is x:
            return ("change_table returns the atom of the source table", _short(r), "atom of the %s table" % otk)
        if r is not want:
            return ("change_table result is not the single object of the target table", _short(r),
                    "%s table %s" % (otk, o.objid(Z, A, q)))
        return None

    if q is not None:                                                # ion / isotope ion
        assert route == "getitem"
        parent = ctx.canon(tk, Z, A)
        r1, r2 = parent.ion[q], parent.ion[q]
        if r1 is not r2 or r1 is not x:
            return ("x.ion[q] is not one object", "two lookups give different objects", "same object")
        if type(r1) is not core.Ion:
            return ("x.ion[q] is not an Ion", _short(r1), "Ion")
        if r1.charge != q:
            return ("charge of x.ion[q] differs from q", r1.charge, q)
        if r1.element is not parent:
            return ("x.ion[q].element is not x", _short(r1.element), o.objid(Z, A))
        if ctx.describe(r1) != (Z, A, q) or r1.number != Z:
            return ("ion does not carry the Z, A of its parent", ctx.describe(r1), (Z, A, q))
        if tk == "private" and r1 is ctx.canon("public", Z, A, q):
            return ("private table shares an ion object with the public table", _short(r1), "distinct object")
        return None

    if A is not None and route.startswith("alias_"):                 # D and T
        asym, aname = ALIASES[A]
        if route == "alias_attr":
            r = getattr(t, asym)
        elif route == "alias_symbol":
            r = t.symbol(asym)
        elif route == "alias_name":
            r = t.name(aname)
        elif route == "alias_isotope":
            r = t.isotope(asym)
        elif route == "alias_module_symbol":
            r = getattr(ctx.pt, asym)
        elif route == "alias_module_name":
            r = getattr(ctx.pt, aname)
        else:
            raise AssertionError(route)
        f = _same(ctx, r, x, Z, A, q, "%s for %s" % (route, asym))
        if f:
            return f
        if (r.symbol, r.name, r.isotope, r.number) != (asym, aname, A, 1):
            return ("symbol/name/isotope/number of the alias do not match the key",
                    (r.symbol, r.name, r.isotope, r.number), (asym, aname, A, 1))
        return None

    if A is not None:                                                # isotope
        el = ctx.canon(tk, Z)
        isym, iname = o.iso_symbol_name(Z, A)
        if route == "getitem":
            r = el[A]
            f = _same(ctx, r, x, Z, A, q, "element[A]") or _same(ctx, el[A], x, Z, A, q, "second element[A]")
            if f:
                return f
            if type(r) is not core.Isotope:
                return ("element[A] is not an Isotope", _short(r), "Isotope")
            if r.isotope != A or r.number != Z:
                return ("isotope number / atomic number differ from the key", (r.number, r.isotope), (Z, A))
            if r.element is not el:
                return ("isotope.element is not table[Z]", _short(r.element), o.objid(Z))
            if (r.symbol, r.name) != (isym, iname):
                return ("symbol/name of the isotope differ from its element (or documented alias)",
                        (r.symbol, r.name), (isym, iname))
            if tk == "private" and r is ctx.canon("public", Z, A):
                return ("private table shares an isotope object with the public table", _short(r), "distinct")
            return None
        if route == "isotope":
            key = "%d-%s" % (A, sym)
            r = t.isotope(key)
            f = _same(ctx, r, x, Z, A, q, "table.isotope(%r)" % key)
            if f:
                return f
            if ctx.describe(r) != (Z, A, None):
                return ("object returned for 'A-Sym' has different Z, A", ctx.describe(r), (Z, A, None))
            return None
        raise AssertionError(route)

    # element
    if route == "getitem":
        r = t[Z]
        f = _same(ctx, r, x, Z, A, q, "table[Z]") or _same(ctx, t[Z], x, Z, A, q, "second table[Z]")
        if f:
            return f
        if type(r) is not core.Element:
            return ("table[Z] is not an Element", _short(r), "Element")
        if (r.number, r.symbol, r.name) != (Z, sym, name):
            return ("number/symbol/name differ from element_base", (r.number, r.symbol, r.name), (Z, sym, name))
        if tk == "private" and r is ctx.canon("public", Z):
            return ("private table shares an element object with the public table", _short(r), "distinct")
        return None
    if route == "iter":
        items = list(x)
        As = [i.isotope for i in items]
        if As != o.isotopes[Z]:
            return ("iteration over the element does not visit every isotope once in increasing A",
                    As, o.isotopes[Z])
        if list(x.isotopes) != o.isotopes[Z]:
            return ("element.isotopes differs from the isotope table", list(x.isotopes), o.isotopes[Z])
        for i in items:
            if i is not ctx.canon(tk, Z, i.isotope):
                return ("iteration yields an isotope that is not element[A]", _short(i), o.objid(Z, i.isotope))
        return None
    if route == "attr":
        r, via = getattr(t, sym), "getattr(table, %r)" % sym
    elif route == "symbol":
        r, via = t.symbol(sym), "table.symbol(%r)" % sym
    elif route == "name":
        r, via = t.name(name), "table.name(%r)" % name
    elif route == "isotope":
        r, via = t.isotope(sym), "table.isotope(%r)" % sym
    elif route == "module_symbol":
        r, via = getattr(ctx.pt, sym), "periodictable.%s" % sym
    elif route == "module_name":
        r, via = getattr(ctx.pt, name), "periodictable.%s" % name
    else:
        raise AssertionError(route)
    f = _same(ctx, r, x, Z, A, q, via)
    if f:
        return f
    if (r.number, r.symbol, r.name) != (Z, sym, name):
        return ("number/symbol/name of the returned object do not match the key",
                (r.number, r.symbol, r.name), (Z, sym, name))
    return None


def _ident_cases(ctx, tier):
    o = ctx.oracle
    restore = _restore_routes(tier)
    for tk in ("public", "private"):
        yield (tk, None, None, None, "iter")
        for Z in o.Zs:
            for route in _element_routes(tk, tier):
                yield (tk, Z, None, None, route)
            for q in o.ions[Z]:
                for route in ["getitem"] + restore + ["change_table"]:
                    yield (tk, Z, None, q, route)
            for A in o.isotopes[Z]:
                for route in ["getitem", "isotope"] + restore + ["change_table"]:
                    yield (tk, Z, A, None, route)
                for q in o.ions[Z]:
                    for route in ["getitem"] + restore + ["change_table"]:
                        yield (tk, Z, A, q, route)
        for A in sorted(ALIASES):
            for route in _alias_routes(tk):
                yield (tk, 1, A, None, route)


def _kind(Z, A, q):
    if Z is None:
        return "table"
    return {(False, False): "element", (True, False): "isotope",
            (False, True): "ion", (True, True): "isotope_ion"}[(A is not None, q is not None)]


def _ident_failure(ctx, case, f):
    tk, Z, A, q, route = case
    what, observed, expected = f
    return dict(key="identity_sweep:%s:%s:%s" % (route, tk, ctx.oracle.objid(Z, A, q)),
                family="identity_sweep:%s:%s:%s" % (route, tk, _kind(Z, A, q)),
                grouped=False, what=what, observed=observed, expected=expected,
                case=dict(table=tk, Z=Z, A=A, q=q, route=route))


def _run_identity(ctx, cases):
    fails, n, samples, bykind = [], 0, [], {}
    seen = set()
    for case in cases:
        n += 1
        seen.add(case)
        f = _ident_eval(ctx, *case)
        k = _kind(*case[1:4])
        bykind[k] = bykind.get(k, 0) + 1
        if f:
            fails.append(_ident_failure(ctx, case, f))
        if len(samples) < 5 and n % 29989 == 1:
            tk, Z, A, q, route = case
            samples.append(dict(table=tk, object=ctx.oracle.objid(Z, A, q), route=route,
                                result="same object, fields match" if not f else f[0]))
    return fails, n, len(seen), samples, bykind


def task_identity_sweep(tier, seed, arg):
    t0 = time.time()
    ctx = Ctx(seed)
    try:
        fails, n, distinct, samples, bykind = _run_identity(ctx, _ident_cases(ctx, tier))
        res = _result(ctx, "identity_sweep", fails, n, distinct, samples, True)
        res["rule"] = _identity_rule(ctx, tier)
        res["notes"].append("evaluations by kind: %s" % sorted(bykind.items()))
        res["notes"].append("oracle counts: %s" % sorted(ctx.oracle.counts.items()))
        res["notes"].append("H[2]/H[3] carry symbol D/T and name deuterium/tritium (documented aliases); "
                            "'2-H' and 'D' name the same object; expected symbol of H[2] is taken as 'D'")
        res["notes"].append("runtime %.2f s" % (time.time() - t0))
        return res
    finally:
        ctx.close()


def _identity_rule(ctx, tier):
    c = ctx.oracle.counts
    return ("one evaluation per (table in {public, fresh private + mass.init}, object, route); objects = "
            "all %d elements, %d isotopes, %d element ions, %d isotope ions enumerated from "
            "element_base (core.py source) and isotope_mass (mass.py source); routes: element "
            "getitem/attr/symbol/name/isotope/(module symbol, module name on public)/iter, isotope "
            "getitem and 'A-Sym', ion getitem, D/T aliases, and for every object pickle, deepcopy%s and "
            "change_table to the other table, plus table iteration; every triple is distinct and "
            "non-trivial: an `is` comparison against table[Z][A].ion[q] plus a comparison of the "
            "object's own number/symbol/name/isotope/charge with the source tables"
            % (c["elements"], c["isotopes"], c["ions"], c["isotope_ions"],
               "" if tier == "quick" else ", every pickle protocol, pickle inside a container"))


# --------------------------------------------------------------------------------------------------
# invalid neighbours
# --------------------------------------------------------------------------------------------------
def _edits(s):
    out = set()
    for i, c in enumerate(s):
        out.add(s[:i] + s[i + 1:])
        if c.swapcase() != c:
            out.add(s[:i] + c.swapcase() + s[i + 1:])
    for ch in APPEND:
        out.add(s + ch)
    for ch in PREPEND:
        out.add(ch + s)
    out.discard(s)
    return out


def _bad_charges(ions):
    lo, hi = (min(ions), max(ions)) if ions else (0, 0)
    cand = set(range(lo - 1, hi + 2)) | {0, 99, -99}
    return sorted(cand - set(ions))


def _neighbour_cases(ctx):
    """Yield (table, route, key); keys are JSON-able and de-duplicated per (table, route)."""
    o = ctx.oracle
    sym_valid = sorted(o.symbol_keys)
    name_valid = sorted(o.name_keys)
    sym_nb, name_nb = set(), set()
    for s in sym_valid:
        sym_nb |= _edits(s)
    for s in name_valid:
        name_nb |= _edits(s)
    sym_nb -= set(sym_valid)        # neighbours that are valid keys are kept apart below
    name_nb -= set(name_valid)
    # a valid key reached as a neighbour of another one ("C"+"a") still has to name itself
    sym_cross = set(sym_valid)
    name_cross = set(name_valid)

    iso_keys = set()
    for Z in o.Zs:
        sym = o.sym[Z]
        have = set(o.isotopes[Z])
        iso_keys.add("0-%s" % sym)
        iso_keys.update(["x-%s" % sym, "-%s" % sym, "%s-" % sym, "-1-%s" % sym, "1.0-%s" % sym])
        for A in o.isotopes[Z]:
            key = "%d-%s" % (A, sym)
            iso_keys |= _edits(key)
            for B in (A - 1, A + 1):
                if B not in have:
                    iso_keys.add("%d-%s" % (B, sym))
            iso_keys.update(["-%d-%s" % (A, sym), "%d-%s-x" % (A, sym), "%d-%s-%d" % (A, sym, A),
                             "%s-%d" % (sym, A), "%d%s" % (A, sym), "%d-%s" % (A, o.name[Z]),
                             "%d--%s" % (A, sym), "%d.0-%s" % (A, sym)])
    for A, (asym, aname) in ALIASES.items():
        iso_keys.update(["0-%s" % asym, "%d-%s" % (A, asym), "1-%s" % asym, "%s-%d" % (asym, A),
                         "%d-%s" % (A, aname)])

    for tk in ("public", "private"):
        for k in sorted(sym_nb | sym_cross | name_cross):
            yield (tk, "symbol", k)
            yield (tk, "attr", k)
        for k in sorted(name_nb | name_cross | sym_cross):
            yield (tk, "name", k)
        for k in sorted(iso_keys | sym_nb | sym_cross | name_cross):
            yield (tk, "isotope", k)
        if tk == "public":
            for k in sorted(sym_nb | name_nb | sym_cross | name_cross):
                yield (tk, "module_attr", k)
        for k in sorted({-1, 119, 200, max(o.Zs) + 1, -max(o.Zs)} - set(o.Zs)):
            yield (tk, "getitem_Z", k)
        for Z in o.Zs:
            yield (tk, "getitem_Z", str(Z))
            yield (tk, "getitem_Z", o.sym[Z])
        for Z in o.Zs:
            have = set(o.isotopes[Z])
            bad = {0, -1}
            for A in have:
                bad.update([A - 1, A + 1, -A])
            for B in sorted(bad - have):
                yield (tk, "getitem_A", (Z, B))
            for B in sorted(have):
                yield (tk, "getitem_A", (Z, str(B)))
            bq = _bad_charges(o.ions[Z])
            for q in bq:
                yield (tk, "ion", (Z, None, q))
            for A in o.isotopes[Z]:
                for q in bq:
                    yield (tk, "ion", (Z, A, q))


def _nb_denote(ctx, route, key):
    """The (Z, A, q) that `key` names on this route, or None if it names nothing."""
    o = ctx.oracle
    if route in ("symbol", "attr"):
        d = o.symbol_keys.get(key)
    elif route == "name":
        d = o.name_keys.get(key)
    elif route == "module_attr":
        d = o.symbol_keys.get(key) or o.name_keys.get(key)
    elif route == "isotope":
        d = o.denote_isotope_key(key)
    elif route == "getitem_Z":
        d = (key, None) if (type(key) is int and key in o.sym) else None
    elif route == "getitem_A":
        Z, A = key
        d = (Z, A) if (type(A) is int and A in o.isotopes[Z]) else None
    elif route == "ion":
        Z, A, q = key
        return (Z, A, q) if (type(q) is int and q in o.ions[Z]) else None
    else:
        raise AssertionError(route)
    return None if d is None else (d[0], d[1], None)


def _nb_call(ctx, tk, route, key):
    t = ctx.tables[tk]
    if route == "symbol":
        return t.symbol(key)
    if route == "attr":
        return getattr(t, key)
    if route == "name":
        return t.name(key)
    if route == "isotope":
        return t.isotope(key)
    if route == "module_attr":
        return getattr(ctx.pt, key)
    if route == "getitem_Z":
        return t[key]
    if route == "getitem_A":
        return t[key[0]][key[1]]
    if route == "ion":
        Z, A, q = key
        x = t[Z] if A is None else t[Z][A]
        return x.ion[q]
    raise AssertionError(route)


def _nb_keystr(ctx, route, key):
    o = ctx.oracle
    if route == "getitem_A":
        return "%s[%r]" % (o.objid(key[0]), key[1])
    if route == "ion":
        return "%s.ion[%r]" % (o.objid(key[0], key[1]), key[2])
    return repr(key) if not isinstance(key, str) else key


def _nb_eval(ctx, tk, route, key):
    """Returns (status, failure) with status in raise / valid / nonatom; failure None or dict."""
    o = ctx.oracle
    if isinstance(key, list):
        key = tuple(key)
    want = _nb_denote(ctx, route, key)
    case = dict(table=tk, route=route, key=key)
    ks = _nb_keystr(ctx, route, key)

    def fail(what, observed, expected, family=None, grouped=False):
        return dict(key=("invalid_neighbours:%s" % family) if grouped else
                    "invalid_neighbours:%s:%s" % (route, ks),
                    family=("invalid_neighbours:%s" % family) if family else
                    "invalid_neighbours:%s" % route,
                    grouped=grouped, what=what, observed=observed, expected=expected, case=case, ks=ks)

    try:
        r = _nb_call(ctx, tk, route, key)
    except Exception as exc:
        if want is None:
            return "raise", None
        return "valid", fail("a key that names %s raises" % o.objid(*want), _exc(exc),
                             "the object %s" % o.objid(*want))
    got = ctx.describe(r)
    if got[0] == "non-atom":
        if want is None and route in ("attr", "module_attr"):
            return "nonatom", None          # some other attribute of the table/module, not an atom
        return "valid", fail("lookup returns something that is not an atom", got[1],
                             "raise" if want is None else o.objid(*want))
    if want is None:
        # distinct cause: mass number 0 accepted as "no isotope given"
        if route == "isotope" and isinstance(key, str):
            parts = key.split("-")
            if len(parts) == 2 and parts[1] in o.symbol_keys:
                try:
                    a0 = int(parts[0])
                except ValueError:
                    a0 = None
                Zs, As = o.symbol_keys[parts[1]]
                if a0 == 0 and got == (Zs, As, None) and r is ctx.canon(tk, Zs, As):
                    return "raise", fail(
                        "isotope('0-Sym') returns the element (D/T: the isotope) although 0 is not an "
                        "isotope number of any element; unknown isotopes must raise",
                        "%r -> %s" % (key, _short(r)), "raise ValueError",
                        family="isotope_zero_mass_number", grouped=True)
        return "raise", fail("unknown key does not raise but returns some other object",
                             "%s with (Z,A,q)=%s" % (_short(r), got), "raise")
    if got != want:
        return "valid", fail("returned object does not match the key", "%s with (Z,A,q)=%s" % (_short(r), got),
                             o.objid(*want))
    if r is not ctx.canon(tk, *want):
        return "valid", fail("returned object is not the single object of the table", _short(r), o.objid(*want))
    if route in ("symbol", "attr") and r.symbol != key:
        return "valid", fail("symbol of the returned object differs from the key", r.symbol, key)
    if route == "name" and r.name != key:
        return "valid", fail("name of the returned object differs from the key", r.name, key)
    return "valid", None


def _run_neighbours(ctx, cases):
    fails, n, samples = [], 0, []
    seen, status = set(), {}
    for tk, route, key in cases:
        n += 1
        seen.add((tk, route, key if not isinstance(key, list) else tuple(key)))
        st, f = _nb_eval(ctx, tk, route, key)
        status[(route, st)] = status.get((route, st), 0) + 1
        if f:
            fails.append(f)
        if len(samples) < 5 and n % 99991 == 7:
            samples.append(dict(table=tk, route=route, key=key,
                                result={"raise": "raised", "valid": "names a valid atom, returned it",
                                        "nonatom": "non-atom attribute"}[st] if not f else f["what"]))
    return fails, n, len(seen), samples, status


def task_invalid_neighbours(tier, seed, arg):
    t0 = time.time()
    ctx = Ctx(seed)
    try:
        fails, n, distinct, samples, status = _run_neighbours(ctx, _neighbour_cases(ctx))
        res = _result(ctx, "invalid_neighbours", fails, n, distinct, samples, True)
        res["rule"] = (
            "every (table in {public, fresh private}, route, key) once, keys de-duplicated: for every "
            "valid symbol (incl. D, T), name and 'A-Sym' key all strings obtained by deleting one "
            "char, swapping the case of one char, appending one of %r, prepending one of %r; per "
            "isotope 'A+-1-Sym' (when absent), '-A-Sym', 'A-Sym-x', 'A-Sym-A', 'Sym-A', 'ASym', "
            "'A-name', 'A--Sym', 'A.0-Sym'; per element '0-Sym', 'x-Sym', '-Sym', 'Sym-', '-1-Sym'; "
            "names on the symbol routes and symbols on the name route; table[k] for k in -1, 119, 200, "
            "-118, str(Z), Sym; element[k] for k in 0, -1, A+-1 (absent), -A, str(A); x.ion[q] for x "
            "every element and isotope and q every integer in [min-1, max+1] not in the ion list plus "
            "0, 99, -99.  Routes: table.symbol, getattr(table), table.name, table.isotope, "
            "getattr(periodictable) (public), table[...], element[...], .ion[...].  Non-trivial: the key "
            "either names nothing (must raise) or is itself a valid key (must return exactly the atom "
            "whose own Z/A/symbol/name match); int() leniency (' 56-Fe', '+56-Fe', '056-Fe') counts "
            "as naming A=56" % (APPEND, PREPEND))
        res["notes"].append("cases by (route, class): %s" % sorted(status.items()))
        res["notes"].append("class 'raise' = key names nothing, 'valid' = neighbour is itself a valid key, "
                            "'nonatom' = getattr returned a non-atom attribute (not a lookup result)")
        res["notes"].append("runtime %.2f s" % (time.time() - t0))
        return res
    finally:
        ctx.close()


# --------------------------------------------------------------------------------------------------
# result assembly (shared by sweeps and replay)
# --------------------------------------------------------------------------------------------------
def _jsonable(x):
    if isinstance(x, (tuple, list)):
        return [_jsonable(i) for i in x]
    if isinstance(x, dict):
        return {str(k): _jsonable(v) for k, v in x.items()}
    if isinstance(x, (int, float, str, bool)) or x is None:
        return x
    return str(x)


def _result(ctx, task, fails, n, distinct, samples, exhaustive):
    notes = list(ctx.oracle.notes)
    violations = []
    # grouped families: one entry per distinct cause, with a count and examples
    grouped, single, order = {}, {}, []
    for f in fails:
        if f["grouped"]:
            grouped.setdefault(f["key"], []).append(f)
        else:
            if f["key"] not in single:
                single[f["key"]] = []
                order.append(f["key"])
            single[f["key"]].append(f)
    for key in sorted(grouped):
        fs = grouped[key]
        keys = sorted({f["ks"] for f in fs})
        ex = fs[:6]
        ex = ex + [f for f in fs[6:] if f["case"]["table"] != fs[0]["case"]["table"]][:4]
        violations.append(dict(
            key=key,
            what="%s (%d evaluations, %d distinct keys over tables %s; e.g. %s)" % (
                fs[0]["what"], len(fs), len(keys), sorted({f["case"]["table"] for f in fs}),
                ", ".join(keys[:8])),
            input=dict(task=task, cases=_jsonable([f["case"] for f in ex])),
            observed=_jsonable([f["observed"] for f in ex[:6]]),
            expected=fs[0]["expected"]))
    perfam, famcount = {}, {}
    for key in order:
        fs = single[key]
        fam = fs[0]["family"]
        famcount[fam] = famcount.get(fam, 0) + 1
        if perfam.get(fam, 0) >= PER_FAMILY and len(order) > PER_FAMILY:
            continue
        perfam[fam] = perfam.get(fam, 0) + 1
        tables = sorted({f["case"]["table"] for f in fs})
        violations.append(dict(
            key=key, what="%s (tables: %s)" % (fs[0]["what"], ", ".join(tables)),
            input=dict(task=task, cases=_jsonable([f["case"] for f in fs])),
            observed=_jsonable(fs[0]["observed"]), expected=_jsonable(fs[0]["expected"])))
    for fam in sorted(famcount):
        if famcount[fam] > perfam.get(fam, 0):
            notes.append("family %s: %d failing keys, first %d listed" % (fam, famcount[fam], perfam[fam]))
    if len(violations) > MAX_VIOLATIONS:
        notes.append("%d violation entries truncated to %d" % (len(violations), MAX_VIOLATIONS))
        violations = violations[:MAX_VIOLATIONS]
    return dict(evaluations=n, distinct=distinct, rule="", exhaustive=exhaustive,
                samples=_jsonable(samples), violations=violations, notes=notes)


# --------------------------------------------------------------------------------------------------
# replay
# --------------------------------------------------------------------------------------------------
def task_replay(tier, seed, arg):
    inp = (arg or {}).get("input") or {}
    task = inp.get("task")
    cases = inp.get("cases") or []
    ctx = Ctx(seed)
    try:
        if task == "identity_sweep":
            tup = [(c["table"], c["Z"], c["A"], c["q"], c["route"]) for c in cases]
            fails, n, distinct, samples, _ = _run_identity(ctx, tup)
            samples = [dict(table=c[0], object=ctx.oracle.objid(c[1], c[2], c[3]), route=c[4]) for c in tup[:5]]
        elif task == "invalid_neighbours":
            tup = [(c["table"], c["route"], tuple(c["key"]) if isinstance(c["key"], list) else c["key"])
                   for c in cases]
            fails, n, distinct, samples, _ = _run_neighbours(ctx, tup)
            samples = [dict(table=c[0], route=c[1], key=c[2]) for c in tup[:5]]
        else:
            return dict(evaluations=0, distinct=0, rule="replay", exhaustive=False, samples=[],
                        violations=[], notes=["unknown replay input (no 'task'): %r" % (inp,)])
        res = _result(ctx, task, fails, n, distinct, samples, False)
        res["rule"] = "replay of the %d case(s) of violation %r of %s" % (len(cases), (arg or {}).get("key"), task)
        want = (arg or {}).get("key")
        if want is not None:
            res["notes"].append("key %s %s" % (want, "reproduced" if any(
                v["key"] == want for v in res["violations"]) else "NOT reproduced"))
        return res
    finally:
        ctx.close()
