"""C17 native side: nsf.neutron_composite_sld (precomputed calculator) against the direct neutron_sld of the formula
sum_i w_i*material_i and against the documented equations (oracle of c03), with output shapes and the zero cases."""
import random

from . import nat
from .nat import Result, atom_from_name
from . import c03
from .c03 import Grouped, doc_scattering, entry, mismatch, compound_id, lam_id

RTOL = 1e-10
NAMES = ["real_sld", "imag_sld", "incoh_sld"]
RULE_TOL = c03.RULE_TOL

LIBRARY = [
    [["H", 2], ["O", 1]], [["D", 2], ["O", 1]], [["Si", 1], ["O", 2]], [["Gd", 2], ["O", 3]], [["Lu[176]", 1]],
    [["Gd", 1]], [["Sm[149]", 2], ["O", 3]], [["Sm[149]", 1]], [["Lu", 1], ["Al", 1], ["O", 3]], [["Er[167]", 1]],
    [["Eu[151]", 1], ["S", 1]], [["Yb", 2], ["O", 3]], [["Dy[164]", 1]], [["C", 3], ["H", 4], ["H[1]", 3], ["N", 1],
                                                                          ["O", 2]],
    [["Fe{2+}", 1], ["O{2-}", 1]], [["Ni", 1]], [["B[10]", 4], ["C", 1]], [["Cd", 1], ["Te", 1]], [["C", 8], ["H", 8]],
    [["Gd[157]", 1], ["Gd[155]", 1]], [["Li[6]", 1], ["F", 1]], [["Ti", 1]], [["V", 1]],
    [["Sm", 2], ["O", 3]], [["Sm", 1]],      # natural Sm: the one tabulated b_c that is exactly 0 (and energy dependent)
]


def atom_dict(atoms):
    d = {}
    for nm, c in atoms:
        a = atom_from_name(nm)
        d[a] = d.get(a, 0) + c
    return d


def case_id(case):
    mats = "|".join(compound_id(m) for m in case["materials"])
    w = ",".join("%.6g" % x for x in case["weights"])
    lid = "default" if case.get("value") is None else lam_id(case["value"])
    return "%s:w=%s:rho=%.6g:%s" % (mats, w, case["density"], lid)


def check_case(G, R, case):
    import numpy as np
    from periodictable import nsf
    from periodictable.formulas import formula
    cid = case_id(case)
    mats = [formula(atom_dict(m)) for m in case["materials"]]
    w = [float(x) for x in case["weights"]]
    rho = case["density"]
    val = case.get("value")
    vec = isinstance(val, list)
    if val is None:
        lams, kw = [c03.LAMBDA0], {}
    else:
        lams = list(val) if vec else [val]
        kw = {"wavelength": (np.array(val, dtype=float) if case.get("container", "array") == "array" else list(val))
              if vec else val}
    want_shape = (len(val),) if vec else ()
    try:
        calc = nsf.neutron_composite_sld(mats, **kw)
        got = calc(np.array(w), density=rho)
    except Exception as e:
        G.violation(("exception", type(e).__name__), "sample:exception:%s" % cid,
                    "the composite calculator raised %s" % type(e).__name__, case, "%s: %s" % (type(e).__name__, e))
        return
    R.ok(len(lams))
    if not (isinstance(got, tuple) and len(got) == 3):
        G.violation(("result",), "sample:result:%s" % cid, "the calculator does not return three SLDs", case, repr(got))
        return
    # the formula sum_i w_i*material_i
    total_atoms = {}
    for wi, m in zip(w, case["materials"]):
        for a, n in atom_dict(m).items():
            total_atoms[a] = total_atoms.get(a, 0) + wi * n
    zero = sum(w) == 0 or rho == 0
    if zero:
        vals_ok = all(np.all(np.asarray(g) == 0) for g in got)
        if not vals_ok:
            G.violation(("zero_value",), "sample:zero_value:%s" % cid,
                        "zero total weight or zero density must give zero SLDs", case, repr(got), 0)
        shapes = [list(np.shape(g)) for g in got]
        if any(sh != list(want_shape) for sh in shapes):
            G.violation(("zero_shape",), "sample:zero_shape:%s" % cid,
                        "with zero total weight or zero density the zeros returned for a vector of %d wavelengths are "
                        "scalars, not shaped like the wavelength argument" % len(lams), case,
                        dict(zip(NAMES, shapes)), list(want_shape))
        return
    shape_ok = True
    for name, g in zip(NAMES, got):
        if np.shape(g) != want_shape:
            shape_ok = False
            G.violation(("shape", name), "sample:shape:%s:%s" % (name, cid),
                        "%s is not shaped like the wavelength argument" % name, case, list(np.shape(g)),
                        list(want_shape))
    if not shape_ok:
        return
    total = formula()
    for wi, m in zip(w, mats):
        total = total + wi * m
    try:
        direct = nsf.neutron_sld(total, density=rho, **kw)
    except Exception as e:
        G.violation(("direct_exception",), "sample:direct_exception:%s" % cid,
                    "neutron_sld of sum_i w_i*material_i raised", case, "%s: %s" % (type(e).__name__, e))
        direct = None
    for i, lam in enumerate(lams):
        ref = doc_scattering({a: n for a, n in total_atoms.items() if n != 0}, rho, lam)
        for j, name in enumerate(NAMES):
            gv = entry(got[j], i if vec else None)
            if direct is not None:
                try:
                    dv = entry(direct[j], i if vec else None)
                except Exception:
                    dv = None
                if dv is None or mismatch(name, gv, dv, ref, RTOL):
                    G.violation(("direct", name), "sample:direct_%s:%s" % (name, cid),
                                "%s of the calculator differs from neutron_sld(sum_i w_i*material_i, density) at "
                                "wavelength %r" % (name, lam), case, gv, dv)
            if mismatch(name, gv, ref[name], ref, RTOL):
                G.violation(("doc", name), "sample:doc_%s:%s" % (name, cid),
                            "%s of the calculator differs from the documented equations for sum_i w_i*material_i at "
                            "wavelength %r" % (name, lam), case, gv, ref[name])


def random_case(rng, names, ions):
    k = rng.randint(1, 6)
    mats = []
    for _ in range(k):
        r = rng.random()
        if r < 0.6:
            mats.append(rng.choice(LIBRARY))
        elif r < 0.75 and mats:
            mats.append(rng.choice(mats))                       # repeated material
        else:
            mats.append(c03.random_atoms(rng, names, ions, [1, 2, 3, 0.5, 1.25, 10, 7, 4, 12]))
    r = rng.random()
    if r < 0.06:
        w = [0.0] * k
    else:
        w = [rng.choice([0.0, 1.0, 0.5, 2.0, 0.001, 10.0, 3.0]) if rng.random() < 0.6 else round(rng.uniform(0, 5), 4)
             for _ in range(k)]
    rho = 0.0 if rng.random() < 0.06 else c03.log_uniform(rng, 1e-3, 25.0)
    r = rng.random()

    def lam():
        return rng.uniform(0.35, 3.0) if rng.random() < 0.5 else c03.log_uniform(rng, 0.05, 50.0)
    case = {"materials": mats, "weights": w, "density": rho}
    if r < 0.1:
        case["value"] = None
    elif r < 0.45:
        case["value"] = lam()
    elif r < 0.6:
        case["value"] = [lam()]
    else:
        case["value"] = [lam() for _ in range(rng.choice([2, 3, 5, k]))]
    if isinstance(case["value"], list):
        case["container"] = rng.choice(["array", "list"])
    return case


def case_class(case):
    v = case.get("value")
    edep = any(nm.split("{")[0] in c03.EDEP for m in case["materials"] for nm, _ in m)
    return (len(case["materials"]), "default" if v is None else (len(v) if isinstance(v, list) else "scalar"),
            case.get("container"), edep, sum(case["weights"]) == 0, case["density"] == 0,
            any(x == 0 for x in case["weights"]), len(set(map(str, case["materials"]))) < len(case["materials"]))


def run_case(G, R, case):
    try:
        check_case(G, R, case)
    except Exception as e:
        G.violation(("harness_exception", type(e).__name__), "sample:exception:%s" % case_id(case),
                    "the code under test raised %s" % type(e).__name__, case, "%s: %s" % (type(e).__name__, e))


def task_sample(tier, seed, arg):
    n = 600 if tier == "quick" else 20000
    rng = random.Random(seed)
    R = Result("%d seeded lists of 1-6 materials (library of %d formulas incl. energy-dependent Lu[176], Gd, Sm[149], "
               "Er[167], Eu[151], Yb, Dy[164], Lu; repeated materials; random 1-6 atom formulas with ions/isotopes), "
               "weights >= 0 incl. zeros and all-zero, density 0 or log-uniform in [1e-3,25], wavelength default / "
               "scalar / length-1 / length-n (array or list): calculator(weights, density) vs neutron_sld(sum_i "
               "w_i*material_i, density, wavelength) and vs the documented equations, shape of each of the three "
               "outputs vs the wavelength argument, zeros for zero total weight or zero density.  %s.  Bounded sample; "
               "distinct = distinct (#materials, wavelength kind, container, energy-dependent, zero weight, zero "
               "density, some zero weight, repeated material) classes" % (n, len(LIBRARY), RULE_TOL))
    G = Grouped(R, per=3)
    names, ions = c03.compound_pool()
    fixed = [
        {"materials": [LIBRARY[0], LIBRARY[3], LIBRARY[4]], "weights": [1.0, 0.5, 0.0], "density": 2.0, "value": 2.0},
        {"materials": [LIBRARY[0], LIBRARY[3], LIBRARY[4]], "weights": [1.0, 0.5, 0.25], "density": 2.0,
         "value": [1.0, 2.0, 3.0], "container": "array"},
        {"materials": [LIBRARY[0], LIBRARY[2]], "weights": [1.0, 0.5], "density": 2.0, "value": [1.0, 2.0, 3.0],
         "container": "list"},
        {"materials": [LIBRARY[0], LIBRARY[2]], "weights": [0.0, 0.0], "density": 2.0, "value": [1.0, 2.0, 3.0],
         "container": "array"},
        {"materials": [LIBRARY[0], LIBRARY[4]], "weights": [1.0, 1.0], "density": 0.0, "value": [1.0, 2.0],
         "container": "array"},
        {"materials": [LIBRARY[0], LIBRARY[4]], "weights": [0.0, 0.0], "density": 1.0, "value": 1.5},
        {"materials": [LIBRARY[5]], "weights": [3.0], "density": 7.9, "value": None},
    ]
    for i, case in enumerate(fixed + [random_case(rng, names, ions) for _ in range(n)]):
        run_case(G, R, case)
        R.distinct.add(case_class(case))
        if i in (1, 7, 8):
            R.sample(case)
    return G.done()


def task_replay(tier, seed, arg):
    arg = arg or {}
    case = arg.get("input")
    if isinstance(case, dict) and "materials" in case:
        R = Result("replay of one recorded case; " + RULE_TOL)
        G = Grouped(R, per=60)
        run_case(G, R, case)
        return G.done()
    return task_sample("quick", seed, None)
