"""Bounded stand-in shared by several properties: a fixed list of OBSERVATIONS of the library (small programs that end in a
value) must not depend on what the process did before.

Every observation is evaluated
  (F) as the very first use of the library in a fresh interpreter (one interpreter per observation),
  (W) in one warmed-up interpreter (every lazy data group touched, every observation evaluated in list order, then all again),
  (R) in another warmed-up interpreter in REVERSE list order,
  (E) in an interpreter in which a fixed list of REJECTED calls was made first (FAULTS: unknown symbols on a private table, malformed
      strings, unusable argument types, unknown residues, untabulated ions - each must raise, and whatever it raises is discarded),
  (E_i) in one interpreter per rejected call of that list (in the combined history a later rejected call may consume or reset
      what an earlier one left behind),
and all values (F, W first pass, W second pass, R, E, E_i) must be identical texts (floats are compared by repr).  (E) is the
stand-in for failure atomicity: a call that is rejected part-way must leave nothing behind that a later valid call can see.

What this decides that a per-call contract cannot: order of first use (lazy registration on the wrong class, a loader that is
triggered by the wrong attribute), state left behind by an earlier observation (caches keyed too coarsely, aliasing of returned
objects, records moved between objects), first read versus second read.  It is a fixed finite list: labelled bounded.

task `observations`, arg {"tags": [...]} restricts the list to the observations carrying one of the tags.
"""
import json
import os
import subprocess
import sys
from concurrent.futures import ThreadPoolExecutor

PRELUDE = r'''
import json, sys, copy, pickle
import numpy as np
import periodictable as pt
from periodictable import core
formula = pt.formula

class _Lazy(object):
    """a module that is imported when it is first used (importing fasta, activation, ... is itself a use of the tables)"""
    def __init__(self, name):
        self.__dict__["_name"] = name
    def __getattr__(self, attr):
        import importlib
        return getattr(importlib.import_module(self._name), attr)

mass, density, nsf, xsf, fasta, act, cromermann, magnetic_ff, formulas = [_Lazy("periodictable." + n) for n in
    ("mass", "density", "nsf", "xsf", "fasta", "activation", "cromermann", "magnetic_ff", "formulas")]

def S(v):
    """stable text of a value"""
    if v is None or isinstance(v, (bool, str)):
        return v
    if isinstance(v, (int,)):
        return int(v)
    if isinstance(v, float):
        return repr(float(v))
    if isinstance(v, complex):
        return repr(complex(v))
    if isinstance(v, np.ndarray):
        return [S(x) for x in v.tolist()]
    if isinstance(v, np.generic):
        return S(v.item())
    if isinstance(v, dict):
        return sorted([[str(S(k)), S(x)] for k, x in v.items()], key=lambda kv: kv[0])
    if isinstance(v, (list, tuple)):
        return [S(x) for x in v]
    if isinstance(v, (core.Element, core.Isotope, core.Ion)):
        base = v.element if isinstance(v, core.Ion) else v
        t = "%s[%d]" % (base.element.symbol, base.isotope) if isinstance(base, core.Isotope) else base.symbol
        if isinstance(v, core.Ion):
            t += "{%+d}" % v.charge
        return t + "@" + ("public" if getattr(base, "table", "public") == "public" else "private")
    return "<%s %s>" % (type(v).__name__, str(v)[:60])

def atoms(f):
    return S(dict(f.atoms))

FAULT_OBJ = {}
_n = [0]
def private(*inits):
    """a fresh private table on which the given modules are initialised, in that order"""
    _n[0] += 1
    T = core.PeriodicTable("independence_%d_%d" % (__import__("os").getpid(), _n[0]))
    for m in inits:
        (getattr(m, "init") if not isinstance(m, tuple) else getattr(m[0], m[1]))(T)
    return T

def run(code):
    env = dict(globals())
    try:
        exec(code, env)
        out = {"value": S(env.get("result"))}
        if "check" in env:
            out["check"] = bool(env["check"])
        return out
    except Exception as e:
        return {"raised": "%s: %s" % (type(e).__name__, str(e)[:160])}
'''

WARMUP = r'''
for el in pt.elements:
    for nm in ("mass", "density", "neutron", "xray", "K_alpha", "magnetic_ff", "covalent_radius", "crystal_structure", "neutron_activation"):
        getattr(el, nm, None)
formula("H2O@1").density; pt.neutron_sld("H2O@1"); pt.xray_sld("H2O@1", energy=8.0)
'''

FAULT_SETUP = r'''
from decimal import Decimal
from fractions import Fraction
def _rejected(code):
    try:
        exec(code, globals())
    except BaseException:
        pass
_Tq = private(mass, density)
_Tq.Fe._mass = 60.0; _Tq.H._mass = 50.0; _Tq.H._density = 9.0; _Tq.O._mass = 2.0
FAULT_OBJ["water"] = formula("H2O@1")
FAULT_OBJ["silica"] = formula("SiO2@2.2")
FAULT_OBJ["methane"] = formula("CH4")
'''

FAULT_CALLS = ["formula('Xx2O', table=_Tq)", "formula('H2O)', table=_Tq)", "formula('Fe2Xx3', table=_Tq)", "formula('Fe2Xx3')", "formula('Na{+}Cl{-}2)')",
           "formula('2g Si // 1mL C6H6')", "formula('5wt% Si // Xx')", "formula('1g H2O@1 // 3g Qq')",
           "formula([(1, pt.C), (Decimal('0.5'), pt.H), (0.5, pt.H)]).atoms", "formula([(0.5, [(Decimal(2), pt.H)]), (3, [(1, pt.O)])]).atoms",
           "formula([(1, pt.C), (0.5, pt.H), (0.5, pt.H), (1, [1, 2])]).atoms",
           "pt.neutron_scattering(FAULT_OBJ['water'], density=2.0, wavelength='4.75')", "pt.neutron_sld(FAULT_OBJ['water'], natural_density=3.0, wavelength='4.75')",
           "pt.xray_sld(FAULT_OBJ['silica'], density=5.0, energy='x')", "pt.xray_sld(FAULT_OBJ['silica'], density=5.0)", "xsf.index_of_refraction(FAULT_OBJ['silica'], density=5.0, energy=[8.0, 'x'])",
           "pt.neutron_sld('C2H6O@0.789', wavelength=Decimal('4.75'))", "nsf.D2O_match('C2H6O@0.789', wavelength=Decimal('4.75'))",
           "nsf.D2O_sld('C3H4H[1]3NO2@1.29', wavelength=Decimal('4.75'))",
           "fasta.Sequence('rejected', 'ACD?E')", "formula('aa:ACD?E')", "formula('dna:ACGU?')",
           "cromermann.fxrayatq('Fe', 0.0, 4)", "pt.Fe.ion[4].xray.f0(0.0)", "cromermann.fxrayatstol('Xx', 0.0)",
           "pt.Fe.ion[9]", "pt.Fe[999]", "pt.elements.isotope('0-Fe')", "pt.elements.symbol('Xx')",
           "nsf.neutron_composite_sld([formula('H2O@1'), formula('D2O@1.11')], wavelength=[4.0, 5.0])([0.5, 0.5])",
           "act.Sample('Co30Fe70', 1.0).calculate_activation(act.ActivationEnvironment(1e13), abundance=lambda iso: {}[iso])"]

FAULTS = FAULT_SETUP + "\nfor _c in %r:\n    _rejected(_c)\n" % (FAULT_CALLS,)

# (tags, name, program ending in `result = ...`)
OBSERVATIONS = [
    # first in the list on purpose: a formula object that was built BEFORE any rejected call, asked before anything else is built
    (("C02", "C19"), "counts of a formula object built before anything was rejected", "f = FAULT_OBJ.get('methane') or formula('CH4'); result = [atoms(f), f.mass, str(f.hill), f.charge]; check = atoms(f) == S({pt.C: 1, pt.H: 4})"),
    # ---- densities and masses reached through isotopes / ions first
    (("C01", "C06", "C12"), "density of 'D'", "result = formula('D').density"),
    (("C01", "C06", "C12"), "density of 'O[18]2'", "result = formula('O[18]2').density"),
    (("C01", "C06", "C12"), "density of 'Fe[56]{2+}'", "result = formula('Fe[56]{2+}').density"),
    (("C01", "C12"), "density of 'Fe[54]{2+}' vs 'Fe[54]'", "result = [formula('Fe[54]{2+}').density, formula('Fe[54]').density]; check = result[0] == result[1]"),
    (("C01", "C12"), "density of 'D{+}'", "result = formula('D{+}').density; check = result == pt.D.density"),
    (("C06", "C12"), "O[18].density through the atom", "result = formula(pt.O[18]).density"),
    (("C06",), "Ni[58] number density", "result = [pt.Ni[58].density, pt.Ni[58].number_density, pt.Ni[58].interatomic_distance]"),
    (("C06",), "D mass / abundance", "result = [pt.D.mass, pt.D.abundance, pt.H[1].abundance, pt.T.mass]"),
    (("C06",), "Ac density stays unknown", "result = [pt.Ac.density, pt.Ac[227].density if 227 in pt.Ac.isotopes else None, pt.Ra.density]; check = result == [None, None, None]"),
    (("C02", "C06"), "ion masses", "result = [pt.Fe[56].ion[2].mass, pt.D.ion[1].mass, pt.He[4].ion[2].mass, pt.H.ion[1].mass, formula('D{+}').mass]; check = all(abs(x.mass - (x.element.mass - x.charge * pt.constants.electron_mass)) < 1e-12 for x in (pt.Fe[56].ion[2], pt.D.ion[1], pt.He[4].ion[2], pt.H.ion[1]))"),
    (("C06", "C10"), "private table: D, T handles",
     "T = private(mass, density); result = [T.D.mass, T.D.abundance, T.D.density, T.T.mass, T.H[2] is T.D, T.isotope('D') is T.D]; check = abs(T.D.mass - 2.01410177784) < 1e-6 and T.H[2] is T.D and T.isotope('D') is T.D and abs(T.D.density / T.H.density - T.D.mass / T.H.mass) < 1e-12"),
    (("C06", "C11", "C10"), "private table with another Ni density, isotope first",
     "T = private(mass, density); T.Ni._density = 8.5; a = T.Ni[58].density; b = pt.Ni[58].density; result = [a, b, a / 8.5, b / pt.Ni.density]; check = abs(a / 8.5 - T.Ni[58].mass / T.Ni.mass) < 1e-12 and abs(b / pt.Ni.density - pt.Ni[58].mass / pt.Ni.mass) < 1e-12"),
    (("C06", "C10"), "private table with H mass 1, isotope density",
     "T = private(mass, density); T.H._mass = 1.0; result = [T.D.density / T.H.density, pt.D.density / pt.H.density]; check = abs(result[0] - T.D.mass / 1.0) < 1e-12 and abs(result[1] - pt.D.mass / pt.H.mass) < 1e-12"),
    (("C01", "C10"), "a private table created under the name of a discarded one",
     "nm = 'independence_reuse_%d' % __import__('os').getpid(); T1 = core.PeriodicTable(nm); mass.init(T1); density.init(T1); a = formula('Fe2O3', table=T1); core.PRIVATE_TABLES.pop(nm, None); "
     "T2 = core.PeriodicTable(nm); mass.init(T2); density.init(T2); T2.Fe._mass = 60.0; T2.Fe._density = 1.25; b = formula('Fe', table=T2); c = formula('Fe2O3', table=T2); core.PRIVATE_TABLES.pop(nm, None); "
     "result = [b.mass, b.density, all(x.table is T2.Fe.table and core.change_table(x, T2) is x for x in c.atoms), all(core.change_table(x, T1) is x for x in a.atoms)]; check = result == [60.0, 1.25, True, True]"),
    # ---- neutron data
    (("C07", "C03"), "Ni[58] record", "n = pt.Ni[58].neutron; result = [n.b_c, n.total, n.absorption, pt.Ni[58].nuclear_spin]"),
    (("C09",), "nuclear spin first", "result = [pt.Fe[56].nuclear_spin if hasattr(pt.Fe[56], 'nuclear_spin') else 'no attribute', pt.Fe[57].neutron.b_c]"),
    (("C07", "C03"), "T absorption", "result = [pt.T.neutron.absorption, pt.T.neutron.b_c]; check = pt.T.neutron.absorption == 6e-6"),
    (("C07", "C03", "C09"), "Er at 0.5 A", "result = pt.Er.neutron.scattering_by_wavelength(0.5)"),
    (("C07", "C10"), "private table: nsf.init first", "T = private(mass, density, nsf); result = [T.Be.neutron.b_c, T.Na.neutron.has_sld(), T.Pu.neutron.b_c, T.Be[9].neutron.b_c]; check = abs(result[0] - 7.79) < 1e-9 and result[1] is True and result[3] == result[0]"),
    (("C07",), "single-isotope elements", "result = [pt.Be.neutron.b_c, pt.F.neutron.b_c, pt.Al.neutron.total, pt.n.neutron.b_c, pt.n[1].neutron.b_c]; check = result[0] == pt.Be[9].neutron.b_c and result[3] == result[4]"),
    (("C03", "C04", "C09"), "neutron_sld of H then D", "result = [pt.neutron_sld(pt.H), pt.neutron_sld(pt.D)]"),
    (("C03", "C04", "C09"), "neutron_sld of D", "result = pt.neutron_sld(pt.D)"),
    (("C03", "C09"), "neutron_sld of Ni[58] and its ion", "result = [pt.neutron_sld(pt.Ni[58]), pt.neutron_sld(pt.Ni[58].ion[2]), pt.neutron_sld(pt.Ni)]"),
    (("C03", "C04"), "neutron_scattering of a string", "result = nsf.neutron_scattering('Gd2O3@7.4', wavelength=1.8)"),
    (("C03", "C04", "C17"), "isotope ions of one element in one compound",
     "result = [pt.neutron_sld('Li[6]{+}0.95Li[7]{+}0.05F{-}', density=2.6), pt.neutron_sld('Li[7]{+}0.05Li[6]{+}0.95F{-}', density=2.6), "
     "pt.neutron_sld('H{+}0.5D{+}1.5S{6+}O{2-}4', density=1.8), pt.neutron_sld('D{+}1.5H{+}0.5S{6+}O{2-}4', density=1.8)]; check = result[0] == result[1] and all(abs(x - y) < 1e-9 * max(abs(x), 1e-12) for x, y in zip(pt.neutron_sld('H{+}0.5D{+}1.5S{6+}O{2-}4', density=1.8), pt.neutron_sld('D{+}1.5H{+}0.5S{6+}O{2-}4', density=1.8)))"),
    (("C04", "C10"), "isotope ion moved to a private table",
     "T = private(mass, density, nsf); a = formula('D{+}2S{6+}O{2-}4', table=T); b = formula('D{+}2S{6+}O{2-}4'); b.change_table(T); "
     "result = [atoms(a), atoms(b), nsf.neutron_sld(a, density=1.8), nsf.neutron_sld(b, density=1.8)]; check = atoms(a) == atoms(b)"),
    # ---- x-ray data
    (("C05", "C09", "C20"), "f0 of Fe{2+} first", "result = [pt.Fe.ion[2].xray.f0(0.0), pt.Fe.ion[2].xray.f0(1.0)]; check = abs(result[0] - 24) < 0.05"),
    (("C05", "C09", "C20"), "f0 of Fe", "result = [pt.Fe.xray.f0(0.0), pt.Fe.xray.f0(1.0)]; check = abs(result[0] - 26) < 0.05"),
    (("C05", "C09", "C20"), "f0 of O{2-}", "result = pt.O.ion[-2].xray.f0(0.0); check = abs(result - 10) < 0.05"),
    (("C05", "C09", "C20"), "f0 of Co after a request without coefficients",
     "a = None\ntry:\n    pt.Fe.ion[4].xray.f0(1.0)\nexcept Exception as e:\n    a = type(e).__name__\nresult = [a, pt.Co.xray.f0(1.0), pt.Ni.xray.f0(1.0)]"),
    (("C05", "C20"), "Fe: neutral, ion, neutral", "a = pt.Fe.xray.f0(0.0); b = pt.Fe.ion[2].xray.f0(0.0); c = pt.Fe.xray.f0(0.0); result = [a, b, c]; check = a == c and abs(b - 24) < 0.05"),
    (("C05", "C20"), "Fe{2+} sld then f0", "a = pt.Fe.xray.f0(0.5); pt.Fe.ion[2].xray.sld(energy=8.0); result = [a, pt.Fe.ion[2].xray.f0(0.0)]; check = abs(result[1] - 24) < 0.05"),
    (("C05",), "xray_sld of isotope ions", "result = [pt.xray_sld('Li[6]{+}0.95Li[7]{+}0.05F{-}', density=2.6, energy=8.0), pt.xray_sld('H{+}D{+}O{2-}', density=1.05, energy=8.0), pt.xray_sld('Li[7]{+}0.05Li[6]{+}0.95F{-}', density=2.6, energy=8.0), pt.xray_sld('D{+}H{+}O{2-}', density=1.05, energy=8.0)]; check = result[0] == result[2] and result[1] == result[3]"),
    (("C20", "C09"), "emission lines", "result = [pt.Cu.K_alpha, pt.Cu.K_beta1, pt.Ac.K_alpha, pt.Ac.K_beta1, pt.Cu.K_alpha_units]"),
    (("C20", "C10"), "private table: spectral lines first",
     "T = private(mass, density, (xsf, 'init_spectral_lines')); result = [T.Ac.K_alpha, T.Ac.K_beta1, T.Cu.K_alpha, getattr(T.Ac, 'K_beta1_units', None)]"),
    (("C20", "C08"), "magnetic form factor through an ion fetched first",
     "ion = pt.Fe.ion[2]; v = ion.magnetic_ff[ion.charge].j0_Q(0.1); result = [v, pt.Fe.ion[2] is ion, pickle.loads(pickle.dumps(ion)) is ion]"),
    (("C20", "C08"), "charge 0 stays an error", "a = None\ntry:\n    pt.Fe.ion[0]\nexcept Exception as e:\n    a = type(e).__name__\nresult = [a, pt.Fe.magnetic_ff[2].j0_Q(0.0)]; check = a == 'ValueError'"),
    (("C20",), "lattice and radius", "result = [pt.Fe.crystal_structure, pt.Fe.covalent_radius, pt.Ac.crystal_structure, pt.Ac.density, formula('Fe').volume()]"),
    # ---- identity
    (("C08",), "deep copies and pickles of isotopes and ions",
     "xs = [pt.Fe[56], pt.Fe.ion[2], pt.D, pt.n[1], pt.Fe[56].ion[3], pt.Fe]; result = [[copy.deepcopy(x) is x, copy.copy(x) is x, pickle.loads(pickle.dumps(x)) is x] for x in xs]; check = all(all(t) for t in result)"),
    (("C08", "C16", "C02"), "deep copy of a formula with isotopes", "f = formula('D2O'); g = copy.deepcopy(formula('C3H4H[1]3NO2')); result = [atoms(copy.deepcopy(f)), atoms(g)]; check = result[0] == atoms(formula('D2O')) and result[1] == atoms(formula('C3H4H[1]3NO2'))"),
    (("C08",), "symbol lookups", "result = [S(pt.elements.symbol('n')), S(pt.elements.isotope('n')), S(pt.elements.symbol('N')), S(pt.elements.isotope('1-n')), S(pt.elements.symbol('D'))]; check = result[0].startswith('n@') and result[1].startswith('n@') and result[2].startswith('N@') and result[3].startswith('n[1]@')"),
    (("C02", "C03", "C04", "C05", "C08", "C11", "C12", "C13", "C14", "C16", "C17", "C18", "C19"), "isotope ions as dictionary keys",
     "a, b, c = pt.Li[6].ion[1], pt.Li[7].ion[1], pt.Li.ion[1]; result = [a == b, a == c, len({a: 1, b: 2, c: 3}), pt.D.ion[1] == pt.H.ion[1]]; check = result == [False, False, 3, False]"),
    # ---- formulas
    (("C02", "C14", "C19"), "nested groups under a multiplier",
     "result = [atoms(formula('(Co(NO3)2)3')), atoms(3 * formula('Ca(OH)2')), atoms(formula('(CaCO3(H2O)6)2')), atoms(formula('10 wt% Co // Ca(OH)2'))]; check = result[0] == atoms(formula('Co3N6O18')) and result[1] == atoms(formula('Ca3O6H6')) and result[2] == atoms(formula('Ca2C2O18H24'))"),
    (("C02", "C17"), "1*f then +=", "f = formula('HSO4'); g = 1 * f; g += formula('H2O'); result = [g is f, atoms(f), atoms(g)]; check = g is not f and atoms(f) == atoms(formula('HSO4'))"),
    (("C19", "C10"), "Hill form on a private table",
     "T = private(mass, density); a = formula('BH[2]3', table=T).hill; formula('D3B', table=T); b = formula('BH[2]3', table=T).hill; "
     "result = [str(a), str(b), all(core.change_table(x, T) is x for x in a.atoms), atoms(a) == atoms(formula('BH[2]3', table=T))]; check = str(a) == str(b) and result[2] and result[3]"),
    (("C19", "C13"), "Hill form of isotope ions", "result = [str(formula('Fe{2+}9Fe[57]{2+}O10').hill), str(formula('O10Fe[57]{2+}Fe{2+}9').hill), atoms(formula('Fe{2+}9Fe[57]{2+}O10').hill)]; check = result[0] == result[1] and result[2] == atoms(formula('Fe{2+}9Fe[57]{2+}O10'))"),
    (("C13", "C12", "C06"), "isotopes of elements without a density",
     "f = formula('Ra[226]@5.5'); g = formula(str(f) + '@5.5'); result = [str(f), atoms(g), formula('Ra[226]').density, formula('Cf[252]').density, formula('Rn[222]').density]; check = result[2:] == [None, None, None]"),
    (("C13", "C11"), "package-level mixture with name and density",
     "f = pt.mix_by_weight('SiO2', 70, 'Na2O', 14, density=2.52, name='soda-lime glass'); g = pt.mix_by_volume('H2O@1', 1, 'D2O@1.1', 1, natural_density=1.05, name='hd'); result = [str(f), f.density, str(g), repr(g)]; check = str(f) == 'soda-lime glass' and f.density == 2.52 and str(g) == 'hd'"),
    (("C10", "C16", "C13", "C04"), "package-level formula() twice with an edit in between",
     "f = pt.formula('C3H4H[1]3NO2'); f.density = 1.29; T = private(mass, density); f.change_table(T); g = pt.formula('C3H4H[1]3NO2'); "
     "result = [g is f, g.density, atoms(g), all(core.change_table(x, pt.elements) is x for x in g.atoms)]; check = g is not f and g.density is None and result[3]"),
    # ---- sequences
    (("C18", "C02", "C16"), "sequences ending in a run", "result = [atoms(formula('aa:AGG')), atoms(formula('aa:KQQQ')), atoms(formula('dna:TTTT')), fasta.Sequence('s', 'AGG').mass, formula('aa:AG').mass]; check = formula('aa:AGG').mass - formula('aa:AG').mass > 50 and abs((formula('aa:AGG').mass - formula('aa:AG').mass) - (formula('aa:AG').mass - formula('aa:A').mass)) < 1e-9 and abs((formula('dna:TTTT').mass - formula('dna:TTT').mass) - (formula('dna:TT').mass - formula('dna:T').mass)) < 1e-9"),
    (("C18", "C10", "C15"), "prefix on a private table, then public",
     "T = private(mass, density); a = formula('aa:AG', table=T); b = formula('aa:G', table=T); c = formula('aa:GAG'); s = fasta.Sequence('s', 'AG'); "
     "result = [atoms(a), all(core.change_table(x, T) is x for x in a.atoms), atoms(c), all(core.change_table(x, pt.elements) is x for x in c.atoms), s.mass, s.Dmass]; check = result[1] and result[3] and 'H[1]@private' in json.dumps(result[0]) and 'H[1]@public' in json.dumps(result[2])"),
    (("C18", "C15", "C14"), "the same sequence string twice with an edit in between",
     "a = formula('aa:CMCM'); a += formula('XeF6'); b = formula('aa:CMCM'); s = act.Sample('aa:CMCM', 1); "
     "s.calculate_activation(act.ActivationEnvironment(fluence=1e8), exposure=1, rest_times=(0, 1)); result = [atoms(b), len(s.activity) > 0, fasta.Sequence('s', 'CMCM').mass]; check = 'Xe' not in json.dumps(result[0]) and result[1]"),
    # ---- a reload of the masses re-reads identical numbers: nothing that was served before may change
    (("C07", "C18", "C06"), "mass.init(elements, reload=True) after neutron and fasta were used",
     "a = [pt.n[1].neutron.b_c, pt.n.neutron.b_c, fasta.Sequence('s', 'AG').mass, fasta.Sequence('s', 'AG').Dmass, pt.Fe[56].mass, pt.D.neutron.b_c]; h1 = pt.H[1]; "
     "mass.init(pt.elements, reload=True); "
     "b = [pt.n[1].neutron.b_c, pt.n.neutron.b_c, fasta.Sequence('s', 'AG').mass, fasta.Sequence('s', 'AG').Dmass, pt.Fe[56].mass, pt.D.neutron.b_c]; result = [a, b, pt.H[1] is h1]; check = a == b"),
    # ---- activation
    (("C14", "C15"), "activity of Co-59", "env = act.ActivationEnvironment(fluence=1e8, Cd_ratio=70, fast_ratio=50); "
     "result = sorted([str(k.daughter), k.reaction, S(v)] for k, v in act.activity(pt.Co[59], 1.0, env, 1, [0, 1]).items())"),
    (("C14", "C15"), "half-lives of Hf products: hours agree with the listed value",
     "rows = [a for iso in pt.Hf.isotopes for a in getattr(pt.Hf[iso], 'neutron_activation', ())]; "
     "U = {'s': 1/3600., 'm': 1/60., 'h': 1., 'd': 24., 'y': 8765.8128}; "
     "result = [[a.daughter, a.reaction, abs(a.Thalf_hrs / (float(a.Thalf_str.split()[0]) * U[a.Thalf_str.split()[1][0]]) - 1) < 0.01] for a in rows if a.Thalf_str.split()[1][0] in U]; check = all(r[2] for r in result)"),
    (("C14", "C10"), "Sample from a private-table formula with enriched Li",
     "T = private(mass, density, act); T.Li[6]._abundance = 95.0; T.Li[7]._abundance = 5.0; f = formula('LiF', table=T); s = act.Sample(f, 1.0); "
     "result = [all(core.change_table(x, T) is x for x in s.formula.atoms), atoms(s.formula)]; check = result[0]"),
    # ---- values that must not depend on calls that were REJECTED earlier (history E; the objects in FAULT_OBJ were arguments of rejected calls)
    (("C01", "C10", "C12", "C13"), "public parse after anything", "f = formula('Fe2O3'); g = formula('D2O@1n'); h = formula(str(formula('NaCl'))); result = [f.mass, atoms(f), g.density, g.mass, atoms(h), [str(a.table is pt.Fe.table) for a in f.atoms]]"),
    (("C01", "C10"), "public ions after anything", "f = formula('Na{+}Cl{-}'); result = [atoms(f), f.charge, f.mass]"),
    (("C02", "C19"), "counts of an already seen structure", "f = formula([(1, pt.C), (0.5, pt.H), (0.5, pt.H)]); g = formula('CH4'); result = [atoms(f), str(f.hill), atoms(g), g.mass, str(g.hill)]; check = atoms(f) == S({pt.C: 1, pt.H: 1.0})"),
    (("C03", "C04"), "neutron scattering of a formula object that was an argument before", "f = FAULT_OBJ.get('water') or formula('H2O@1'); result = [pt.neutron_scattering(f, wavelength=4.75), f.density]; check = f.density == 1"),
    (("C05",), "x-ray sld of a formula object that was an argument before", "f = FAULT_OBJ.get('silica') or formula('SiO2@2.2'); result = [pt.xray_sld(f, energy=8.0), f.density]; check = f.density == 2.2"),
    (("C11",), "mixture strings after anything", "f = formula('1g H2O@1 // 3g D2O@1.11'); g = formula('50wt% Co // Ti'); result = [atoms(f), f.density, f.total_mass, atoms(g), g.density]; check = abs(f.total_mass - 4) < 1e-12"),
    (("C16",), "D2O match of ethanol", "result = [nsf.D2O_match('C2H6O@0.789', wavelength=4.75), nsf.D2O_sld('C2H6O@0.789', 0.3, wavelength=4.75)]"),
    (("C17",), "composite of water and heavy water", "c = nsf.neutron_composite_sld([formula('H2O@1'), formula('D2O@1.11')], wavelength=[4.0, 5.0]); result = [c(np.array([1.0, 0.0])), c(np.array([0.0, 1.0])), c(np.array([0.0, 1.0]))]"),
    (("C18",), "a sequence after anything", "s = fasta.Sequence('ok', 'ACDE'); f = formula('aa:ACDE'); result = [atoms(s.formula), s.mass, atoms(f), atoms(formula('dna:ACGT'))]"),
    (("C20", "C05"), "form factors of tabulated ions after anything", "result = [pt.Fe.ion[3].xray.f0(0.0), cromermann.fxrayatq('O', 0.0, -2), cromermann.fxrayatq('Fe', 0.0, 2), pt.Fe.xray.f0(0.5)]"),
    (("C14", "C15"), "activation of CoFe after anything", "s = act.Sample('Co30Fe70', 1.0); s.calculate_activation(act.ActivationEnvironment(1e13), rest_times=(0, 1)); result = sorted((str(k.isotope), k.daughter, k.reaction, repr(v)) for k, v in s.activity.items())[:6]"),
    # ---- valid but unusual argument TYPES and object protocols (round 9): the value is the one for the ordinary type
    (("C01",), "whole counts beyond 2**53 stay exact", "f = formula('C9007199254740993H4'); result = [str(f.atoms[pt.C]), str(formula('(CH2)9007199254740993').atoms[pt.H])]; check = result == ['9007199254740993', '18014398509481986']"),
    (("C02", "C19"), "a structure given as a generator", "f = formula((c, a) for c, a in [(1, pt.Ca), (1, pt.C), (3, pt.O)]); g = formula([(1, pt.Ca), (2, iter([(1, pt.C), (3, pt.O)]))]); result = [atoms(f), atoms(g)]; check = atoms(f) == S({pt.Ca: 1, pt.C: 1, pt.O: 3}) and atoms(g) == S({pt.Ca: 1, pt.C: 2, pt.O: 6})"),
    (("C02", "C19", "C13"), "Fraction and Decimal counts", "from fractions import Fraction; from decimal import Decimal; f = formula([(Fraction(1, 3), pt.C), (1, pt.H)]); g = Fraction(3, 2) * formula('H2O'); "
     "result = [atoms(f.hill) == atoms(f), str(f.hill.atoms[pt.C]), str(g), atoms(formula(str(g))), str(np.float32(0.5) * formula('H2O'))]; check = result[0] and result[1] == '1/3' and result[2] == '(H2O)1.5' and result[4] == '(H2O)0.5'"),
    (("C06", "C07", "C08"), "copies of atoms and records", "a = copy.deepcopy(pt.Ni[58]); b = pickle.loads(pickle.dumps(pt.Ni[58])); n = copy.deepcopy(pt.Er.neutron); m = pickle.loads(pickle.dumps(pt.Er.neutron)); k = copy.copy(pt.Er.neutron); "
     "result = [a is pt.Ni[58], b is pt.Ni[58], a.mass, copy.deepcopy(formula('D2O')).mass, n.scattering_by_wavelength(0.5), m.scattering_by_wavelength(0.5), k.scattering_by_wavelength(0.5)]; "
     "check = result[0] and result[1] and result[4] == result[5] == result[6] == pt.Er.neutron.scattering_by_wavelength(0.5)"),
    (("C08",), "array-valued keys are not truncated", "out = []\nfor k in (np.array(2.5), np.array(-1.5)):\n    try:\n        out.append(str(pt.Fe.ion[k]))\n    except Exception as e:\n        out.append('rejected')\ntry:\n    out.append(str(pt.Fe[np.array(56.5)]))\nexcept Exception as e:\n    out.append('rejected')\nresult = out; check = out == ['rejected'] * 3"),
    (("C09", "C20", "C05"), "numpy and float charges", "result = [pt.Mn.ion[np.int64(2)].xray.f0(0.0), cromermann.fxrayatq('Fe', 0.0, np.int64(2)), pt.Co.ion[2.0].xray.f0(0.0), pt.Co.ion[2].xray.f0(0.0)]; "
     "check = abs(result[0] - 23) < 0.02 and abs(result[1] - 24) < 0.02 and abs(result[2] - 25) < 0.02 and result[2] == result[3]"),
    (("C11", "C12"), "0-d arrays as quantities are not written to", "q1 = np.array(1.0); q2 = np.array(3.0); f = pt.mix_by_weight('H2O@1', q1, 'D2O@1.11', q2); g = pt.mix_by_volume('H2O@1', q1, 'D2O@1.11', q2); d = np.array(1.0); h = formula('H2O', density=d); r = h.replace(pt.H, pt.D); "
     "result = [float(q1), float(q2), f.density, g.density, float(d), float(h.density), float(r.density)]; check = result[:2] == [1.0, 3.0] and result[4] == 1.0 and result[5] == 1.0 and abs(result[6] - formula('D2O').mass / formula('H2O').mass) < 1e-12"),
    (("C14", "C15"), "integer-typed flux and copied samples", "e1 = act.ActivationEnvironment(fluence=1e16); e2 = act.ActivationEnvironment(fluence=np.int64(10**16)); s1 = act.Sample('AuCo', 1.0); s1.calculate_activation(e1, rest_times=(0, 1)); s2 = act.Sample('AuCo', 1.0); s2.calculate_activation(e2, rest_times=(0, 1)); "
     "e3 = act.ActivationEnvironment(fluence=1e13, fast_ratio=50); s3 = act.Sample('NaCl', 1.0); s3.calculate_activation(e3, rest_times=(0, 1)); s4 = copy.deepcopy(s3); "
     "result = [max(abs(s1.activity[k][0] - s2.activity[k][0]) / max(abs(s1.activity[k][0]), 1e-300) for k in s1.activity) < 1e-9, len(s3.activity), len(s4.activity), s3.decay_time(1e-3), s4.decay_time(1e-3)]; check = result[0] and result[1] == result[2] and result[3] == result[4]"),
    (("C16",), "a compound given as a generator", "result = [nsf.D2O_sld(((c, a) for c, a in [(2, pt.H), (1, pt.O)]), 0.5, density=1.0, wavelength=4.75), nsf.D2O_sld([(2, pt.H), (1, pt.O)], 0.5, density=1.0, wavelength=4.75)]; check = result[0] == result[1]"),
    (("C17",), "huge weights", "c = nsf.neutron_composite_sld([formula('H2O@1'), formula('D2O@1.11')], wavelength=4.75); result = [c(np.array([1.0, 3.0])), c(np.array([1e290, 3e290]))]; check = all(abs(float(x) - float(y)) <= 1e-9 * abs(float(x)) for x, y in zip(c(np.array([1.0, 3.0])), c(np.array([1e290, 3e290]))))"),
    (("C18",), "copies of a dna sequence", "s = fasta.Sequence('d', 'ACGT', type='dna'); t = copy.deepcopy(s); u = pickle.loads(pickle.dumps(s)); result = [atoms(s.formula), atoms(t.formula), atoms(u.formula), s.mass, t.mass]; check = result[0] == result[1] == result[2]"),
    (("C10",), "a private table with an empty name", "core.PRIVATE_TABLES.pop('', None); T = core.PeriodicTable(''); mass.init(T); density.init(T); T.Fe._mass = 10.0; x = pickle.loads(pickle.dumps(T.Fe)); y = copy.deepcopy(T.Fe[56].ion[2]); f = copy.deepcopy(formula('Fe', table=T)); core.PRIVATE_TABLES.pop('', None); result = [x is T.Fe, y is T.Fe[56].ion[2], f.mass]; check = result == [True, True, 10.0]"),
]


def _child(tree, program):
    env = dict(os.environ, PYTHONPATH=tree + os.pathsep + os.path.dirname(os.path.dirname(os.path.abspath(__file__))))
    p = subprocess.run([sys.executable, "-W", "ignore", "-c", program], capture_output=True, text=True, env=env, timeout=600, cwd="/")
    line = [l for l in p.stdout.split("\n") if l.startswith("RESULT ")]
    if not line:
        return {"crash": (p.stderr or p.stdout)[-400:]}
    return json.loads(line[-1][7:])


def task_observations(tier, seed, arg):
    from .nat import Result
    tree = os.environ.get("VERIF_REPO", "/repo")
    tags = set((arg or {}).get("tags") or []) if isinstance(arg, dict) else set()
    obs = [o for o in OBSERVATIONS if not tags or tags & set(o[0])]
    R = Result("each of %d fixed observations gives the same value as the first use of the library in a fresh interpreter, in a warmed-up interpreter "
               "(twice, in list order), in a warmed-up interpreter in reverse order, in an interpreter that made a fixed list of rejected calls first and in one interpreter per rejected call" % len(obs), False)
    codes = [o[2] for o in obs]
    fresh_progs = [PRELUDE + "\nprint('RESULT ' + json.dumps(run(%r)))" % c for c in codes]
    warm = PRELUDE + WARMUP + "\ncodes = %r\nfirst = [run(c) for c in codes]\nsecond = [run(c) for c in codes]\nprint('RESULT ' + json.dumps([first, second]))" % (codes,)
    rev = PRELUDE + WARMUP + "\ncodes = %r\nout = [run(c) for c in reversed(codes)]\nprint('RESULT ' + json.dumps(list(reversed(out))))" % (codes,)
    flt = PRELUDE + FAULTS + "\ncodes = %r\nout = [run(c) for c in codes]\nprint('RESULT ' + json.dumps(out))" % (codes,)
    with ThreadPoolExecutor(max_workers=min(12, os.cpu_count() or 4)) as pool:
        futs = [pool.submit(_child, tree, p) for p in fresh_progs]
        fw, fr, fe = pool.submit(_child, tree, warm), pool.submit(_child, tree, rev), pool.submit(_child, tree, flt)
        # (warmed up first: these histories are about what a REJECTED call leaves behind; order of first use is what F, W and R decide,
        # and an unwarmed history would report the known first-use findings of C09/C10 a second time under the key of a later observation)
        # one interpreter per rejected call as well: in the combined history a later rejected call may consume or reset what
        # an earlier one left behind (a work list emptied by the next success, a switch reset by the next successful parse)
        singles = [pool.submit(_child, tree, PRELUDE + WARMUP + FAULT_SETUP + "\n_rejected(%r)\ncodes = %r\nout = [run(c) for c in codes]\nprint('RESULT ' + json.dumps(out))" % (fc, codes))
                   for fc in FAULT_CALLS]
        fresh = [f.result() for f in futs]
        w, r, e = fw.result(), fr.result(), fe.result()
        singles = [f.result() for f in singles]
    for fc, x in zip(FAULT_CALLS, singles):
        if isinstance(x, dict):
            raise RuntimeError("interpreter after the rejected call %s failed: %s" % (fc, x.get("crash")))
    if isinstance(w, dict) or isinstance(r, dict) or isinstance(e, dict):
        raise RuntimeError("warm interpreter failed: %s" % (([x for x in (w, r, e) if isinstance(x, dict)][0]).get("crash"),))
    w1, w2 = w
    for idx, ((tg, name, code), f, a, b, c, e1) in enumerate(zip(obs, fresh, w1, w2, r, e)):
        R.ok(5 + len(FAULT_CALLS), (name,))
        if "crash" in f:
            R.violation("independence:%s:fresh_crash" % name, "observation %r as the first use of the library: the interpreter died" % name, {"observation": name, "program": code}, f["crash"][-200:])
            continue
        vals = {"fresh interpreter": f, "warm, first pass": a, "warm, second pass": b, "warm, reverse order": c, "after rejected calls": e1}
        for fc, x in zip(FAULT_CALLS, singles):
            vals["after the rejected call %s" % fc] = x[idx]
        bad = [k for k, v in vals.items() if "raised" in v or v.get("check") is False]
        if bad:
            R.violation("independence:%s:wrong" % name, "observation %r %s (%s)" % (name, "raises" if any("raised" in vals[k] for k in bad) else "does not have the documented value", ", ".join(bad)),
                        {"observation": name, "program": code, "tags": list(tg)}, {k: json.dumps(vals[k])[:300] for k in bad})
            continue
        texts = {k: json.dumps(v, sort_keys=True) for k, v in vals.items()}
        if len(set(texts.values())) > 1:
            ref = texts["warm, first pass"]
            odd = [k for k, v in texts.items() if v != ref] or list(texts)
            R.violation("independence:%s" % name, "observation %r depends on what the process did before: %s differ(s) from the warmed-up first pass" % (name, ", ".join(odd)),
                        {"observation": name, "program": code, "tags": list(tg)}, {k: v[:300] for k, v in texts.items() if k in odd}, ref[:300])
    return R.done()


def task_replay(tier, seed, arg):
    """re-evaluate the one observation named in a recorded violation (all four histories)"""
    global OBSERVATIONS
    name = ((arg or {}).get("input") or {}).get("observation")
    keep = OBSERVATIONS
    try:
        OBSERVATIONS = [o for o in keep if o[1] == name] or keep
        return task_observations(tier, seed, None)
    finally:
        OBSERVATIONS = keep
