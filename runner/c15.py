"""C15 native checks: Sample.decay_time after an activation calculation.

Oracle side: the total activity after removal from the beam is A(t) = sum_i A_i(0) * 2^(-t/T_i) with
  * A_i(0) = the activity of product i at removal, taken from an activation calculation of the same sample with
    rest_times=(0,) and cross-checked against A_i(T_k) * 2^(+T_k/T_i) recomputed from the smallest requested rest
    time T_k of the list under test (so "at removal" never means "at the smallest requested rest time");
  * T_i = the half-life in hours read HERE from activation.dat (reader of runner.c14), not from the record.
decay_time's own closures f, df and find_root are never used to compute an expected value.

Tasks: sample, replay.
"""
import math
import multiprocessing
import random
import time

from runner import c14

MAX_PER_CAUSE = 5
MAX_VIOLATIONS = 60
TOL = 0.001
NPROC = 16

FIXED_FORMULAS = ["Co30Fe70", "Au", "Eu", "U", "NaCl", "Fe", "Co", "C", "B4C", "H2O"]
REST_LISTS = [(0, 1, 24, 360), (0,), (1, 24), (24,), (5, 0, 2), (1e3,), (0.5, 0.25)]
RATIOS = [1e-9, 1e-6, 1e-3, 0.1, 0.4, 0.5, 0.6, 0.9, 0.999, 1.0, 1.001, 2, 10]
CD_CHOICES = (0.0, 1.0, 70.0)
FAST_CHOICES = (0.0, 50.0)


# --------------------------------------------------------------------------- samples

def _loguniform(rng, lo, hi):
    return 10.0 ** rng.uniform(math.log10(lo), math.log10(hi))


def _random_formula(rng):
    import periodictable
    while True:
        k = rng.randint(1, 4)
        parts, used = [], set()
        for _ in range(k):
            Z = rng.randint(1, 83)
            sym = periodictable.elements[Z].symbol
            if sym in used:
                continue
            used.add(sym)
            cnt = rng.choice([1, 1, 2, 3, 4, 7, 12])
            parts.append(sym + (str(cnt) if cnt != 1 else ""))
        if parts:
            return "".join(parts)


def make_samples(seed, n):
    """First the ten fixed formulas under the documented example conditions, then seeded random samples
    (a third of them one of the fixed formulas, the rest random compounds)."""
    rng = random.Random("c15:%d" % seed)
    out = []
    for f in FIXED_FORMULAS:
        out.append({"formula": f, "mass": 10.0, "fluence": 1e5, "Cd_ratio": 70.0, "fast_ratio": 50.0,
                    "exposure": 10.0})
    while len(out) < n:
        f = rng.choice(FIXED_FORMULAS) if rng.random() < 1.0 / 3 else _random_formula(rng)
        out.append({"formula": f, "mass": _loguniform(rng, 1e-3, 1e2), "fluence": _loguniform(rng, 1e5, 1e14),
                    "Cd_ratio": rng.choice(CD_CHOICES), "fast_ratio": rng.choice(FAST_CHOICES),
                    "exposure": _loguniform(rng, 0.1, 1000.0)})
    return out[:n]


# --------------------------------------------------------------------------- oracle

def _half_lives(records):
    """id(record) -> T_half in hours from my own reader of activation.dat (None if the record has no row)."""
    rows = c14.read_dat()
    by_iso = {}
    for r in rows:
        by_iso.setdefault((r["Z"], r["A"]), []).append(r)
    groups = {}
    for rec in records:
        groups.setdefault((getattr(rec, "Z", None), getattr(rec, "A", None)), []).append(rec)
    out = {}
    for key, recs in groups.items():
        mine = by_iso.get(key, [])
        paired, _ = c14._match_records(mine, recs)
        for r, rec in zip(mine, paired):
            if rec is not None:
                out[id(rec)] = r["Thalf_hrs"]
    return out


def _pow2(x):
    try:
        return 2.0 ** x
    except OverflowError:
        return float("inf")


def total_activity(A0T, t):
    """sum_i A_i(0) * 2^(-t/T_i)"""
    try:
        return math.fsum(a * _pow2(-t / T) for a, T in A0T)
    except (OverflowError, ValueError):
        return float("nan")


def _rest_tag(rest):
    return ",".join("%g" % x for x in rest)


def _activate(act, smp, rest):
    env = act.ActivationEnvironment(fluence=smp["fluence"], Cd_ratio=smp["Cd_ratio"], fast_ratio=smp["fast_ratio"])
    s = act.Sample(smp["formula"], smp["mass"])
    s.calculate_activation(env, exposure=smp["exposure"], rest_times=rest)
    return s


def _outcome(sample, target):
    """('time', t) | ('RuntimeError', msg) | ('exception', 'Type: msg', Type)"""
    try:
        t = sample.decay_time(target)
    except RuntimeError as exc:
        if type(exc) is RuntimeError:
            return ("RuntimeError", str(exc))
        return ("exception", "%s: %s" % (type(exc).__name__, exc), type(exc).__name__)
    except Exception as exc:        # noqa: any other exception is a finding
        return ("exception", "%s: %s" % (type(exc).__name__, exc), type(exc).__name__)
    return ("time", t)


def check_sample(act, smp, rest_lists, ratios, out, targets=None):
    """All obligations of one sample.  `out` accumulates counters and violation candidates."""
    cnt = out["counters"]

    def bump(k, n=1):
        cnt[k] = cnt.get(k, 0) + n

    base_inp = dict(smp)
    # reference: activities at removal
    try:
        ref = _activate(act, smp, (0,))
    except Exception as exc:        # noqa: activation itself failing is C14's business
        bump("samples_whose_activation_raised (C14, skipped here)")
        out["notes"].add("activation of %s raised %s (C14 finding; sample skipped)"
                         % (smp["formula"], type(exc).__name__))
        return
    recs = list(ref.activity.keys())
    Th = _half_lives(recs)
    A0T = []
    for rec in recs:
        T = Th.get(id(rec))
        if T is None:
            T = rec.Thalf_hrs
            bump("products_without_own_row")
        elif T != rec.Thalf_hrs:
            bump("products_whose_record_half_life_differs_from_the_file")
        A0T.append((ref.activity[rec][0], T))
    A0 = math.fsum(a for a, _ in A0T)
    if any(a < 0 for a, _ in A0T):
        bump("samples_with_a_negative_product_activity (C14 finding)")
    if targets is None:
        if A0 > 0:
            targets = [(q, A0 * q) for q in ratios]
        else:
            targets = [(None, 1e-3)]
            bump("samples_without_activity")
    outcomes = {}          # (ratio index) -> list of (rest, outcome)
    for rest in rest_lists:
        bump("cases(sample, rest list)")
        try:
            s = _activate(act, smp, rest)
        except Exception as exc:    # noqa
            bump("activation_raised_for_rest_list")
            out["notes"].add("activation of %s with rest list %s raised %s" % (smp["formula"], rest, type(exc).__name__))
            continue
        # cross-check A(0) from the smallest requested rest time
        kmin = min(range(len(rest)), key=lambda k: rest[k])
        back = []
        for rec in recs:
            T = Th.get(id(rec), rec.Thalf_hrs)
            same = [k for k in s.activity if k is rec]
            if not same:
                back = None
                break
            back.append(s.activity[rec][kmin] * _pow2(rest[kmin] / T))
        if back is not None:
            usable = [(b, a) for b, (a, _) in zip(back, A0T) if math.isfinite(b) and abs(b) > 1e-290]
            if any(abs(b - a) > 1e-9 * abs(a) for b, a in usable):
                bump("A(0)_recomputed_from_requested_rest_time_differs_from_rest_times=(0,)")
        for j, (q, target) in enumerate(targets):
            out["evaluations"] += 1
            if A0 > 0:
                out["distinct"] += 1
            inp = dict(base_inp, rest_times=list(rest), target=target, target_over_A0=q,
                       reference_rest_times=list(rest_lists[0]))
            oc = _outcome(s, target)
            outcomes.setdefault(j, []).append((rest, oc, inp))
            tag = "%s:%s:%s" % (smp["formula"], _rest_tag(rest), "%g" % q if q is not None else "noactivity")
            if len(out["samples"]) < 5 and smp["formula"] == "Co30Fe70" and rest == rest_lists[0] and q in (1e-3, 0.5, 0.9, 1.0, 2):
                out["samples"].append({"input": inp, "A(0)": A0, "outcome": list(oc[:2]),
                                       "A(t)": total_activity(A0T, oc[1]) if oc[0] == "time" else None})
            if oc[0] == "RuntimeError":
                bump("RuntimeError")
                bump("RuntimeError with rest list (%s)" % _rest_tag(rest))
                continue
            if oc[0] == "exception":
                _add(out, "exception_%s" % oc[2], tag,
                     "decay_time raised %s; only RuntimeError may be raised" % oc[2], inp, oc[1],
                     "a time >= 0 or RuntimeError")
                continue
            t = oc[1]
            try:
                tf = float(t)
            except Exception:
                tf = float("nan")
            # at target == A(0) up to the rounding of the summed activity either outcome is right
            # (A(0) is re-summed by the code in a different order / from another rest time)
            boundary = abs(A0 - target) <= 1e-9 * max(A0, target)
            if boundary and (tf == 0 or (tf > 0 and abs(total_activity(A0T, tf) - target) <= TOL * target)):
                continue
            if A0 <= target:
                if not (tf == 0):
                    _add(out, "nonzero_at_or_below_target", tag,
                         "activity at removal %.17g is already at or below the target %.17g, decay_time must "
                         "return 0" % (A0, target), inp, t, 0)
                continue
            if tf == 0:
                _add(out, "returns_zero_above_target", tag,
                     "decay_time returns 0 although the activity at removal %.17g is above the target %.17g"
                     % (A0, target), inp, {"t": t, "A(0)": A0},
                     {"t > 0 with |A(t)-target| <=": TOL * target})
                continue
            At = total_activity(A0T, tf) if math.isfinite(tf) else float("nan")
            if not (tf > 0 and abs(At - target) <= TOL * target * (1 + 1e-9)):
                _add(out, "wrong_time", tag,
                     "returned time is not a time t > 0 at which the summed activity is within 0.1% of the target",
                     inp, {"t": t, "A(t)": At, "A(t)/target": (At / target) if target else None, "A(0)": A0},
                     {"target": target, "|A(t)-target| <=": TOL * target})
    # independence of the rest list: compare with the first rest list's outcome
    for j, lst in outcomes.items():
        ref_rest, ref_oc, _ = lst[0]
        if ref_rest != rest_lists[0]:
            continue
        q, target = targets[j]
        for rest, oc, inp in lst[1:]:
            out["evaluations"] += 1
            if A0 > 0:
                out["distinct"] += 1
            tag = "%s:%s:%s" % (smp["formula"], _rest_tag(rest), "%g" % q if q is not None else "noactivity")
            same = True
            detail = None
            if oc[0] != ref_oc[0]:
                same = False
            elif oc[0] == "time":
                try:
                    a1 = total_activity(A0T, float(ref_oc[1]))
                    a2 = total_activity(A0T, float(oc[1]))
                    same = (float(oc[1]) == float(ref_oc[1])) or abs(a1 - a2) <= 2 * TOL * target
                    detail = {"A(t_ref)": a1, "A(t)": a2}
                except Exception:
                    same = False
            if not same:
                _add(out, "depends_on_rest_times", tag,
                     "the outcome with rest times (%s) differs from the outcome with rest times (%s) for the same "
                     "sample and target (times are equivalent when their activities differ by at most 0.2%% of the "
                     "target, i.e. both can be within 0.1%%)" % (_rest_tag(rest), _rest_tag(ref_rest)),
                     inp, {"outcome": list(oc[:2]), "detail": detail},
                     {"outcome with reference rest list": list(ref_oc[:2])})


def _add(out, cause, tag, what, inp, observed, expected):
    c = out["causes"].setdefault(cause, {"count": 0, "examples": [], "by_rest": {}})
    c["count"] += 1
    rt = _rest_tag(inp["rest_times"])
    c["by_rest"][rt] = c["by_rest"].get(rt, 0) + 1
    if len(c["examples"]) < MAX_PER_CAUSE and all(e["key"] != "sample:%s:%s" % (cause, tag) for e in c["examples"]) \
            and sum(1 for e in c["examples"] if e["input"]["formula"] == inp["formula"]) < 2 \
            and sum(1 for e in c["examples"] if e["input"]["rest_times"] == list(inp["rest_times"])) < 2:
        c["examples"].append({"key": "sample:%s:%s" % (cause, tag), "what": what, "input": c14._jf(inp),
                              "observed": c14._jf(observed), "expected": c14._jf(expected)})


def _new_out():
    return {"evaluations": 0, "distinct": 0, "counters": {}, "causes": {}, "samples": [], "notes": set()}


def _worker(job):
    from periodictable import activation as act
    out = _new_out()
    for smp in job:
        check_sample(act, smp, REST_LISTS, RATIOS, out)
    out["notes"] = sorted(out["notes"])
    return out


def _merge(parts):
    tot = _new_out()
    for p in parts:
        tot["evaluations"] += p["evaluations"]
        tot["distinct"] += p["distinct"]
        for k, v in p["counters"].items():
            tot["counters"][k] = tot["counters"].get(k, 0) + v
        for s in p["samples"]:
            if len(tot["samples"]) < 5:
                tot["samples"].append(s)
        tot["notes"].update(p["notes"])
        for cause, c in p["causes"].items():
            t = tot["causes"].setdefault(cause, {"count": 0, "examples": [], "by_rest": {}})
            t["count"] += c["count"]
            for k, v in c["by_rest"].items():
                t["by_rest"][k] = t["by_rest"].get(k, 0) + v
            for e in c["examples"]:
                if len(t["examples"]) < MAX_PER_CAUSE and all(x["key"] != e["key"] for x in t["examples"]) \
                        and sum(1 for x in t["examples"] if x["input"]["formula"] == e["input"]["formula"]) < 2 \
                        and sum(1 for x in t["examples"]
                                if x["input"]["rest_times"] == e["input"]["rest_times"]) < 2:
                    t["examples"].append(e)
    return tot


SAMPLE_RULE = ("cases = (sample, rest list): seeded samples (the ten formulas Co30Fe70, Au, Eu, U, NaCl, Fe, Co, C, "
               "B4C, H2O at 10 g, fluence 1e5, Cd 70, fast 50, 10 h, then random ones: formula one of the ten or a "
               "random 1-4 element compound, mass 1e-3..1e2 g, fluence 1e5..1e14, exposure 0.1..1000 h log-uniform, "
               "Cd in {0,1,70}, fast in {0,50}) x rest lists [(0,1,24,360),(0,),(1,24),(24,),(5,0,2),(1e3,),"
               "(0.5,0.25)]; quick 44 samples = 308 cases, thorough 2860 samples = 20020 cases.  evaluations = one "
               "decay_time(target) call per (case, target) for targets = A(0)*{1e-9,1e-6,1e-3,0.1,0.4,0.5,0.6,0.9,"
               "0.999,1.0,1.001,2,10} + one comparison of each non-reference rest list's outcome with the outcome of "
               "the reference list (0,1,24,360).  A(0) = total activity at removal (rest_times=(0,) calculation, "
               "cross-checked by back-extrapolating the smallest requested rest time); oracle A(t) = sum_i A_i(0)*"
               "2^(-t/T_i) in floats (fsum), T_i read here from activation.dat.  Checks: result == 0 iff A(0) <= "
               "target; otherwise t > 0 and |A(t)-target| <= 0.001*target (*(1+1e-9) for the float oracle); "
               "RuntimeError allowed (counted), any other exception a violation; outcomes for different rest lists "
               "of the same sample/target are of the same kind and, for times, |A(t1)-A(t2)| <= 0.002*target.  "
               "distinct = evaluations on samples with A(0) > 0.  At most 5 examples per cause (at most 2 per formula and 2 per rest list), "
               "full counts in notes.")


def _result(tot, rule, notes):
    violations = []
    for cause in sorted(tot["causes"]):
        c = tot["causes"][cause]
        violations.extend(c["examples"])
        notes.append("cause %s: %d failing evaluations (%d shown); by rest list: %s"
                     % (cause, c["count"], len(c["examples"]),
                        ", ".join("(%s)=%d" % kv for kv in sorted(c["by_rest"].items()))))
    for k in sorted(tot["counters"]):
        notes.append("%s = %d" % (k, tot["counters"][k]))
    notes.extend(sorted(tot["notes"]))
    return {"evaluations": tot["evaluations"], "distinct": tot["distinct"], "rule": rule, "exhaustive": False,
            "samples": tot["samples"], "violations": violations[:MAX_VIOLATIONS], "notes": notes}


def task_sample(tier, seed, arg):
    t0 = time.time()
    n = 44 if tier == "quick" else 2860
    if isinstance(arg, dict) and "n_samples" in arg:
        n = int(arg["n_samples"])
    import periodictable
    from periodictable import activation as act  # noqa
    try:
        _ = periodictable.elements[1][2].neutron_activation
    except Exception:
        pass
    c14.read_dat()
    samples = make_samples(seed, n)
    chunk = 11 if tier == "quick" else 20
    jobs = [samples[i:i + chunk] for i in range(0, len(samples), chunk)]
    ctx = multiprocessing.get_context("fork")
    pool = ctx.Pool(min(NPROC, len(jobs)))
    try:
        parts = pool.map(_worker, jobs, chunksize=1)
    finally:
        pool.close()
        pool.join()
    tot = _merge(parts)
    notes = ["samples=%d, rest lists=%d, targets per case=%d, seed=%d, wall time %.1f s"
             % (len(samples), len(REST_LISTS), len(RATIOS), seed, time.time() - t0)]
    return _result(tot, SAMPLE_RULE, notes)


def task_replay(tier, seed, arg):
    if not isinstance(arg, dict) or "input" not in arg:
        raise ValueError("replay needs --arg '{\"input\": ..., \"key\": ...}'")
    from periodictable import activation as act
    inp = arg["input"]
    key = arg.get("key") or ""
    smp = dict((k, inp[k]) for k in ("formula", "mass", "fluence", "Cd_ratio", "fast_ratio", "exposure"))
    rest = tuple(inp["rest_times"])
    ref = tuple(inp.get("reference_rest_times") or REST_LISTS[0])
    lists = [ref] + ([rest] if rest != ref else [])
    out = _new_out()
    check_sample(act, smp, lists, RATIOS, out, targets=[(inp.get("target_over_A0"), float(inp["target"]))])
    res = _result(out, "replay of one (sample, rest list, target) together with the reference rest list: " + SAMPLE_RULE,
                  ["replayed input=%r key=%r" % (inp, key)])
    res["violations"] = [v for v in res["violations"] if v["input"]["rest_times"] == list(rest)] or res["violations"]
    res["violations"].sort(key=lambda v: (v["key"] != key,))
    return res
