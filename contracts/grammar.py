"""Sidecar contracts for formulas.formula_grammar (C01): token languages, production shapes, parse actions.

The documented grammar is read from doc/sphinx/guide/formula_grammar.rst every run (the EBNF block);
the code's regex literals and combinator expressions are read from the AST of formula_grammar."""
import ast
import os
import re
import z3

from pyvc import spec, shims, extract, regex as RX, theories as T
from pyvc.contract import Unit, Lemma
from pyvc.state import State
from pyvc.values import *   # noqa
from pyvc.values import VObj, VOpt, VSym, VTuple, VList, VDict, Cx, Unsupported, VFunc, PyRaise, VClass
from .common import ATOMS, SEQS, use_state, FORMULAS, CORE
from . import core as KC
from . import formulas as FC

GRAMMAR = FORMULAS + ".formula_grammar"
DOC = os.path.join(extract.REPO, "doc", "sphinx", "guide", "formula_grammar.rst")


# ------------------------------------------------------------------------------ reading code and doc

def code_regex_literals():
    """name -> pattern for `name = Regex("...")` assignments inside formula_grammar"""
    ext = extract.extract(GRAMMAR)
    out = {}
    for node in ast.walk(ext.node):
        if isinstance(node, ast.Assign) and len(node.targets) == 1 and isinstance(node.targets[0], ast.Name):
            for call in ast.walk(node.value):
                if isinstance(call, ast.Call) and isinstance(call.func, ast.Name) and call.func.id == "Regex" \
                        and call.args and isinstance(call.args[0], ast.Constant):
                    out.setdefault(node.targets[0].id, call.args[0].value)
                    break
    # regexes nested in Optional(...) of a later assignment to another name (isotope, ion)
    for node in ast.walk(ext.node):
        if isinstance(node, ast.Assign) and isinstance(node.targets[0], ast.Name) and node.targets[0].id in ("isotope", "ion", "density"):
            for call in ast.walk(node.value):
                if isinstance(call, ast.Call) and isinstance(call.func, ast.Name) and call.func.id == "Regex" \
                        and call.args and isinstance(call.args[0], ast.Constant):
                    out.setdefault(node.targets[0].id + ".regex", call.args[0].value)
    return out


def doc_ebnf():
    """nonterminal -> right-hand side text of the EBNF block of the guide"""
    with open(DOC, encoding="utf-8") as fh:
        text = fh.read()
    prods = {}
    for line in text.split("\n"):
        m = re.match(r"^\s{4}(\w+)\s*::\s*(.*)$", line)
        if m:
            prods[m.group(1)] = m.group(2).strip()
    return prods


def doc_terminal_regex(prods, name):
    """translate a terminal production of the doc (regex-like with quoted literals) to a python regex"""
    rhs = prods[name]

    def expand(txt):
        out = []
        for tok in re.findall(r"'[^']*'|\[[^\]]*\][*+?]?|\(|\)[*+?]?|\||[A-Za-z_]+[*+?]?|\S", txt):
            if tok.startswith("'"):
                out.append(re.escape(tok[1:-1]))
            elif tok[0] in "[()|":
                out.append(tok)
            elif re.match(r"^[A-Za-z_]+[*+?]?$", tok):
                m = re.match(r"^([A-Za-z_]+)([*+?]?)$", tok)
                out.append("(" + expand(prods[m.group(1)]) + ")" + m.group(2))
            else:
                out.append(re.escape(tok))
        return "".join(out)
    return expand(rhs)


# ------------------------------------------------------------------------------ token language obligations

def lemma_tokens():
    states = []
    code = code_regex_literals()
    prods = doc_ebnf()
    pairs = [
        ("isotope-number: code isotope regex == doc number", code.get("isotope.regex"), doc_terminal_regex(prods, "number")),
        ("ion-body: code ion regex == doc (number? [+-])", code.get("ion.regex"), "(" + doc_terminal_regex(prods, "number") + ")?[+-]"),
        ("whole-count: code whole regex == doc number", code.get("whole"), doc_terminal_regex(prods, "number")),
        ("fraction-count: code fract regex == doc fraction", code.get("fract"), doc_terminal_regex(prods, "fraction")),
    ]
    for name, c, d in pairs:
        st = State()
        if c is None:
            raise Unsupported("regex literal for %s not found in formula_grammar" % name)
        goal, s = RX.equivalent_goal(RX.parse(c), RX.parse(d))
        st.oblige("tokens." + name, goal, kind="lemma", info={"code": c, "doc": d})
        states.append(st)
    # the doc's ion production wraps the body in braces and isotope in brackets: read from the literals
    # density suffix: [ni]
    st = State()
    goal, s = RX.equivalent_goal(RX.parse(code.get("density.regex", "")), RX.parse("[ni]"))
    st.oblige("tokens.density-suffix: code == [ni] (natural / isotopic, from the guide's prose)", goal, kind="lemma")
    states.append(st)
    # symbol: code [A-Z][a-z]? is contained in doc [A-Z][a-z]* (they agree on every symbol of a table: eval)
    st = State()
    goal, s = RX.subset_goal(RX.parse(code.get("symbol", "")), RX.parse(doc_terminal_regex(prods, "symbol")))
    st.oblige("tokens.symbol: L(code symbol) is a subset of L(doc symbol)", goal, kind="lemma")
    states.append(st)
    # units: the alternatives of the unit regexes are exactly the documented unit lists
    mod = extract.module(FORMULAS)
    assigns = mod.assignments()

    def keys_of(name):
        node = assigns[name]
        return [k.value for k in node.keys]
    doc_units = {"mass": re.findall(r"'([^']+)'", prods["mass"]), "volume": re.findall(r"'([^']+)'", prods["volume"]),
                 "length": re.findall(r"'([^']+)'", prods["length"])}
    st = State()
    st.oblige("tokens.mass-units: MASS_UNITS keys == documented mass units",
              z3.BoolVal(sorted(keys_of("MASS_UNITS")) == sorted(doc_units["mass"])), kind="lemma")
    st.oblige("tokens.volume-units: VOLUME_UNITS keys == documented volume units",
              z3.BoolVal(sorted(keys_of("VOLUME_UNITS")) == sorted(doc_units["volume"])), kind="lemma")
    st.oblige("tokens.length-units: LENGTH_UNITS keys == documented length units",
              z3.BoolVal(sorted(keys_of("LENGTH_UNITS")) == sorted(doc_units["length"])), kind="lemma")
    # factors: SI prefixes
    want = {"ng": "1e-9", "ug": "1e-6", "mg": "1e-3", "g": "1", "kg": "1e3", "nL": "1e-9", "uL": "1e-6", "mL": "1e-3",
            "L": "1", "nm": "1e-9", "um": "1e-6", "mm": "1e-3", "cm": "1e-2"}
    from fractions import Fraction
    okf = True
    bad = []
    for dname in ("MASS_UNITS", "VOLUME_UNITS", "LENGTH_UNITS"):
        node = assigns[dname]
        for k, v in zip(node.keys, node.values):
            val = Fraction(repr(ast.literal_eval(v)))
            if val != Fraction(want[k.value]):
                okf = False
                bad.append(k.value)
    st.oblige("tokens.unit-factors are the SI prefixes (g, L, m based)", z3.BoolVal(okf), kind="lemma", info={"bad": bad})
    states.append(st)
    return states


L_TOKENS = Lemma("grammar.tokens", lemma_tokens, doc="token languages of the code equal the documented ones (z3 regex)")


# ------------------------------------------------------------------------------ production shapes (static)

def _flatten(node, op):
    if isinstance(node, ast.BinOp) and isinstance(node.op, op):
        return _flatten(node.left, op) + _flatten(node.right, op)
    return [node]


def code_shapes():
    """name -> sequence of component names for `name = a + b + c` (first binding) inside formula_grammar"""
    ext = extract.extract(GRAMMAR)
    shapes = {}
    for node in ext.node.body:
        tgt, val = None, None
        if isinstance(node, ast.Assign) and len(node.targets) == 1 and isinstance(node.targets[0], ast.Name):
            tgt, val = node.targets[0].id, node.value
        elif isinstance(node, ast.Expr) and isinstance(node.value, ast.BinOp) and isinstance(node.value.op, ast.LShift) \
                and isinstance(node.value.left, ast.Name):
            tgt, val = node.value.left.id, node.value.right
        if tgt is None or (tgt in shapes and shapes[tgt] != "Forward()"):
            continue
        shapes[tgt] = ast.unparse(val)
    return shapes


def lemma_shapes():
    """order and presence of the components of each production (a dropped or reordered component
    fails here); whitespace lookaheads and suppressions are part of the expected text"""
    sh = code_shapes()
    expected = {
        "element": "symbol + isotope + ion + count",
        "implicit_group": "count + OneOrMore(element)",
        "explicit_group": "opengrp + composite + closegrp + count",
        "group": "implicit_group | explicit_group",
        "composite": "group + ZeroOrMore(implicit_separator + group)",
        "implicit_separator": "separator | space",
        "separator": "space + Literal('+').suppress() + space",
        "compound": "composite + Optional(density, default=None)",
        "count": "Optional(~White() + (fract | whole), default=1)",
        "isotope": "Optional(~White() + openiso + Regex('[1-9][0-9]*') + closeiso, default='0')",
        "ion": "Optional(~White() + openion + Regex('([1-9][0-9]*)?[+-]') + closeion, default='0+')",
        "openiso": "Literal('[').suppress()", "closeiso": "Literal(']').suppress()",
        "openion": "Literal('{').suppress()", "closeion": "Literal('}').suppress()",
        "opengrp": "space + Literal('(').suppress() + space", "closegrp": "space + Literal(')').suppress() + space",
        "grammar": "(formula | empty) + StringEnd()",
        "empty": "Empty().setParseAction(lambda s, l, t: Formula())",
        "formula": "compound | ungrouped_mixture | grouped_mixture",
        "mixture": "compound | grouped_mixture",
    }
    st = State()
    for name, want in expected.items():
        have = sh.get(name)
        st.oblige("shape.%s" % name, z3.BoolVal(have is not None and ast.dump(ast.parse(have)) == ast.dump(ast.parse(want))),
                  kind="lemma", info={"have": have, "want": want}, assume_after=False)
    # the density production: '@' then a REQUIRED count, then the optional n/i suffix
    d = sh.get("density", "")
    tree = ast.parse(d).body[0].value if d else None
    parts = [ast.unparse(x) for x in _flatten(tree, ast.Add)] if tree is not None else []
    ok = len(parts) >= 3 and parts[0] == "Literal('@').suppress()" and "Regex('[ni]')" in parts[-1] \
        and "fract | whole" in " ".join(parts[1:-1]) and not any(p == "count" for p in parts[1:-1])
    st.oblige("shape.density: '@' count [ni]?  with the count required (doc: density :: '@' count)",
              z3.BoolVal(bool(ok)), kind="lemma", info={"have": d}, assume_after=False)
    return [st]


L_SHAPES = Lemma("grammar.shapes", lemma_shapes)


def lemma_no_shared_defaults():
    """tokens that pyparsing inserts by itself (`Optional(..., default=X)`) are the SAME object X in every parse:
    X must be an immutable constant, otherwise one caller's edit of its result is seen by the next parse
    (the blank-string defect repaired in /repo 0795108 was `default=Formula()`)"""
    ext = extract.extract(GRAMMAR)
    lemma_no_shared_defaults.reads = [GRAMMAR]
    st = State()
    n = 0
    for node in ast.walk(ext.node):
        if isinstance(node, ast.Call):
            for kw in node.keywords:
                if kw.arg == "default":
                    n += 1
                    v = kw.value
                    const = isinstance(v, ast.Constant) or (isinstance(v, ast.UnaryOp) and isinstance(v.operand, ast.Constant))
                    st.oblige("default #%d of formula_grammar is an immutable constant" % n, z3.BoolVal(const), kind="lemma",
                              info={"default": ast.unparse(v), "line": node.lineno}, assume_after=False)
    st.oblige("the grammar has defaulted optional parts (vacuity guard)", z3.BoolVal(n >= 4), kind="lemma", info={"found": n}, assume_after=False)
    return [st]


L_NO_SHARED_DEFAULTS = Lemma("grammar.no-shared-defaults", lemma_no_shared_defaults, advisory=True, replay={"module": "stateful", "task": "C01"})


# ------------------------------------------------------------------------------ parse actions

SYM_LOOKUP = z3.Function("table_symbol_lookup", z3.StringSort(), T.Atom)
SYM_DEFINED = z3.Function("table_defines_symbol", z3.StringSort(), z3.BoolSort())


def c_table_symbol(interp, st, args, kw):
    s = interp.resolve(st, args[1])
    s = z3.StringVal(s) if isinstance(s, str) else s
    if not st.branch(SYM_DEFINED(s)):
        raise PyRaise("ValueError", "unknown element")
    return ATOMS.sym(st, SYM_LOOKUP(s))


def _closure_with_table(interp):
    return [{"table": VObj("TableStub", {})}]


def _lam_unit(name, which, mk, post, pre_regex=None):
    return Unit("formula_grammar." + name, GRAMMAR + "::lambda@" + which, mk, post,
                contracts={"TableStub.symbol": c_table_symbol}, closure=_closure_with_table,
                replay={"module": "c01", "task": "replay"})


def _tok_inputs(pattern_name, default=None):
    def mk(st, interp):
        use_state(st)
        t0 = st.fresh("token", z3.StringSort())
        pat = code_regex_literals()[pattern_name]
        lang = RX.parse(pat)
        cond = z3.InRe(t0, lang)
        if default is not None:
            cond = z3.Or(cond, t0 == z3.StringVal(default))
        st.assume(cond)
        st.assume(z3.Length(t0) <= 12)
        return [z3.StringVal("whole string"), z3.IntVal(0), VList([t0])], {}, {"t": t0}
    return mk


def _sym_post(st, interp, C, res):
    t = C["t"]
    if res.outcome == "raise":
        st.oblige("post.symbol action raises ValueError exactly for a symbol the table does not define",
                  z3.And(z3.BoolVal(res.exc == "ValueError"), z3.Not(SYM_DEFINED(t))), kind="raises", info={"exc": res.exc})
        return
    r = res.value
    st.oblige("post.symbol action returns table.symbol(text)",
              z3.And(SYM_DEFINED(t), z3.BoolVal(isinstance(r, VSym)) if not isinstance(r, VSym) else r.expr == SYM_LOOKUP(t)))


U_ACT_SYMBOL = _lam_unit("symbol-action", "symbol", _tok_inputs("symbol"), _sym_post)


def _iso_post(st, interp, C, res):
    t = C["t"]
    if res.outcome == "raise":
        st.oblige("never-raises on the isotope token language", False, kind="raises", info={"exc": res.exc})
        return
    st.oblige("post.isotope action returns the mass number written in the tag (0 when absent)",
              to_z3num(res.value) == z3.StrToInt(t))


U_ACT_ISOTOPE = _lam_unit("isotope-action", "isotope", _tok_inputs("isotope.regex", default="0"), _iso_post)


def _ion_post(st, interp, C, res):
    t = C["t"]
    if res.outcome == "raise":
        st.oblige("never-raises on the ion token language", False, kind="raises", info={"exc": res.exc})
        return
    n = z3.Length(t)
    digits = z3.SubString(t, 0, n - 1)
    sign = z3.SubString(t, n - 1, 1)
    mag = z3.If(n == 1, z3.IntVal(1), z3.StrToInt(digits))
    st.oblige("post.ion action returns (+1|-1) * (number or 1)",
              to_z3num(res.value) == z3.If(sign == z3.StringVal("+"), mag, -mag))


U_ACT_ION = _lam_unit("ion-action", "ion", _tok_inputs("ion.regex", default="0+"), _ion_post)


def _count_post(which):
    def post(st, interp, C, res):
        t = C["t"]
        if res.outcome == "raise":
            st.oblige("never-raises on the count token language", False, kind="raises", info={"exc": res.exc})
            return
        if which == "fract":
            st.oblige("post.fraction action returns the decimal value of the text",
                      to_real(res.value) == shims.FLOAT_OF_STR(t))
        else:
            st.oblige("post.whole action returns the integer value of the text", to_z3num(res.value) == z3.StrToInt(t))
    return post


U_ACT_FRACT = _lam_unit("fraction-action", "fract", _tok_inputs("fract"), _count_post("fract"))
U_ACT_WHOLE = _lam_unit("whole-action", "whole", _tok_inputs("whole"), _count_post("whole"))


# ---- convert_element

def _ce_inputs(st, interp):
    use_state(st)
    st.ghost["atom_getitem"] = KC._atom_getitem
    st.ghost["atom_attr"] = KC._atom_attr
    sym = ATOMS.new(st, "symbol")
    st.assume(z3.Or(T.KIND(sym.expr) == 0, z3.And(T.KIND(sym.expr) == 1, T.OWNSYM(sym.expr))))   # element, or D/T
    iso = st.fresh("isotope", z3.IntSort())
    ion = st.fresh("ion", z3.IntSort())
    cnt = st.fresh("count", z3.RealSort())
    st.assume(z3.And(iso >= 0, cnt > 0))
    return [z3.StringVal("s"), z3.IntVal(0), VList([sym, iso, ion, cnt])], {}, {"sym": sym.expr, "iso": iso, "ion": ion, "cnt": cnt}


def _ce_post(st, interp, C, res):
    sym, iso, ion, cnt = C["sym"], C["iso"], C["ion"], C["cnt"]
    a1 = z3.If(iso == 0, sym, KC.ISOTOPE_OF(sym, iso))
    ok1 = z3.Or(iso == 0, KC.HAS_ISOTOPE(sym, iso))
    a2 = z3.If(ion == 0, a1, KC.ION_OF(a1, ion))
    ok2 = z3.Or(ion == 0, KC.HAS_ION(a1, ion))
    if res.outcome == "raise":
        st.oblige("post.rejects exactly an isotope or charge the table does not define",
                  z3.And(z3.BoolVal(res.exc in ("KeyError", "ValueError", "TypeError")), z3.Not(z3.And(ok1, ok2))), kind="raises", info={"exc": res.exc})
        return
    r = res.value
    ok = isinstance(r, VTuple) and len(r.items) == 2 and isinstance(r.items[1], VSym)
    st.oblige("post.returns (count, atom)", z3.BoolVal(ok))
    if ok:
        st.oblige("post.accepted only when isotope and charge are defined", z3.And(ok1, ok2))
        st.oblige("post.count is the element's count", to_real(r.items[0]) == cnt)
        st.oblige("post.atom is symbol[isotope] (if tagged) then .ion[charge] (if tagged)", r.items[1].expr == a2)


U_CONVERT_ELEMENT = Unit("formula_grammar.convert_element", GRAMMAR + "::convert_element", _ce_inputs, _ce_post,
                         contracts={"IonSetOf.__getitem__": KC.c_ionset_getitem}, closure=_closure_with_table,
                         replay={"module": "c01", "task": "replay"})


# ---- convert_implicit / convert_explicit: counts multiply the whole group

def _pairs(st, n, tag):
    out = []
    for i in range(n):
        a = ATOMS.new(st, "%s_atom%d" % (tag, i))
        c = st.fresh("%s_count%d" % (tag, i), z3.RealSort())
        st.assume(c > 0)
        out.append(VTuple([c, a]))
    return out


def spliced(value):
    """what a parse action's return value contributes to the enclosing token list (A4): a list is
    spliced, anything else is one token"""
    if isinstance(value, VList):
        return list(value.items)
    return [value]


def den_tokens(interp, st, toks, x):
    total = z3.RealVal(0)
    for t in toks:
        if not (isinstance(t, (VTuple, VList)) and len(t.items) == 2):
            raise Unsupported("token is not a (count, fragment) pair")
        total = total + to_real(t.items[0]) * T.den_frag(interp, st, t.items[1], x)
    return total


def _group_inputs(kind, nfrag):
    def mk(st, interp):
        use_state(st)
        cnt = st.fresh("group_count", z3.RealSort())
        st.assume(cnt > 0)
        frags = _pairs(st, nfrag, "f")
        # one of the fragments may itself be a nested group (pair whose fragment is a list of pairs)
        nested = VTuple([st.fresh("inner_count", z3.RealSort()), VList(_pairs(st, 2, "g"))])
        frags = frags + [nested]
        toks = VList([cnt] + frags) if kind == "implicit" else VList(frags + [cnt])
        return [z3.StringVal("s"), z3.IntVal(0), toks], {}, {"cnt": cnt, "frags": frags}
    return mk


def _group_post(st, interp, C, res):
    if res.outcome == "raise":
        st.oblige("never-raises", False, kind="raises", info={"exc": res.exc})
        return
    x = st.fresh("x_sk", T.Atom)
    have = den_tokens(interp, st, spliced(res.value), x)
    want = C["cnt"] * den_tokens(interp, st, C["frags"], x)
    st.oblige("post.a count multiplies everything in its group", have == want)


U_CONVERT_IMPLICIT = [Unit("formula_grammar.convert_implicit[%d fragments]" % n, GRAMMAR + "::convert_implicit",
                           _group_inputs("implicit", n), _group_post, closure=_closure_with_table,
                           replay={"module": "c01", "task": "replay"}) for n in (1, 2)]
U_CONVERT_EXPLICIT = [Unit("formula_grammar.convert_explicit[%d fragments]" % n, GRAMMAR + "::convert_explicit",
                           _group_inputs("explicit", n), _group_post, closure=_closure_with_table,
                           replay={"module": "c01", "task": "replay"}) for n in (1, 2)]


# ---- convert_compound: atoms add across groups; density tag

def c_formula_ctor(interp, st, args, kw):
    return VObj("FormulaCtor", dict(kw))


def c_immutable(interp, st, args, kw):
    """_immutable(seq): same composition, all sequences tuples (unit _immutable)"""
    return VObj("Immutable", {"of": args[0]})


def _cc_inputs(tag):
    def mk(st, interp):
        use_state(st)
        groups = _pairs(st, 2, "p") + [VTuple([st.fresh("gc", z3.RealSort()), VList(_pairs(st, 2, "q"))])]
        toks = list(groups)
        C = {"groups": groups, "tag": tag}
        if tag is None:
            toks.append(None)
        else:
            d = st.fresh("density_value", z3.RealSort())
            st.assume(d >= 0)      # the grammar's count admits '0.', '.0', '0.0': a zero tag is a density of zero, not "no tag"
            toks += [d, tag]
            C["d"] = d
        return [z3.StringVal("s"), z3.IntVal(0), VList(toks)], {}, C
    return mk


def _cc_post(st, interp, C, res):
    if res.outcome == "raise":
        st.oblige("never-raises", False, kind="raises", info={"exc": res.exc})
        return
    r = res.value
    ok = isinstance(r, VObj) and r.cls == "FormulaCtor" and isinstance(r.attrs.get("structure"), VObj)
    st.oblige("post.returns Formula(structure=_immutable(...), ...)", z3.BoolVal(ok))
    if not ok:
        return
    src = r.attrs["structure"].attrs["of"]
    x = st.fresh("x_sk", T.Atom)
    st.oblige("post.structure holds exactly the group tokens (repeated atoms add)",
              den_tokens(interp, st, list(src.items), x) == den_tokens(interp, st, C["groups"], x))
    tag = C["tag"]
    if tag is None:
        st.oblige("post.no tag: no density keyword", z3.BoolVal("density" not in r.attrs and "natural_density" not in r.attrs))
    elif tag == "n":
        st.oblige("post.'n' tag sets the natural density",
                  z3.BoolVal("natural_density" in r.attrs and "density" not in r.attrs) if "natural_density" not in r.attrs
                  else z3.And(z3.BoolVal("density" not in r.attrs), to_real(r.attrs["natural_density"]) == C["d"]))
    else:
        st.oblige("post.'i' (or default) tag sets the isotopic density",
                  z3.BoolVal("density" in r.attrs and "natural_density" not in r.attrs) if "density" not in r.attrs
                  else z3.And(z3.BoolVal("natural_density" not in r.attrs), to_real(r.attrs["density"]) == C["d"]))


def _cc_closure(interp):
    return [{"table": VObj("TableStub", {}), "Formula": VClass("Formula", FORMULAS)}]


U_CONVERT_COMPOUND = [Unit("formula_grammar.convert_compound[tag=%s]" % t, GRAMMAR + "::convert_compound", _cc_inputs(t), _cc_post,
                           contracts={FORMULAS + ".Formula": c_formula_ctor, FORMULAS + "._immutable": c_immutable},
                           closure=_cc_closure, replay={"module": "c01", "task": "replay"}) for t in (None, "n", "i")]


# ---- _immutable on token-list shapes (nesting depth <= 2; the general recursion is _count_atoms' twin)

def _imm_inputs(st, interp):
    use_state(st)
    inner = VList([VList([st.fresh("c_in%d" % i, z3.RealSort()), ATOMS.new(st, "a_in%d" % i)]) for i in range(2)])
    seq = VList([VTuple([st.fresh("c0", z3.RealSort()), ATOMS.new(st, "a0")]),
                 VList([st.fresh("c1", z3.RealSort()), inner])])
    return [seq], {}, {"seq": seq}


def _all_tuples(v):
    if isinstance(v, VSym):
        return True
    if isinstance(v, VList):
        return False
    if isinstance(v, VTuple):
        return all(_all_tuples(x) for x in v.items if isinstance(x, (VTuple, VList, VSym)))
    return True


def _imm_post(st, interp, C, res):
    if res.outcome == "raise":
        st.oblige("never-raises on well-formed structures", False, kind="raises", info={"exc": res.exc})
        return
    x = st.fresh("x_sk", T.Atom)
    st.oblige("post.same composition", den_tokens(interp, st, list(res.value.items), x) == den_tokens(interp, st, list(C["seq"].items), x))
    st.oblige("post.every sequence became a tuple", z3.BoolVal(_all_tuples(res.value)))


U_IMMUTABLE = Unit("_immutable[token shapes, depth 2]", FORMULAS + "._immutable", _imm_inputs, _imm_post,
                   inline={FORMULAS + "._immutable", CORE + ".isatom"}, replay={"module": "c01", "task": "replay"})


# ==============================================================================  C13: _str_atoms on one atom fragment

COUNT_TEXT = z3.Function("count_text", z3.RealSort(), z3.StringSort())


def c_str_count(interp, st, args, kw):
    """_str_count(count): the count in plain decimal notation with six significant digits, a string of the
    documented `count` language that reads back as the count rounded to six digits (decided natively by
    the bounded round trip: '%g' formatting is outside the symbolic subset)"""
    return COUNT_TEXT(to_real(interp.resolve(st, args[0])))


def _sa_inputs(with_count):
    def mk(st, interp):
        use_state(st)
        a = ATOMS.new(st, "atom")
        e = a.expr
        st.assume(z3.Length(T.SYMBOL(e)) <= 2)
        st.assume(z3.And(T.CHARGE(e) >= -9, T.CHARGE(e) <= 9, T.ISO(e) >= 0, T.ISO(e) <= 400))
        # an isotope ion's base is an isotope: take its D/T flag and symbol from there
        cnt = st.fresh("count", z3.RealSort()) if with_count else 1
        if with_count:
            st.assume(z3.And(cnt > 0, cnt != 1))
        return [VTuple([VTuple([cnt, a])])], {}, {"a": e, "cnt": cnt}
    return mk


def _sa_post(st, interp, C, res):
    if res.outcome == "raise":
        st.oblige("never-raises", False, kind="raises", info={"exc": res.exc})
        return
    a, cnt = C["a"], C["cnt"]
    iso_atom = z3.If(T.KIND(a) == 2, T.BASE(a), a)                  # the isotope (or element) under an ion
    is_iso = T.KIND(iso_atom) == 1
    tagged = z3.And(is_iso, z3.Not(T.OWNSYM(iso_atom)))             # D and T print by their own symbol
    sym = T.SYMBOL(a)
    iso_txt = z3.If(tagged, z3.Concat(z3.StringVal("["), z3.IntToStr(T.ISO(a)), z3.StringVal("]")), z3.StringVal(""))
    q = T.CHARGE(a)
    mag = z3.If(q >= 0, q, -q)
    ion_txt = z3.If(q == 0, z3.StringVal(""),
                    z3.Concat(z3.StringVal("{"), z3.If(mag > 1, z3.IntToStr(mag), z3.StringVal("")),
                              z3.If(q > 0, z3.StringVal("+"), z3.StringVal("-")), z3.StringVal("}")))
    cnt_txt = z3.StringVal("") if is_concrete_num(cnt) else COUNT_TEXT(cnt)
    want = z3.Concat(sym, iso_txt, ion_txt, cnt_txt)
    got = res.value
    got = z3.StringVal(got) if isinstance(got, str) else got
    st.oblige("post.text is symbol [isotope tag unless D/T] [ion tag {n?(+|-)}] [count unless 1], each tag re-readable",
              z3.BoolVal(False) if not is_z3(got) else got == want)


U_STR_ATOMS = [Unit("_str_atoms[one atom, count %s]" % ("!= 1" if wc else "== 1"), FORMULAS + "._str_atoms", _sa_inputs(wc), _sa_post,
                    contracts={FORMULAS + "._str_count": c_str_count},
                    inline={CORE + ".isatom", CORE + ".isisotope", CORE + ".ision"},
                    replay={"module": "c13", "task": "replay"}) for wc in (False, True)]


# ==============================================================================  parse_formula: one grammar per table

def c_formula_grammar(interp, st, args, kw):
    return VObj("Grammar", {"table": args[0]})


def c_parse_string(interp, st, args, kw):
    g = args[0]
    return VList([VObj("Parsed", {"grammar": g, "text": args[1]})])


def _pf_inputs(which):
    def mk(st, interp):
        use_state(st)
        pub = VObj("Table", {"name": "public"})
        priv = VObj("Table", {"name": "private"})
        other = VObj("Table", {"name": "other"})
        interp.env_overrides[(CORE, "PUBLIC_TABLE")] = pub
        # the cache already holds the grammar of another table
        pre = VObj("Grammar", {"table": other})
        st.ghost.setdefault("module_state", {})[(FORMULAS, "_PARSER_CACHE")] = VDict([[other, pre]])
        s = st.fresh("text", z3.StringSort())
        table = {"public": None, "private": priv, "cached": other}[which]
        return [s], {"table": table}, {"want": {"public": pub, "private": priv, "cached": other}[which], "s": s, "pre": pre, "which": which}
    return mk


def _pf_post(st, interp, C, res):
    if res.outcome == "raise":
        st.oblige("never-raises", False, kind="raises", info={"exc": res.exc})
        return
    r = res.value
    ok = isinstance(r, VObj) and r.cls == "Parsed"
    st.oblige("post.returns the first result of parseString", z3.BoolVal(ok))
    if not ok:
        return
    st.oblige("post.the string is parsed with the grammar built for the requested table (default: the public table)",
              z3.BoolVal(r.attrs["grammar"].attrs["table"] is C["want"]))
    st.oblige("post.the whole string is parsed", z3.BoolVal(r.attrs["text"] is C["s"]))
    if C["which"] == "cached":
        st.oblige("post.a cached grammar is reused", z3.BoolVal(r.attrs["grammar"] is C["pre"]))
    cache = st.ghost["module_state"][(FORMULAS, "_PARSER_CACHE")]
    st.oblige("inv.the cache maps each table to a grammar built for that table",
              z3.BoolVal(all(g.attrs["table"] is t for t, g in cache.entries)))


U_PARSE_FORMULA = [Unit("parse_formula[%s table]" % w, FORMULAS + ".parse_formula", _pf_inputs(w), _pf_post,
                        contracts={FORMULAS + ".formula_grammar": c_formula_grammar, "Grammar.parseString": c_parse_string},
                        inline={CORE + ".default_table"}, replay={"module": "c01", "task": "replay"})
                   for w in ("public", "private", "cached")]
