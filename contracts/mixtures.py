"""Sidecar contracts for the mixture layer of formulas.py (C11).

The pair mixers are verified modularly on top of the operator contracts proved in C02:
n*f scales composition and mass (Formula.__rmul__ unit + SumOver.homogeneous), f+=g adds them
(Formula.__iadd__ unit + denote.concat + SumOver.additive/support-extension)."""
import z3

from pyvc import spec, shims, extract, theories as T
from pyvc.contract import Unit, Lemma
from pyvc.state import State
from pyvc.values import *   # noqa
from pyvc.values import VObj, VOpt, VSym, VTuple, VList, VDict, Cx, Unsupported, VFunc, PyRaise, VClass
from .common import ATOMS, SEQS, use_state, FORMULAS, CORE, denotation_map
from . import formulas as FC

F = FORMULAS + ".Formula."
MASSOF = z3.Function("mass_of_structure", T.Seq, z3.RealSort())
EMPTY = z3.Const("empty_structure", T.Seq)
SCALED = z3.Function("scaled_structure", z3.RealSort(), T.Seq, T.Seq)


def R(x):
    return to_real(x)


def seq_of(v):
    s = v.attrs["structure"]
    if isinstance(s, VSym):
        return s.expr
    if isinstance(s, VTuple) and not s.items:
        return EMPTY
    raise Unsupported("structure form")


def den_facts(st):
    return st.ghost.setdefault("den_facts", [])


def c_formula_empty(interp, st, args, kw):
    """Formula(): the empty formula (unit Formula.__init__[default] + _count_atoms on the empty structure)"""
    if args or kw:
        raise Unsupported("Formula(...) with arguments in the mixers")
    s = VSym(EMPTY, SEQS)
    s.kind = "tuple"
    st.assume(MASSOF(EMPTY) == 0)
    den_facts(st).append(lambda x: z3.And(T.DEN(EMPTY, x) == 0, z3.Not(T.SUP(EMPTY, x))))
    return VObj(FC.FCLS, {"structure": s, "name": None, "density": None})


def c_mass(interp, st, args, kw):
    return MASSOF(seq_of(args[0]))


def c_rmul(interp, st, args, kw):
    """n*f: new formula, atoms and mass scaled by n, density and name copied (unit Formula.__rmul__;
    mass by SumOver.homogeneous)"""
    self, n = args[0], R(interp.resolve(st, args[1]))
    S = seq_of(self)
    Rr = SCALED(n, S)
    st.ghost.setdefault("multipliers", []).append((self, n))
    st.assume(MASSOF(Rr) == n * MASSOF(S))
    den_facts(st).append(lambda x: T.DEN(Rr, x) == n * T.DEN(S, x))
    s = VSym(Rr, SEQS)
    s.kind = "tuple"
    return VObj(FC.FCLS, {"structure": s, "name": self.attrs.get("name"), "density": self.attrs.get("density")})


def c_iadd(interp, st, args, kw):
    """f += g: f's structure becomes the concatenation; atoms and mass add (unit Formula.__iadd__,
    lemma denote.concat, SumOver.additive/support-extension); g unchanged; returns f"""
    self, other = args[0], args[1]
    A, B = seq_of(self), seq_of(other)
    Cc = T.CONCAT(A, B)
    st.assume(MASSOF(Cc) == MASSOF(A) + MASSOF(B))
    den_facts(st).append(lambda x: T.DEN(Cc, x) == T.DEN(A, x) + T.DEN(B, x))
    s = VSym(Cc, SEQS)
    s.kind = "tuple"
    self.attrs["structure"] = s
    return self


MIX_CALLEE = {FORMULAS + ".Formula": c_formula_empty, F + "mass": c_mass, F + "__rmul__": c_rmul, F + "__iadd__": c_iadd}


def _pairs_inputs(n, volume):
    def mk(st, interp):
        use_state(st)
        fs, qs = [], []
        for i in range(n):
            f = FC.new_formula(st, "f%d" % i)
            S = f.attrs["structure"].expr
            st.assume(MASSOF(S) > 0)
            d = f.attrs["density"]
            st.assume(z3.Implies(z3.Not(d.is_none), d.val > 0))
            q = st.fresh("q%d" % i, z3.RealSort())
            st.assume(q >= 0)
            fs.append(f)
            qs.append(q)
        pairs = VList([VTuple([f, q]) for f, q in zip(fs, qs)])
        return [pairs], {}, {"fs": fs, "qs": qs, "snap": [dict(f.attrs) for f in fs]}
    return mk


def _pairs_post(volume):
    def post(st, interp, C, res):
        fs, qs = C["fs"], C["qs"]
        if res.outcome == "raise":
            if volume:
                missing = z3.Or([z3.And(q > 0, z3.Or(f.attrs["density"].is_none, f.attrs["density"].val == 0))
                                 for f, q in zip(fs, qs)])
                st.oblige("post.raises ValueError exactly when a used component has no density",
                          z3.And(z3.BoolVal(res.exc == "ValueError"), missing), kind="raises", info={"exc": res.exc})
            else:
                st.oblige("never-raises", False, kind="raises", info={"exc": res.exc})
            return
        r = res.value
        ok = isinstance(r, VObj) and r.cls == FC.FCLS and all(r is not f for f in fs)
        st.oblige("post.returns a new formula (never one of the components)", z3.BoolVal(ok))
        if not ok:
            return
        Rs = seq_of(r)
        x = st.fresh("x_sk", T.Atom)
        for fact in den_facts(st):
            st.assume(fact(x))
        Ms = [MASSOF(seq_of_snapshot(s)) for s in C["snap"]]
        rhos = [f.attrs["density"] for f in fs]
        if volume:
            ns = [q * rho.val / M for q, rho, M in zip(qs, rhos, Ms)]
        else:
            ns = [q / M for q, M in zip(qs, Ms)]
        used = [q > 0 for q in qs]
        any_used = z3.Or(used)
        # the multipliers k_i actually applied by the code (recorded at each n*f) - the property fixes
        # them only up to ONE common positive factor: k_i : k_j == n_i : n_j
        ks = [None] * len(fs)
        extra = False
        for obj, k in st.ghost.get("multipliers", []):
            hit = [i for i, f in enumerate(fs) if f is obj]
            if hit and ks[hit[0]] is None:
                ks[hit[0]] = k
            else:
                extra = True
        st.oblige("post.each used component is multiplied exactly once, unused ones never",
                  z3.And([z3.BoolVal(not extra)] + [u == z3.BoolVal(k is not None) for u, k in zip(used, ks)]))
        comp = z3.Sum([k * T.DEN(seq_of_snapshot(s_), x) for k, s_ in zip(ks, C["snap"]) if k is not None] + [z3.RealVal(0)])
        st.oblige("post.atoms == sum over the used components of k_i * atoms(f_i); zero-quantity components vanish",
                  T.DEN(Rs, x) == comp)
        for i in range(len(fs)):
            if ks[i] is None:
                continue
            st.oblige("post.multiplier %d is positive" % i, ks[i] > 0)
            for j in range(i + 1, len(fs)):
                if ks[j] is not None:
                    st.oblige("post.multipliers %d:%d are in the ratio n_i : n_j (n = q/m resp. q*rho/m)" % (i, j),
                              ks[i] * ns[j] == ks[j] * ns[i])
        # (n_i M_i : n_j M_j == q_i : q_j  resp. n_i M_i/rho_i : n_j M_j/rho_j == q_i : q_j by definition of n_i)
        for i in range(len(fs)):
            for j in range(i + 1, len(fs)):
                wi, wj = ns[i] * Ms[i], ns[j] * Ms[j]
                if volume:
                    wi, wj = wi / rhos[i].val, wj / rhos[j].val
                st.oblige("lemma.component amounts %d:%d are in the ratio of the requested quantities" % (i, j),
                          z3.Implies(z3.And(used[i], used[j]), wi * qs[j] == wj * qs[i]))
        # density
        rho_r = r.attrs.get("density")
        all_known = z3.And([z3.Implies(u, z3.Not(rho.is_none)) for u, rho in zip(used, rhos)])
        tot_mass = z3.Sum([z3.If(u, q if not volume else q * rho.val, z3.RealVal(0)) for u, q, rho in zip(used, qs, rhos)])
        tot_vol = z3.Sum([z3.If(u, q / rho.val if not volume else q, z3.RealVal(0)) for u, q, rho in zip(used, qs, rhos)])
        rr = interp.resolve(st, rho_r) if isinstance(rho_r, VOpt) else rho_r
        if rr is None:
            st.oblige("post.density unknown only when a component density is unknown (or nothing was mixed)",
                      z3.Or(z3.Not(all_known), z3.Not(any_used)))
        else:
            st.oblige("post.density known only when all component densities are known", z3.And(all_known, any_used))
            st.oblige("post.density == total mass / total volume", R(rr) * tot_vol == tot_mass)
        for f, s in zip(fs, C["snap"]):
            same = all(f.attrs[k] is s[k] for k in s) and set(f.attrs) == set(s)
            st.oblige("frame.components unchanged", z3.BoolVal(bool(same)), kind="frame")
    return post


def seq_of_snapshot(snap):
    return snap["structure"].expr


def _mix_unit(n, volume):
    name = "_mix_by_%s_pairs" % ("volume" if volume else "weight")
    return Unit("%s[%d components]" % (name, n), FORMULAS + "." + name, _pairs_inputs(n, volume), _pairs_post(volume),
                contracts=MIX_CALLEE, options={"div_zero": "branch"}, max_paths=2000,
                replay={"module": "c11", "task": "replay"})


U_MIX_WEIGHT = [_mix_unit(n, False) for n in (1, 2, 3)]
U_MIX_VOLUME = [_mix_unit(n, True) for n in (1, 2)]


# ------------------------------------------------------------------------------ percent / layer / absolute-mass parse actions

GRAMMAR = FORMULAS + ".formula_grammar"


def c_mix_pairs_record(which):
    def c(interp, st, args, kw):
        pairs = interp.resolve(st, args[0])
        items = interp.iterate_concrete(st, pairs)
        return VObj("MixResult", {"which": which, "pairs": [interp.iterate_concrete(st, p) for p in items]})
    return c


def _closure(interp):
    return [{"table": VObj("TableStub", {}), "Formula": VClass("Formula", FORMULAS)}]


def _percent_inputs(n):
    def mk(st, interp):
        use_state(st)
        toks = []
        ps, fs = [], []
        for i in range(n):
            p = st.fresh("percent%d" % i, z3.RealSort())
            st.assume(p >= 0)
            f = VObj("Part", {"id": i})
            toks += [p, f]
            ps.append(p)
            fs.append(f)
        base = VObj("Part", {"id": n})
        toks.append(base)
        fs.append(base)
        return [z3.StringVal("s"), z3.IntVal(0), VList(toks)], {}, {"ps": ps, "fs": fs}
    return mk


def _percent_post(which):
    def post(st, interp, C, res):
        ps, fs = C["ps"], C["fs"]
        total = z3.Sum(ps)
        if res.outcome == "raise":
            st.oblige("post.raises ValueError exactly when the percentages exceed 100",
                      z3.And(z3.BoolVal(res.exc == "ValueError"), total > 100), kind="raises", info={"exc": res.exc})
            return
        r = res.value
        ok = isinstance(r, VObj) and r.cls == "MixResult" and r.attrs["which"] == which and len(r.attrs["pairs"]) == len(fs)
        st.oblige("post.calls the %s mixer with one pair per component" % which, z3.BoolVal(bool(ok)))
        if not ok:
            return
        st.oblige("post.accepted only when the percentages sum to at most 100", total <= 100)
        for i, (f, q) in enumerate(r.attrs["pairs"]):
            st.oblige("post.component %d keeps its position" % i, z3.BoolVal(f is fs[i]))
            want = ps[i] if i < len(ps) else 100 - total
            st.oblige("post.component %d gets %s" % (i, "its percentage" if i < len(ps) else "the remainder 100 - sum"),
                      R(q) == want)
    return post


def _pct_unit(fn, which, n):
    return Unit("formula_grammar.%s[%d+1 components]" % (fn, n), GRAMMAR + "::" + fn, _percent_inputs(n), _percent_post(which),
                contracts={FORMULAS + "._mix_by_weight_pairs": c_mix_pairs_record("weight"),
                           FORMULAS + "._mix_by_volume_pairs": c_mix_pairs_record("volume")},
                closure=_closure, replay={"module": "c11", "task": "replay"})


U_BY_WEIGHT = [_pct_unit("convert_by_weight", "weight", n) for n in (1, 2)]
U_BY_VOLUME = [_pct_unit("convert_by_volume", "volume", n) for n in (1, 2)]


# ------------------------------------------------------------------------------ mix_by_weight / mix_by_volume wrappers

def c_formula_copy(interp, st, args, kw):
    """formula(x, table=T): a NEW Formula for x (units formula(...)); never x itself"""
    return VObj("FormulaCopy", {"of": args[0], "table": kw.get("table")})


def c_pairs_mixer(which):
    def c(interp, st, args, kw):
        pairs = interp.iterate_concrete(st, interp.resolve(st, args[0]))
        return VObj("Mixture", {"which": which, "pairs": [interp.iterate_concrete(st, p) for p in pairs],
                                "density": None, "name": None})
    return c


PUBLIC = VObj("PublicTable", {})


def _wrap_inputs(n, kwmode):
    def mk(st, interp):
        use_state(st)
        args = []
        fs, qs = [], []
        for i in range(n):
            f = FC.new_formula(st, "f%d" % i)
            q = st.fresh("q%d" % i, z3.RealSort())
            st.assume(q >= 0)
            args += [f, q]
            fs.append(f)
            qs.append(q)
        if kwmode == "odd":
            args = args[:-1]
        kw = {}
        C = {"fs": fs, "qs": qs, "kwmode": kwmode}
        if kwmode == "density":
            C["d"] = kw["density"] = st.fresh("density", z3.RealSort())
            st.assume(C["d"] > 0)
            kw["name"] = "mix"
        elif kwmode == "natural_density":
            C["d"] = kw["natural_density"] = st.fresh("natural_density", z3.RealSort())
            st.assume(C["d"] > 0)
        elif kwmode == "unknown-keyword":
            kw["densty"] = 1
        elif kwmode == "table":
            C["table"] = kw["table"] = VObj("PrivateTable", {})
        return args, kw, C
    return mk


def _wrap_post(which):
    def post(st, interp, C, res):
        mode = C["kwmode"]
        if res.outcome == "raise":
            st.oblige("post.raises ValueError for an odd argument list and TypeError for an unknown keyword, nothing else",
                      z3.BoolVal((mode == "odd" and res.exc == "ValueError") or (mode == "unknown-keyword" and res.exc == "TypeError")),
                      kind="raises", info={"exc": res.exc})
            return
        st.oblige("post.well-formed calls only", z3.BoolVal(mode not in ("odd", "unknown-keyword")))
        r = res.value
        ok = isinstance(r, VObj) and r.cls == "Mixture" and r.attrs["which"] == which and len(r.attrs["pairs"]) == len(C["fs"])
        st.oblige("post.returns the result of the %s pair mixer on one pair per component" % which, z3.BoolVal(bool(ok)))
        if not ok:
            return
        for i, (f, q) in enumerate(r.attrs["pairs"]):
            st.oblige("post.component %d is a fresh copy made by formula() of the caller's component (never the caller's object)" % i,
                      z3.BoolVal(isinstance(f, VObj) and f.cls == "FormulaCopy" and f.attrs["of"] is C["fs"][i]))
            st.oblige("post.component %d keeps its quantity" % i, R(q) == C["qs"][i])
            st.oblige("post.component %d is built on the table asked for (table=, else the public table)" % i,
                      z3.BoolVal(isinstance(f, VObj) and (f.attrs.get("table") is C["table"] if "table" in C
                                                           else (f.attrs.get("table") is PUBLIC or f.attrs.get("table") is None))))
        if mode == "density":
            st.oblige("post.density= and name= are applied to the mixture",
                      z3.And(spec.eq_goal(interp, st, r.attrs.get("density"), C["d"]), z3.BoolVal(r.attrs.get("name") == "mix")))
        elif mode == "natural_density":
            st.oblige("post.natural_density= is applied to the mixture", spec.eq_goal(interp, st, r.attrs.get("natural_density"), C["d"]))
        else:
            st.oblige("post.no density keyword: the mixer's own density is kept", z3.BoolVal(r.attrs.get("density") is None and "natural_density" not in r.attrs))
    return post


def _wrap_unit(fname, which, n, mode):
    return Unit("%s[%d components, %s]" % (fname, n, mode), FORMULAS + "." + fname, _wrap_inputs(n, mode), _wrap_post(which),
                contracts={FORMULAS + ".formula": c_formula_copy, FORMULAS + "._mix_by_weight_pairs": c_pairs_mixer("weight"),
                           FORMULAS + "._mix_by_volume_pairs": c_pairs_mixer("volume")},
                inline={CORE + ".default_table"}, env={(CORE, "PUBLIC_TABLE"): PUBLIC},
                replay={"module": "c11", "task": "replay"})


U_MIX_WRAPPERS = [_wrap_unit(fn, w, n, m) for fn, w in (("mix_by_weight", "weight"), ("mix_by_volume", "volume"))
                  for n, m in ((2, "plain"), (2, "density"), (1, "natural_density"), (2, "odd"), (1, "unknown-keyword"), (2, "table"))]


# ------------------------------------------------------------------------------ '5 g NaCl // 50 mL H2O@1' and '3 nm Fe // 2 um Ni' parse actions

_MASS_U = {'ng': "1e-9", 'ug': "1e-6", 'mg': "1e-3", 'g': "1", 'kg': "1e3"}      # documented units (guide): grams
_VOL_U = {'nL': "1e-9", 'uL': "1e-6", 'mL': "1e-3", 'L': "1"}                      # litres
_LEN_U = {'nm': "1e-9", 'um': "1e-6", 'mm': "1e-3", 'cm': "1e-2"}                  # metres


def _abs_inputs(units, nested):
    """tokens of `<v0> <u0> part0 // <v1> <u1> part1` (or, nested, `( mixture ) <count>` for the first part)"""
    def mk(st, interp):
        use_state(st)
        toks, vals, parts = [], [], []
        for i, u in enumerate(units):
            v = st.fresh("amount%d" % i, z3.RealSort())
            st.assume(v > 0)
            d = st.fresh("density%d" % i, z3.RealSort())
            dn = st.fresh("density%d_is_none" % i, z3.BoolSort())
            st.assume(d > 0)
            part = VObj((FORMULAS, "Formula"), {"id": i, "density": VOpt(dn, d)})
            if nested and i == 0:
                # a grouped mixture that already carries its total: `(...) <count>`: count multiplies its total
                tm = st.fresh("group_total", z3.RealSort())
                st.assume(tm > 0)
                part.attrs["total_mass"] = tm
                part.attrs["thickness"] = tm
                toks += [part, v]
                vals.append(("group", v, tm, part))
            else:
                toks += [VList([v, u]), part]
                vals.append((u, v, VOpt(dn, d), part))
            parts.append(part)
        return [z3.StringVal("s"), z3.IntVal(0), VList(toks)], {}, {"vals": vals, "parts": parts}
    return mk


def _abs_post(kind):
    def post(st, interp, C, res):
        vals, parts = C["vals"], C["parts"]
        need_density = [x[2].is_none for x in vals if x[0] in _VOL_U] if kind == "mass" else []
        if res.outcome == "raise":
            st.oblige("post.raises ValueError only when a component given by volume has no density",
                      z3.And(z3.BoolVal(res.exc == "ValueError" and bool(need_density)), z3.Or(need_density) if need_density else z3.BoolVal(False)),
                      kind="raises", info={"exc": res.exc})
            return
        r = res.value
        which = "weight" if kind == "mass" else "volume"
        ok = isinstance(r, VObj) and r.cls == "MixResult" and r.attrs["which"] == which and len(r.attrs["pairs"]) == len(parts)
        st.oblige("post.calls the %s mixer with one pair per component" % which, z3.BoolVal(bool(ok)))
        if not ok:
            return
        if need_density:
            st.oblige("post.accepted only when every component given by volume has a density", z3.Not(z3.Or(need_density)))
        amounts = []
        for (u, v, x, part) in vals:
            if u == "group":
                amounts.append(x * v)                                   # total of the group times its count
            elif kind == "mass":
                amounts.append(v * z3.RealVal(_MASS_U[u]) if u in _MASS_U else v * z3.RealVal(_VOL_U[u]) * 1000 * x.val)   # grams
            else:
                amounts.append(v * z3.RealVal(_LEN_U[u]))              # metres
        total = z3.Sum(amounts)
        for i, (f, q) in enumerate(r.attrs["pairs"]):
            st.oblige("post.component %d keeps its position" % i, z3.BoolVal(f is parts[i]))
            q0 = R(r.attrs["pairs"][0][1])
            # proportions only: the scale handed to the pair mixer (percent, fractions of one, grams) is the code's business
            st.oblige("post.component %d is mixed in proportion to its %s (documented unit factors; mL via density)" % (i, "mass in grams" if kind == "mass" else "thickness"),
                      z3.And(R(q) * amounts[0] == q0 * amounts[i], R(q) > 0))
        tot_attr = r.attrs.get("total_mass" if kind == "mass" else "thickness")
        st.oblige("post.the mixture records its total %s" % ("mass in grams" if kind == "mass" else "thickness in metres"),
                  spec.eq_goal(interp, st, tot_attr, total))
    return post


def _abs_unit(fn, kind, units, nested=False):
    return Unit("formula_grammar.%s[%s%s]" % (fn, " // ".join(units), ", first part a counted group" if nested else ""), GRAMMAR + "::" + fn,
                _abs_inputs(units, nested), _abs_post(kind),
                contracts={FORMULAS + "._mix_by_weight_pairs": c_mix_pairs_record("weight"), FORMULAS + "._mix_by_volume_pairs": c_mix_pairs_record("volume")},
                closure=_closure, writes={"total_mass", "thickness"}, replay={"module": "c11", "task": "replay"})


U_BY_ABSMASS = [_abs_unit("convert_by_absmass", "mass", [u, "g"]) for u in list(_MASS_U) + list(_VOL_U)] + \
               [_abs_unit("convert_by_absmass", "mass", ["mL", "uL", "kg"]), _abs_unit("convert_by_absmass", "mass", ["g", "mg"], nested=True)]
U_BY_LAYER = [_abs_unit("convert_by_layer", "layer", [u, "nm"]) for u in _LEN_U] + [_abs_unit("convert_by_layer", "layer", ["nm", "um"], nested=True)]
# a single part, and a counted group on its own ('(2g Co // 1g Ti)3'): the count multiplies the recorded total
U_BY_ABSMASS += [_abs_unit("convert_by_absmass", "mass", ["mg"]), _abs_unit("convert_by_absmass", "mass", ["g"], nested=True)]
U_BY_LAYER += [_abs_unit("convert_by_layer", "layer", ["um"]), _abs_unit("convert_by_layer", "layer", ["nm"], nested=True)]
