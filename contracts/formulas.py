"""Sidecar contracts for periodictable/formulas.py (composition layer: C01, C02, C12, C19).

Postconditions are taken from the property statements; loop invariants and helper preconditions
from the code.  Nothing in /repo is annotated.
"""
import z3

from pyvc import spec, theories as T
from pyvc.contract import Unit, Lemma
from pyvc.state import State
from pyvc.values import *   # noqa
from pyvc.values import VObj, VOpt, VSym, VTuple, VList, VMap, VDict, Unsupported
from .common import *      # noqa
from .common import (ATOMS, SEQS, FORMULAS, CORE, AVOGADRO, atoms_map, denotation_map, prefix_map,
                     use_state, map_get)

FCLS = (FORMULAS, "Formula")
F = FORMULAS + ".Formula."


# ------------------------------------------------------------------------------ symbolic inputs

def new_formula(st, name, density="opt", kind="tuple"):
    """a Formula object in an arbitrary well-formed state"""
    s = SEQS.new(st, name + "_structure")
    s.kind = kind
    if density == "opt":
        d = VOpt(st.fresh(name + "_density_is_none", z3.BoolSort()), st.fresh(name + "_density", z3.RealSort()))
    elif density == "known":
        d = st.fresh(name + "_density", z3.RealSort())
    else:
        d = None
    nm = VOpt(st.fresh(name + "_name_is_none", z3.BoolSort()), st.fresh(name + "_name", z3.StringSort()))
    return VObj(FCLS, {"structure": s, "name": nm, "density": d})


def structure_expr(interp, st, v):
    """Struct-sorted term of a structure value (splits fragments)"""
    if isinstance(v, VSym) and isinstance(v.theory, T.FragTheory):
        v = v.theory.split(interp, st, v)
    if isinstance(v, VSym) and isinstance(v.theory, T.SeqTheory):
        return v.expr
    return None


def atoms_of_value(interp, st, struct):
    """the atom map denoted by a structure value (symbolic or hybrid)"""
    S = structure_expr(interp, st, struct)
    if S is not None:
        return denotation_map(st, S)
    a = z3.Const("a!den", T.Atom)
    k = st.fresh("a_hyb", T.Atom)
    # hybrid (concrete tuple of pairs): denotation computed structurally at a bound variable
    body = T.den_of(interp, st, struct, a)
    sup = sup_of(interp, st, struct, a)
    return atoms_map(z3.Lambda([a], sup), z3.Lambda([a], body))


def sup_of(interp, st, value, a):
    if isinstance(value, VSym):
        th = value.theory
        if isinstance(th, T.SeqTheory):
            return T.SUP(value.expr, a)
        if isinstance(th, T.FragTheory):
            return T.occurs(value.expr, a)
        if isinstance(th, T.AtomTheory):
            return value.expr == a
    if isinstance(value, (VTuple, VList)):
        r = z3.BoolVal(False)
        for pair in value.items:
            r = z3.Or(r, sup_of(interp, st, pair.items[1], a))
        return r
    raise Unsupported("support of %r" % type(value).__name__)


# ------------------------------------------------------------------------------ callee contracts

def c_count_atoms(interp, st, args, kw):
    """_count_atoms(seq): {a: den(seq,a)} over the support; den is 0 outside the support.
    At recursive call sites the measure depth(seq) must decrease."""
    seq = args[0]
    S = structure_expr(interp, st, seq)
    if S is None:
        return atoms_of_value(interp, st, seq)
    measure = st.ghost.get("decreases")
    if measure is not None:
        st.oblige("recursion.decreases", z3.And(T.DEPTH(S) < measure, T.DEPTH(S) >= 0), kind="pre")
    # den is zero outside the support (part of the callee's postcondition): instantiated at the
    # skolem keys where the map is compared, which keeps path conditions quantifier-free
    m = denotation_map(st, S)
    inst0 = m.inst

    def inst(st_, k):
        inst0(st_, k)
        st_.assume(z3.Implies(z3.Not(T.SUP(S, k)), T.DEN(S, k) == 0))
    m.inst = inst
    return m


def c_atoms_getter(interp, st, args, kw):
    """Formula.atoms == _count_atoms(self.structure)  (proved by unit Formula.atoms)"""
    self = args[0]
    return c_count_atoms(interp, st, [self.attrs["structure"]], {})


def c_mass_getter(interp, st, args, kw):
    self = args[0]
    A = c_atoms_getter(interp, st, [self], {})
    return mass_spec(st, A)


def mass_spec(st, A):
    f = z3.Lambda([_a], T.MASS(_a) * z3.Select(A.val, _a))
    return spec.SumOver(st, A.dom, f, T.Atom)


_a = z3.Const("a!lam", T.Atom)


def charge_spec(st, A):
    f = z3.Lambda([_a], z3.Select(A.val, _a) * z3.ToReal(T.CHARGE(_a)))
    return spec.SumOver(st, A.dom, f, T.Atom)


CALLEE = {
    FORMULAS + "._count_atoms": c_count_atoms,
    F + "atoms": c_atoms_getter,
}
CALLEE_MASS = dict(CALLEE)
CALLEE_MASS[F + "mass"] = c_mass_getter


# ------------------------------------------------------------------------------ _count_atoms

def _ca_inputs(st, interp):
    use_state(st)
    s = SEQS.new(st, "seq")
    st.ghost["decreases"] = T.DEPTH(s.expr)
    return [s], {}, {"S": s.expr}


def _ca_post(st, interp, C, res):
    S = C["S"]
    if res.outcome == "raise":
        st.oblige("never-raises", False, kind="raises", info={"exc": res.exc})
        return
    st.oblige("post.result-is-denotation", spec.eq_goal(interp, st, res.value, denotation_map(st, S)))
    st.oblige("post.zero-outside-support", spec.goal(st, spec.Forall(
        T.Atom, lambda a: z3.Implies(z3.Not(T.SUP(S, a)), T.DEN(S, a) == 0),
        inst=lambda st_, a: SEQS.whole(st_, S, a))))


def _ca_l1_define(E):
    S, i = E.it.expr, E.i
    how = "base" if z3.is_int_value(i) else (("step", z3.simplify(i - 1)) if z3.is_add(i) else None)
    return prefix_map(E.st, S, i, how)


def _ca_l1_inv(E):
    S, i = E.it.expr, E.i

    def inst(st_, a):
        if z3.is_int_value(i):
            SEQS.base_prefix(st_, S, a)
        elif z3.is_add(i):
            SEQS.unfold_prefix(st_, S, z3.simplify(i - 1), a)
        p = E.cur.get("partial")
        if isinstance(p, VMap) and p.inst is not None:
            p.inst(st_, a)      # callee postcondition of the recursive call at this atom
    return [("zero-outside-support",
             spec.Forall(T.Atom, lambda a: z3.Implies(z3.Not(T.SUPP(S, i, a)), T.DENP(S, i, a) == 0), inst=inst))]


def _ca_l2_define(E):
    P, old, cnt, V = E.it, E.old["total"], E.cur["count"], E.V
    a = z3.Const("a!l2", T.Atom)
    dom = z3.Lambda([a], z3.Or(z3.Select(old.dom, a), z3.Select(V, a)))
    val = z3.Lambda([a], z3.If(z3.Select(old.dom, a), z3.Select(old.val, a), 0)
                    + z3.If(z3.Select(V, a), z3.Select(P.val, a) * to_real(cnt), 0))

    def inst(st_, k):
        for m in (old, P):
            if m.inst is not None:
                m.inst(st_, k)
    return atoms_map(dom, val, inst=inst)


U_COUNT_ATOMS = Unit(
    "_count_atoms", FORMULAS + "._count_atoms", _ca_inputs, _ca_post,
    contracts={FORMULAS + "._count_atoms": c_count_atoms},
    loops={(FORMULAS + "._count_atoms", 1): {"define": {"total": _ca_l1_define}, "invariant": _ca_l1_inv},
           (FORMULAS + "._count_atoms", 2): {"define": {"total": _ca_l2_define}, "mutates": ["total"]}},
    replay={"module": "c02", "task": "replay"},
    doc="atoms(seq)[a] == sum over entries of count * (1 if fragment is a else atoms(fragment)[a])")


# ------------------------------------------------------------------------------ Formula.atoms

def _self_inputs(density="opt"):
    def mk(st, interp):
        use_state(st)
        f = new_formula(st, "self", density)
        return [f], {}, {"self": f, "S": f.attrs["structure"].expr, "snapshot": dict(f.attrs)}
    return mk


def frame_unchanged(st, obj, snapshot, label="self"):
    same = set(obj.attrs) == set(snapshot) and all(obj.attrs[k] is snapshot[k] for k in snapshot)
    st.oblige("frame.%s-unchanged" % label, z3.BoolVal(bool(same)), kind="frame")


def _atoms_post(st, interp, C, res):
    if res.outcome == "raise":
        st.oblige("never-raises", False, kind="raises", info={"exc": res.exc})
        return
    st.oblige("post.atoms-is-denotation-of-structure",
              spec.eq_goal(interp, st, res.value, denotation_map(st, C["S"])))
    frame_unchanged(st, C["self"], C["snapshot"])


U_ATOMS = Unit("Formula.atoms", F + "atoms", _self_inputs(), _atoms_post,
               contracts={FORMULAS + "._count_atoms": c_count_atoms},
               replay={"module": "c02", "task": "replay"})


# ------------------------------------------------------------------------------ Formula.mass

def _mass_post(st, interp, C, res):
    if res.outcome == "raise":
        st.oblige("never-raises", False, kind="raises", info={"exc": res.exc})
        return
    A = denotation_map(st, C["S"])
    st.oblige("post.mass-is-count-weighted-sum", spec.eq_goal(interp, st, res.value, mass_spec(st, A)))
    frame_unchanged(st, C["self"], C["snapshot"])


def _mass_loop_define(E):
    A = E.it
    f = z3.Lambda([_a], T.MASS(_a) * z3.Select(A.val, _a))
    return spec.SumOver(E.st, E.V, f, T.Atom)


U_MASS = Unit("Formula.mass", F + "mass", _self_inputs(), _mass_post, contracts=CALLEE,
              loops={(F + "mass", 1): {"define": {"mass": _mass_loop_define}}},
              replay={"module": "c02", "task": "replay"})


# ------------------------------------------------------------------------------ Formula.charge

def _charge_post(st, interp, C, res):
    if res.outcome == "raise":
        st.oblige("never-raises", False, kind="raises", info={"exc": res.exc})
        return
    A = denotation_map(st, C["S"])
    st.oblige("post.charge-is-count-weighted-sum", spec.eq_goal(interp, st, res.value, charge_spec(st, A)))
    frame_unchanged(st, C["self"], C["snapshot"])


U_CHARGE = Unit("Formula.charge", F + "charge", _self_inputs(), _charge_post, contracts=CALLEE,
                replay={"module": "c02", "task": "replay"})


# ------------------------------------------------------------------------------ molecular_mass, mass_fraction

def _molmass_post(st, interp, C, res):
    if res.outcome == "raise":
        st.oblige("never-raises", False, kind="raises", info={"exc": res.exc})
        return
    A = denotation_map(st, C["S"])
    st.oblige("post.molecular_mass-is-mass-over-avogadro",
              spec.eq_goal(interp, st, res.value, mass_spec(st, A) / z3.RealVal(AVOGADRO)))


U_MOLMASS = Unit("Formula.molecular_mass", F + "molecular_mass", _self_inputs(), _molmass_post,
                 contracts=CALLEE_MASS, replay={"module": "c02", "task": "replay"})


def _mf_inputs(st, interp):
    args, kw, C = _self_inputs()(st, interp)
    A = denotation_map(st, C["S"])
    C["M"] = mass_spec(st, A)
    st.assume(C["M"] != 0)      # the property speaks about formulas with non-zero mass
    return args, kw, C


def _mf_post(st, interp, C, res):
    if res.outcome == "raise":
        st.oblige("never-raises", False, kind="raises", info={"exc": res.exc})
        return
    A = denotation_map(st, C["S"])
    M = C["M"]
    want = atoms_map(A.dom, z3.Lambda([_a], z3.Select(A.val, _a) * T.MASS(_a) / M), inst=A.inst)
    st.oblige("post.fraction-is-count-times-mass-over-total", spec.eq_goal(interp, st, res.value, want))


U_MASS_FRACTION = Unit("Formula.mass_fraction", F + "mass_fraction", _mf_inputs, _mf_post,
                       contracts=CALLEE_MASS, replay={"module": "c02", "task": "replay"})


# ------------------------------------------------------------------------------ lemmas on finite sums (L3)

def lemma_sum_homogeneous():
    """SumOver(S, c*f) == c*SumOver(S, f): set-insertion induction (base: empty set, step: S+{k})"""
    states = []
    c = z3.Real("c")
    f = z3.Const("f", z3.ArraySort(T.Atom, z3.RealSort()))
    cf = z3.Lambda([_a], c * z3.Select(f, _a))
    # base
    st = State()
    e = z3.K(T.Atom, z3.BoolVal(False))
    st.oblige("base", spec.SumOver(st, e, cf, T.Atom) == c * spec.SumOver(st, e, f, T.Atom), kind="lemma")
    states.append(st)
    # step
    st = State()
    V = z3.Const("V", z3.ArraySort(T.Atom, z3.BoolSort()))
    k = z3.Const("k", T.Atom)
    st.assume(z3.Not(z3.Select(V, k)))
    st.assume(spec.SumOver(st, V, cf, T.Atom) == c * spec.SumOver(st, V, f, T.Atom))
    V2 = z3.Store(V, k, z3.BoolVal(True))
    st.oblige("step", spec.SumOver(st, V2, cf, T.Atom) == c * spec.SumOver(st, V2, f, T.Atom), kind="lemma")
    states.append(st)
    return states


L_SUM_HOMOGENEOUS = Lemma("SumOver.homogeneous", lemma_sum_homogeneous,
                          doc="finite sums commute with a constant factor; gives sum(mass_fraction) == 1")


def lemma_mass_fractions_sum_to_one():
    """with the homogeneity lemma instantiated at c = 1/M:  SumOver(dom, n*m/M) == 1 when M == SumOver(dom, n*m) != 0"""
    st = State()
    dom = z3.Const("dom", z3.ArraySort(T.Atom, z3.BoolSort()))
    val = z3.Const("val", z3.ArraySort(T.Atom, z3.RealSort()))
    f = z3.Lambda([_a], z3.Select(val, _a) * T.MASS(_a))
    M = spec.SumOver(st, dom, f, T.Atom)
    st.assume(M != 0)
    c = 1 / M
    cf = z3.Lambda([_a], c * z3.Select(f, _a))
    # instance of L_SUM_HOMOGENEOUS (proved above by induction) at (dom, f, c)
    st.assume(spec.SumOver(st, dom, cf, T.Atom) == c * M)
    frac = z3.Lambda([_a], z3.Select(val, _a) * T.MASS(_a) / M)
    # pointwise equality of the two summands (congruence of SumOver under extensional equality)
    k = z3.Const("k!cong", T.Atom)
    st.oblige("summands-agree", z3.simplify(z3.Select(frac, k)) == z3.simplify(z3.Select(cf, k)), kind="lemma",
              assume_after=False)
    # extensionality: point-wise equal families are the same family
    st.assume(spec.canon_array(st, frac) == spec.canon_array(st, cf))
    st.oblige("fractions-sum-to-one", spec.SumOver(st, dom, frac, T.Atom) == 1, kind="lemma")
    return [st]


L_FRACTIONS = Lemma("mass_fraction.sum-to-one", lemma_mass_fractions_sum_to_one)


# ------------------------------------------------------------------------------ concat lemma (L2)

def lemma_concat():
    """den(concat(A,B), x) == den(A,x) + den(B,x) and sup likewise; two prefix inductions"""
    A, B = z3.Const("A", T.Seq), z3.Const("B", T.Seq)
    x = z3.Const("x", T.Atom)
    states = []

    def setup():
        st = State()
        st.ghost["concat_items"] = True
        a = VSym(A, SEQS)
        b = VSym(B, SEQS)
        st.assume(SEQS.wf(A))
        st.assume(SEQS.wf(B))
        c = SEQS.concat(None, st, a, b).expr
        return st, c
    la = T.SLEN(A)
    # Q(i), 0 <= i <= len A : prefix of the concatenation agrees with prefix of A
    st, c = setup()
    SEQS.base_prefix(st, c, x)
    SEQS.base_prefix(st, A, x)
    st.oblige("Q.base", z3.And(T.DENP(c, 0, x) == T.DENP(A, 0, x), T.SUPP(c, 0, x) == T.SUPP(A, 0, x)), kind="lemma")
    states.append(st)
    st, c = setup()
    i = z3.Int("i")
    st.assume(z3.And(i >= 0, i < la))
    st.assume(z3.And(T.DENP(c, i, x) == T.DENP(A, i, x), T.SUPP(c, i, x) == T.SUPP(A, i, x)))
    SEQS.unfold_prefix(st, c, i, x)
    SEQS.unfold_prefix(st, A, i, x)
    st.oblige("Q.step", z3.And(T.DENP(c, i + 1, x) == T.DENP(A, i + 1, x),
                               T.SUPP(c, i + 1, x) == T.SUPP(A, i + 1, x)), kind="lemma")
    states.append(st)
    # P(j), 0 <= j <= len B : prefix la+j of the concatenation = den(A) + prefix j of B
    st, c = setup()
    SEQS.whole(st, A, x)
    SEQS.base_prefix(st, B, x)
    st.assume(z3.And(T.DENP(c, la, x) == T.DENP(A, la, x), T.SUPP(c, la, x) == T.SUPP(A, la, x)))   # Q(len A)
    st.oblige("P.base", z3.And(T.DENP(c, la + 0, x) == T.DEN(A, x) + T.DENP(B, 0, x),
                               T.SUPP(c, la + 0, x) == z3.Or(T.SUP(A, x), T.SUPP(B, 0, x))), kind="lemma")
    states.append(st)
    st, c = setup()
    j = z3.Int("j")
    st.assume(z3.And(j >= 0, j < T.SLEN(B)))
    st.assume(z3.And(T.DENP(c, la + j, x) == T.DEN(A, x) + T.DENP(B, j, x),
                     T.SUPP(c, la + j, x) == z3.Or(T.SUP(A, x), T.SUPP(B, j, x))))
    SEQS.unfold_prefix(st, c, la + j, x)
    SEQS.unfold_prefix(st, B, j, x)
    st.oblige("P.step", z3.And(T.DENP(c, la + j + 1, x) == T.DEN(A, x) + T.DENP(B, j + 1, x),
                               T.SUPP(c, la + j + 1, x) == z3.Or(T.SUP(A, x), T.SUPP(B, j + 1, x))), kind="lemma")
    states.append(st)
    # conclusion from P(len B)
    st, c = setup()
    SEQS.whole(st, c, x)
    SEQS.whole(st, B, x)
    lb = T.SLEN(B)
    st.assume(z3.And(T.DENP(c, la + lb, x) == T.DEN(A, x) + T.DENP(B, lb, x),
                     T.SUPP(c, la + lb, x) == z3.Or(T.SUP(A, x), T.SUPP(B, lb, x))))
    st.oblige("conclusion", z3.And(T.DEN(c, x) == T.DEN(A, x) + T.DEN(B, x),
                                   T.SUP(c, x) == z3.Or(T.SUP(A, x), T.SUP(B, x))), kind="lemma")
    states.append(st)
    return states


L_CONCAT = Lemma("denote.concat", lemma_concat,
                 doc="composition of a concatenation is the sum of the compositions")


def use_concat(st, A, B, x):
    """instance of L_CONCAT (proved) at (A, B, x)"""
    c = T.CONCAT(A, B)
    st.assume(z3.And(T.DEN(c, x) == T.DEN(A, x) + T.DEN(B, x), T.SUP(c, x) == z3.Or(T.SUP(A, x), T.SUP(B, x))))


# ------------------------------------------------------------------------------ __add__, __iadd__, __rmul__

def _binop_inputs(st, interp):
    use_state(st)
    f = new_formula(st, "self")
    g = new_formula(st, "other")
    return [f, g], {}, {"self": f, "other": g, "S": f.attrs["structure"].expr, "G": g.attrs["structure"].expr,
                        "snap_self": dict(f.attrs), "snap_other": dict(g.attrs)}


def _result_structure_sum(st, interp, C, struct_value, label):
    S, G = C["S"], C["G"]

    def inst(st_, x):
        use_concat(st_, S, G, x)
        use_concat(st_, G, S, x)
    A = atoms_of_value(interp, st, struct_value)
    want = atoms_map(z3.Lambda([_a], z3.Or(T.SUP(S, _a), T.SUP(G, _a))),
                     z3.Lambda([_a], T.DEN(S, _a) + T.DEN(G, _a)), inst=inst)
    st.oblige("post.%s-atoms-are-sum-of-operands" % label, spec.eq_goal(interp, st, A, want))


def _add_post(st, interp, C, res):
    if res.outcome == "raise":
        st.oblige("never-raises-for-formula-operands", False, kind="raises", info={"exc": res.exc})
        return
    r = res.value
    ok = isinstance(r, VObj) and r.cls == FCLS and r is not C["self"] and r is not C["other"]
    st.oblige("post.result-is-a-new-formula", z3.BoolVal(bool(ok)))
    if not ok:
        return
    _result_structure_sum(st, interp, C, r.attrs["structure"], "sum")
    rs = r.attrs["structure"]
    st.oblige("post.result-structure-is-a-tuple", z3.BoolVal(getattr(rs, "kind", None) == "tuple" or isinstance(rs, VTuple)))
    frame_unchanged(st, C["self"], C["snap_self"], "self")
    frame_unchanged(st, C["other"], C["snap_other"], "other")


U_ADD = Unit("Formula.__add__", F + "__add__", _binop_inputs, _add_post,
             contracts=CALLEE, inline={F + "__init__"}, replay={"module": "c02", "task": "replay"})


def _add_bad_inputs(st, interp):
    use_state(st)
    f = new_formula(st, "self")
    other = st.fresh("other", z3.RealSort())
    return [f, other], {}, {"self": f, "snap_self": dict(f.attrs)}


def _add_bad_post(st, interp, C, res):
    st.oblige("post.non-formula-operand-raises-TypeError",
              z3.BoolVal(res.outcome == "raise" and res.exc == "TypeError"), kind="raises")
    frame_unchanged(st, C["self"], C["snap_self"], "self")


U_ADD_BAD = Unit("Formula.__add__[non-formula]", F + "__add__", _add_bad_inputs, _add_bad_post,
                 contracts=CALLEE, inline={F + "__init__"})


def _iadd_post(st, interp, C, res):
    if res.outcome == "raise":
        st.oblige("never-raises-for-formula-operands", False, kind="raises", info={"exc": res.exc})
        return
    st.oblige("post.returns-self", z3.BoolVal(res.value is C["self"]))
    _result_structure_sum(st, interp, C, C["self"].attrs["structure"], "updated-self")
    others = {k: v for k, v in C["snap_self"].items() if k != "structure"}
    same = all(C["self"].attrs.get(k) is v for k, v in others.items()) and set(C["self"].attrs) == set(C["snap_self"])
    st.oblige("frame.self-only-structure-changed", z3.BoolVal(bool(same)), kind="frame")
    frame_unchanged(st, C["other"], C["snap_other"], "other")


U_IADD = Unit("Formula.__iadd__", F + "__iadd__", _binop_inputs, _iadd_post, contracts=CALLEE,
              replay={"module": "c02", "task": "replay"})


def _rmul_inputs(st, interp):
    use_state(st)
    f = new_formula(st, "self")
    n = st.fresh("n", z3.RealSort())
    st.assume(n >= 0)
    return [f, n], {}, {"self": f, "n": n, "S": f.attrs["structure"].expr, "snap_self": dict(f.attrs)}


def _rmul_post(st, interp, C, res):
    if res.outcome == "raise":
        st.oblige("never-raises-for-numeric-multiplier", False, kind="raises", info={"exc": res.exc})
        return
    r = res.value
    ok = isinstance(r, VObj) and r.cls == FCLS and r is not C["self"]
    st.oblige("post.result-is-a-new-formula", z3.BoolVal(bool(ok)))
    if not ok:
        return
    S, n = C["S"], C["n"]
    x = st.fresh("x_sk", T.Atom)
    T.unfold_small(st, SEQS, S, x, upto=2)
    have = T.den_of(interp, st, r.attrs["structure"], x)
    st.oblige("post.atoms-are-n-times-operand", have == n * T.DEN(S, x))
    st.oblige("post.density-and-name-copied", z3.BoolVal(
        r.attrs.get("density") is C["snap_self"]["density"] and r.attrs.get("name") is C["snap_self"]["name"]))
    frame_unchanged(st, C["self"], C["snap_self"], "self")


U_RMUL = Unit("Formula.__rmul__", F + "__rmul__", _rmul_inputs, _rmul_post, contracts=CALLEE,
              replay={"module": "c02", "task": "replay"})


def _rmul_bad_inputs(st, interp):
    use_state(st)
    f = new_formula(st, "self")
    return [f, None], {}, {"self": f, "snap_self": dict(f.attrs)}


def _rmul_bad_post(st, interp, C, res):
    st.oblige("post.non-numeric-multiplier-raises-TypeError",
              z3.BoolVal(res.outcome == "raise" and res.exc == "TypeError"), kind="raises")
    frame_unchanged(st, C["self"], C["snap_self"], "self")


U_RMUL_BAD = Unit("Formula.__rmul__[non-numeric]", F + "__rmul__", _rmul_bad_inputs, _rmul_bad_post,
                  contracts=CALLEE)


# ------------------------------------------------------------------------------ Ion.mass (core.py)

def _ionmass_inputs(st, interp):
    use_state(st)
    el = st.fresh("element", T.Atom)
    q = st.fresh("charge", z3.IntSort())
    ion = VObj((CORE, "Ion"), {"element": VSym(el, ATOMS), "charge": q})
    return [ion], {}, {"el": el, "q": q}


def _ionmass_post(st, interp, C, res):
    if res.outcome == "raise":
        st.oblige("never-raises", False, kind="raises", info={"exc": res.exc})
        return
    st.oblige("post.ion-mass-is-atom-mass-less-charge-electron-masses",
              spec.eq_goal(interp, st, res.value, T.MASS(C["el"]) - z3.RealVal(ATOMS.me) * z3.ToReal(C["q"])))


U_ION_MASS = Unit("Ion.mass", CORE + ".Ion.mass", _ionmass_inputs, _ionmass_post,
                  doc="justifies the ion clause of the atom theory's well-formedness (L4)")
